#!/venv/bin/python
"""usage: tools/confirm_seed.py <ID> <k> [check ids...]
Independently confirm a seeded change produced by a sub-agent in /tmp/seed/<ID>.out/ (patch<k>.diff, demo<k>.py):
  1. demo exits 0 on the unpatched scratch worktree, 1 with the patch;
  2. the repository test-suite passes the same set of tests with the patch (run in the worktree with
     PYTHONPATH=<worktree>/src, compared with an unpatched run of the same command);
  3. run the named /verif checks (default: <ID>) against a patched scratch copy (tools/try_patch.sh).
On success copy patch/demo/meta to /verif/seeded/<ID>-<k>/ with meta.json recording what was run and which checks caught it."""
import json, os, shutil, subprocess, sys
import xml.etree.ElementTree as ET

pid, k = sys.argv[1], sys.argv[2]
checks = sys.argv[3:] or [pid]
root = os.environ.get("SEED_ROOT", "/tmp/seed")
off = int(os.environ.get("SEED_OFFSET", "0"))   # wave 2: SEED_ROOT=/tmp/seed2 SEED_OFFSET=2 -> seeded/<ID>-3, -4
wt, out = f"{root}/{pid}", f"{root}/{pid}.out"
patch, demo = f"{out}/patch{k}.diff", f"{out}/demo{k}.py"
env = dict(os.environ, PYTHONPATH=f"{wt}/src", PYTHONHASHSEED="0")
env.pop("GRIFFE_VERIF", None)

def sh(cmd, **kw):
    return subprocess.run(cmd, shell=True, capture_output=True, text=True, **kw)

def suite(tag):
    xml = f"{root}/{pid}.{tag}.xml"
    sh(f"cd {wt} && /venv/bin/python -m pytest -q -p no:cacheprovider --timeout=900 --continue-on-collection-errors -q --junitxml={xml}", env=env)
    ok = set()
    for tc in ET.parse(xml).getroot().iter("testcase"):
        if not any(ch.tag in ("failure", "error", "skipped") for ch in tc):
            ok.add(f"{tc.get('classname')}::{tc.get('name')}".replace(wt, "<wt>"))
    os.remove(xml)
    return ok

assert sh(f"git -C {wt} status --short").stdout.strip() == "", "worktree not clean"
r0 = sh(f"/venv/bin/python {demo}", env=env, cwd=out)
base_cache = f"{root}/base_pass.json"
if os.path.exists(base_cache):
    base = set(json.load(open(base_cache)))
else:
    base = suite("base"); json.dump(sorted(base), open(base_cache, "w"))
ap = sh(f"git -C {wt} apply {patch}")
assert ap.returncode == 0, "patch does not apply: " + ap.stderr
try:
    r1 = sh(f"/venv/bin/python {demo}", env=env, cwd=out)
    comp = sh(f"/venv/bin/python -m compileall -q {wt}/src/_griffe", env=env)
    patched = suite("patched")
finally:
    sh(f"git -C {wt} checkout -- . && git -C {wt} clean -fdq")
lost = sorted(base - patched)
print(f"demo unpatched rc={r0.returncode}, patched rc={r1.returncode}; suite: {len(base)} pass unpatched, {len(patched)} patched, lost={lost[:5]}")
verdict = r0.returncode == 0 and r1.returncode == 1 and not lost and comp.returncode == 0
caught = {}
for c in checks:
    r = sh(f"/verif/tools/try_patch.sh {patch} {c}")
    rc = int(r.stdout.strip().splitlines()[-1].split("rc=")[1]) if "rc=" in r.stdout else -1
    caught[c] = {"rc": rc, "lines": [l for l in r.stdout.splitlines() if l.startswith(("VIOLATION", "MACHINERY"))][:3]}
    print(f"check {c}: rc={rc}")
if not verdict:
    print("NOT CONFIRMED: seed rejected"); print(r0.stdout[-500:], r1.stdout[-500:]); sys.exit(1)
dst = f"/verif/seeded/{pid}-{int(k) + off}"
os.makedirs(dst, exist_ok=True)
shutil.copy(patch, f"{dst}/patch.diff"); shutil.copy(demo, f"{dst}/demo.py")
meta = json.load(open(f"{out}/meta{k}.json")) if os.path.exists(f"{out}/meta{k}.json") else {}
meta.update({"property": pid, "confirmed_by_me": {"demo_rc_unpatched": 0, "demo_rc_patched": 1, "demo_output_patched": r1.stdout[-800:],
             "suite": f"PYTHONPATH=<worktree>/src pytest: {len(base)} passing tests unpatched, all still pass with the patch", "compiles": True},
             "checks_run": caught})
json.dump(meta, open(f"{dst}/meta.json", "w"), indent=1)
print("confirmed ->", dst, "caught by:", [c for c, v in caught.items() if v["rc"] == 1])
