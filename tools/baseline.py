#!/venv/bin/python
"""Run the repository's pinned test-suite with the verification guard OFF and compare with
/root/.vp/BASELINE.json: every test of `stable_pass` must still pass.  Exit 0 iff so."""
import json, os, subprocess, sys, tempfile
import xml.etree.ElementTree as ET

base = json.load(open("/root/.vp/BASELINE.json"))
env = {k: v for k, v in os.environ.items() if k not in ("GRIFFE_VERIF", "PYTHONPATH")}
with tempfile.TemporaryDirectory() as d:
    xml = os.path.join(d, "junit.xml")
    cmd = base["cmd"].replace("<file>", xml)
    subprocess.run(cmd, shell=True, env=env, stdout=subprocess.DEVNULL, stderr=subprocess.DEVNULL, check=False)
    passed = set()
    for tc in ET.parse(xml).getroot().iter("testcase"):
        if not any(ch.tag in ("failure", "error", "skipped") for ch in tc):
            passed.add(f"{tc.get('classname')}::{tc.get('name')}")
missing = [t for t in base["stable_pass"] if t not in passed]
print(f"baseline: {len(base['stable_pass'])} stable tests, {len(passed)} passed now, {len(missing)} stable tests not passing")
for t in missing[:20]:
    print("  NOT PASSING:", t)
sys.exit(1 if missing else 0)
