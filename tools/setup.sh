#!/bin/sh
# Offline setup: nothing to build (specs are interpreted by TLC, harness is pure Python); verify the toolchain.
set -e
cd "$(dirname "$0")/.."
test -x /venv/bin/python
test -f /opt/veriftools/tla/tla2tools.jar
java -version >/dev/null 2>&1
/venv/bin/python -c "import hypothesis, jsonschema"
mkdir -p evidence replays
PYTHONPATH=/repo/src:$(pwd) /venv/bin/python -c "from gverif.common import ensure_repo; ensure_repo(); print('griffe imports from the working tree')"
chmod +x check tools/*.py tools/*.sh 2>/dev/null || true
echo setup ok
