#!/bin/sh
# usage: tools/refactor_matrix.sh [ID-rk ...]   - run the quick check of each behaviour-preserving refactoring's
# property against a patched scratch copy; expected: rc 0 everywhere. Writes refactors/RESULTS.md.
cd "$(dirname "$0")/.."
list="$*"; [ -z "$list" ] && list=$(ls refactors | grep '^C')
out_file=${REFOUT:-/tmp/refmatrix.txt}
: > $out_file
for r in $list; do
  id=${r%%-*}
  pf=refactors/$r/patch-rebased.diff; [ -f $pf ] || pf=refactors/$r/patch.diff
  out=$(timeout 1200 tools/try_patch.sh $pf $id 2>&1); rc=$(echo "$out" | tail -1 | sed 's/.*rc=//')
  echo "$r $id rc=$rc viol=$(echo "$out" | grep -c '^VIOLATION') mach=$(echo "$out" | grep -c MACHINERY)" | tee -a $out_file
done
{
  echo "# Behaviour-preserving refactorings vs quick checks (expected rc=0)"; echo
  echo "| refactoring | check | result |"; echo "|---|---|---|"
  awk '{print "| "$1" | "$2" | "$3" "$4" "$5" |"}' $out_file
} > ${REFRESULTS:-refactors/RESULTS.md}
