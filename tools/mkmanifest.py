#!/venv/bin/python
"""Assemble /verif/MANIFEST.json from manifest.d/*.json fragments and validate it."""
import glob, json, os, subprocess, sys
import jsonschema

here = os.path.dirname(os.path.dirname(os.path.abspath(__file__)))
props = [json.loads(l)["id"] for l in open(os.path.join(here, "properties.jsonl"))]
checks, na = [], []
enabled = set(open(os.path.join(here, "manifest.d", "ENABLED")).read().split())
for f in sorted(glob.glob(os.path.join(here, "manifest.d", "C*.json"))):
    frag = json.load(open(f))
    if frag["property_id"] not in enabled and "not_applicable" not in frag:
        continue   # built but not yet validated on the unchanged tree: not claimed
    if "not_applicable" in frag:
        na.append({"property_id": frag["property_id"], "reason": frag["not_applicable"]})
        continue
    pid = frag["property_id"]
    chk = {
        "property_id": pid,
        "quick_cmd": f"./check {pid} --tier quick",
        "thorough_cmd": f"./check {pid} --tier thorough",
        "evidence_file": f"/verif/evidence/{pid}.json",
        "replay_cmd_template": f"./check {pid} --replay {{path}}",
        "engine": "tlc+replay",
        "level_claimed": {"category": frag.get("category", "model_checking"), "text": frag["level_text"], "design_ref": frag.get("design_ref", f"DESIGN.md section 4, {pid}")},
        "level_note": frag["level_note"],
        "technique": frag["technique"],
    }
    checks.append(chk)
claimed = {c["property_id"] for c in checks} | {n["property_id"] for n in na}
for p in props:
    if p not in claimed:
        na.append({"property_id": p, "reason": "check not built yet in this round (no driver registered); see DESIGN.md section 4 for the planned TLA+ module"})
try:
    commits = subprocess.run(["git", "-C", "/repo", "log", "--format=%H %s"], capture_output=True, text=True).stdout.splitlines()
except Exception:
    commits = []
hook_commits = [c.split()[0] for c in commits if c.split(" ", 1)[1].startswith("verif-hook:")]
man = {
    "version": 1,
    "setup_cmd": "./tools/setup.sh",
    "hooks": {
        "guard": "GRIFFE_VERIF",
        "enable": "checks run /venv/bin/python with PYTHONPATH=/repo/src:/verif and GRIFFE_VERIF=1; observation uses the public API, passive Extension subclasses, sys.monitoring taps and wrappers installed by the harness process - no source hook is compiled in unless listed in source_commits",
        "baseline_off_cmd": "/verif/tools/baseline.py",
        "source_commits": hook_commits,
        "add_only": True,
    },
    "engines": [{"name": "tlc+replay", "path": "/verif/check", "serves_properties": sorted(c["property_id"] for c in checks),
                 "kind_free_text": "TLA+ specification in /verif/spec checked by TLC 1.8; TLC-enumerated cases/behaviours are replayed on the real Griffe and recorded traces are validated by Trace_*.tla"}],
    "checks": checks,
    "not_applicable": sorted(na, key=lambda n: n["property_id"]),
    "notes": "One growing TLA+ specification (spec/*.tla). Exit codes: 0 held, 1 VIOLATION, 2 machinery failure. known_findings.json lists genuine defects (known/fixed).",
}
allf = []
for f in sorted(glob.glob(os.path.join(here, "findings.d", "C*.json"))):
    allf += json.load(open(f)).get("findings", [])
json.dump({"comment": "Merged index of findings.d/*.json (the files the checks read; never written at run time). status=known: genuine defect recorded, matched narrowly by `match` over the abstract signature the driver reports, printed as KNOWN-FINDING. status=fixed: repaired by a fix: commit in /repo; suppresses nothing.",
           "findings": allf}, open(os.path.join(here, "known_findings.json"), "w"), indent=1)
jsonschema.validate(man, json.load(open("/root/.vp/MANIFEST.schema.json")))
json.dump(man, open(os.path.join(here, "MANIFEST.json"), "w"), indent=1)
print(f"MANIFEST.json: {len(checks)} checks, {len(na)} not_applicable")
