#!/venv/bin/python
"""Rebuild /verif/DESIGN.md from design.d/: as-built overview, generated tables (fix commits, seeded
changes, findings), per-property as-built sections, then the original plan (Part I)."""
import glob, json, os, subprocess

here = os.path.dirname(os.path.dirname(os.path.abspath(__file__)))
out = ["# DESIGN — model-based verification of mkdocstrings/griffe with an explicit TLA+ specification\n",
       "This file is assembled by `tools/mkdesign.py` from `design.d/`: Part II (as built) first, Part I (the plan written before the code) after it.\n"]
out.append(open(os.path.join(here, "design.d", "01-ASBUILT.md")).read())

# fix commits
log = subprocess.run(["git", "-C", "/repo", "log", "--reverse", "--format=%h %s"], capture_output=True, text=True).stdout.splitlines()
out.append("## II.4 Repairs committed to /repo (`fix:` commits)\n")
for l in log:
    if " fix:" in " " + l.split(" ", 1)[1][:5] or l.split(" ", 1)[1].startswith("fix:"):
        out.append(f"* `{l.split()[0]}` {l.split(' ', 1)[1]}")
out.append("")

# findings table
out.append("## II.5 Findings per property (from `findings.d/`)\n")
out.append("| property | fixed | known | ids |\n|---|---|---|---|")
for f in sorted(glob.glob(os.path.join(here, "findings.d", "C*.json"))):
    fs = json.load(open(f)).get("findings", [])
    pid = os.path.basename(f)[:-5]
    fixed = [x["id"] for x in fs if x.get("status") == "fixed"]
    known = [x["id"] for x in fs if x.get("status") == "known"]
    out.append(f"| {pid} | {len(fixed)} | {len(known)} | " + ", ".join(f"~~{i}~~" for i in fixed) + (" " if fixed else "") + ", ".join(known) + " |")
out.append("")

# seeded changes
out.append("## II.6 Seeded changes (independent sub-agents, property text only) and which check catches them\n")
out.append("Each was confirmed independently (`tools/confirm_seed.py`): the demonstration exits 0 unpatched and 1 patched, the repository suite passes the same tests, and the named checks were run against a patched scratch copy.\n")
out.append("| seed | property | what it needs to manifest | caught by (quick tier) |\n|---|---|---|---|")
for d in sorted(glob.glob(os.path.join(here, "seeded", "*"))):
    mp = os.path.join(d, "meta.json")
    if not os.path.exists(mp):
        continue
    m = json.load(open(mp))
    caught = [c for c, v in m.get("checks_run", {}).items() if v.get("rc") == 1]
    missed = [c for c, v in m.get("checks_run", {}).items() if v.get("rc") == 0]
    need = str(m.get("needs_to_manifest", ""))[:220].replace("\n", " ").replace("|", "/")
    out.append(f"| {os.path.basename(d)} | {m.get('property')} | {need} | {', '.join(caught) or '—'}{' (MISSED by ' + ', '.join(missed) + ')' if missed else ''} |")
out.append("")
rp = os.path.join(here, "refactors", "RESULTS.md")
if os.path.exists(rp):
    out.append("## II.7 Behaviour-preserving refactorings (false-alarm test)\n")
    out.append("Independent sub-agents wrote 60 refactorings of the anchored code (3 per property, `refactors/<ID>-rk/`: patch.diff, why.md) that keep every observable behaviour; "
               "each property's quick check was run against a patched scratch copy (`tools/refactor_matrix.sh`). Expected and obtained: rc=0, no VIOLATION, no machinery error.\n")
    out.append(open(rp).read().split("\n", 2)[2] if open(rp).read().startswith("#") else open(rp).read())
    out.append("")
xs = sorted(glob.glob(os.path.join(here, "design.d", "X*.md")))
if xs:
    out.append("## II.8 Extras: specifications of behaviour beyond the 20 listed properties\n")
    out.append("Ids `X..` are not claimed in MANIFEST.json (it lists only the given properties). Same technique and harness (`./check XNN --tier quick|thorough`, `tools/run_extras.sh`), evidence under `evidence_extra/`, findings in `findings.d/XNN.json`. See `EXTRAS_GUIDE.md`.\n")
    out.append("| extra | findings known | ids |\n|---|---|---|")
    for f in sorted(glob.glob(os.path.join(here, "findings.d", "X*.json"))):
        fs = json.load(open(f)).get("findings", [])
        known = [x["id"] for x in fs if x.get("status") == "known"]
        out.append(f"| {os.path.basename(f)[:-5]} | {len(known)} | {', '.join(known)} |")
    out.append("")
out.append("# Part II (continued) — per-property as-built sections\n")
for f in sorted(glob.glob(os.path.join(here, "design.d", "C*.md"))):
    out.append(open(f).read().rstrip() + "\n")
if xs:
    out.append("# Part II (continued) — extras\n")
    for f in xs:
        out.append(open(f).read().rstrip() + "\n")
out.append("\n---\n\n# Part I — the design as written before the code (round 0), unchanged\n")
out.append(open(os.path.join(here, "design.d", "00-PLAN.md")).read())
open(os.path.join(here, "DESIGN.md"), "w").write("\n".join(out))
print("DESIGN.md:", sum(len(x) for x in out), "bytes")
