#!/bin/sh
# usage: tools/try_patch.sh <patch-file> <Cxx> [tier] [more Cyy ...]
# Applies a patch (git diff relative to the repo root) to a scratch copy of /repo's working tree and runs
# the named checks against that copy (VERIF_REPO). Never touches /repo. Prints each check's last lines + exit code.
patch=$(realpath "$1"); shift
tier=quick
d=$(mktemp -d /tmp/trypatch.XXXXXX)
trap 'rm -rf "$d"' EXIT
mkdir -p "$d/repo"
(cd /repo && git ls-files -z src docs/schema.json | xargs -0 cp --parents -t "$d/repo") 
# include uncommitted working-tree edits of tracked files (already copied from the working tree by cp)
if ! (cd "$d/repo" && patch -p1 -s < "$patch"); then echo "PATCH DOES NOT APPLY"; exit 3; fi
for id in "$@"; do
  case "$id" in quick|thorough) tier=$id; continue;; esac
  out=$(cd /verif && VERIF_REPO="$d/repo" VERIF_SCRATCH="$d/scratch" VERIF_EVIDENCE_DIR="$d/evidence" VERIF_REPLAY_DIR="$d/replays" ./check "$id" --tier "$tier" 2>&1); rc=$?
  echo "$out" | grep -E "^(VIOLATION|MACHINERY)" | head -6
  echo "$out" | grep -E "^(KNOWN-FINDING|C[0-9]+ (quick|thorough):)" | cut -c1-160 | tail -6
  echo "== $id rc=$rc"
done
