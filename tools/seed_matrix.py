#!/venv/bin/python
"""Run every confirmed seeded change in /verif/seeded/<ID>-<k>/ against the CURRENT /repo through
tools/try_patch.sh (patch-rebased.diff when present, else patch.diff) and record which quick checks
catch it in meta.json ("checks_run_current"). usage: tools/seed_matrix.py [ID-k ...]"""
import glob, json, os, subprocess, sys

here = os.path.dirname(os.path.dirname(os.path.abspath(__file__)))
dirs = [os.path.join(here, "seeded", a) for a in sys.argv[1:]] or sorted(glob.glob(os.path.join(here, "seeded", "C*")))
also = json.load(open(os.path.join(here, "seeded", "also.json"))) if os.path.exists(os.path.join(here, "seeded", "also.json")) else {}
for d in dirs:
    mp = os.path.join(d, "meta.json")
    if not os.path.exists(mp):
        continue
    meta = json.load(open(mp))
    pid = meta["property"]
    patch = os.path.join(d, "patch-rebased.diff")
    if not os.path.exists(patch):
        patch = os.path.join(d, "patch.diff")
    results = {}
    for chk in [pid, *also.get(os.path.basename(d), [])]:
        r = subprocess.run([os.path.join(here, "tools", "try_patch.sh"), patch, chk], capture_output=True, text=True)
        out = r.stdout
        if "PATCH DOES NOT APPLY" in out:
            res = {"rc": -1, "note": "patch does not apply to the current tree (needs patch-rebased.diff)"}
        else:
            rc = int(out.strip().splitlines()[-1].split("rc=")[1]) if "rc=" in out else -2
            res = {"rc": rc, "patch": os.path.basename(patch), "lines": [l for l in out.splitlines() if l.startswith(("VIOLATION", "MACHINERY"))][:2]}
        results[chk] = res
        print(os.path.basename(d), chk, res["rc"], res.get("patch", res.get("note")), flush=True)
    meta["checks_run_current"] = results
    if all(v["rc"] in (0, 1) for v in results.values()):
        meta["checks_run"] = results
    json.dump(meta, open(mp, "w"), indent=1)
