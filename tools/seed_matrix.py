#!/venv/bin/python
"""Run every confirmed seeded change in /verif/seeded/<ID>-<k>/ against the CURRENT /repo through
tools/try_patch.sh (patch-rebased.diff when present, else patch.diff) and record which quick checks
catch it in meta.json ("checks_run_current"). usage: tools/seed_matrix.py [ID-k ...]"""
import glob, json, os, subprocess, sys

here = os.path.dirname(os.path.dirname(os.path.abspath(__file__)))
dirs = [os.path.join(here, "seeded", a) for a in sys.argv[1:]] or sorted(glob.glob(os.path.join(here, "seeded", "C*")))
for d in dirs:
    mp = os.path.join(d, "meta.json")
    if not os.path.exists(mp):
        continue
    meta = json.load(open(mp))
    pid = meta["property"]
    patch = os.path.join(d, "patch-rebased.diff")
    if not os.path.exists(patch):
        patch = os.path.join(d, "patch.diff")
    r = subprocess.run([os.path.join(here, "tools", "try_patch.sh"), patch, pid], capture_output=True, text=True)
    out = r.stdout
    if "PATCH DOES NOT APPLY" in out:
        res = {"rc": -1, "note": "patch does not apply to the current tree (needs patch-rebased.diff)"}
    else:
        rc = int(out.strip().splitlines()[-1].split("rc=")[1]) if "rc=" in out else -2
        res = {"rc": rc, "patch": os.path.basename(patch), "lines": [l for l in out.splitlines() if l.startswith(("VIOLATION", "MACHINERY"))][:2]}
    meta["checks_run_current"] = {pid: res}
    meta["checks_run"] = {pid: res} if res["rc"] in (0, 1) else meta.get("checks_run", {})
    json.dump(meta, open(mp, "w"), indent=1)
    print(os.path.basename(d), res["rc"], res.get("patch", res.get("note")), flush=True)
