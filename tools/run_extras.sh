#!/bin/sh
# usage: tools/run_extras.sh [quick|thorough]  - run every extra spec check (ids X..; not claimed in MANIFEST.json)
cd "$(dirname "$0")/.."
tier=${1:-quick}; rc=0
for f in gverif/props/x[0-9][0-9].py; do
  [ -f "$f" ] || continue
  id=$(basename "$f" .py | tr a-z A-Z)
  out=$(./check "$id" --tier "$tier" 2>&1); r=$?
  echo "$out" | grep -E '^(VIOLATION|KNOWN-FINDING|MACHINERY)' ; echo "$id rc=$r $(echo "$out" | tail -1)"
  [ $r -ne 0 ] && rc=$r
done
exit $rc
