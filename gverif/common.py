"""Shared plumbing: repo location, import guard, scratch dirs, seeds."""
from __future__ import annotations

import contextlib
import os
import shutil
import sys
import tempfile

VERIF = os.path.dirname(os.path.dirname(os.path.abspath(__file__)))
REPO = os.environ.get("VERIF_REPO", "/repo")
SRC = os.path.join(REPO, "src")
SEED = int(os.environ.get("VERIF_SEED", "0") or 0)
PY = "/venv/bin/python"


def die(msg: str, code: int = 2):
    print(f"MACHINERY-ERROR: {msg}", flush=True)
    sys.exit(code)


def ensure_repo():
    """Make `griffe`/`_griffe` import from the working tree of REPO (never site-packages)."""
    if sys.path[0] != SRC:
        sys.path.insert(0, SRC)
    for name in [m for m in sys.modules if m == "griffe" or m.startswith(("griffe.", "_griffe"))]:
        f = getattr(sys.modules[name], "__file__", None) or ""
        if f and not f.startswith(SRC):
            del sys.modules[name]
    import _griffe  # noqa: PLC0415
    import griffe  # noqa: PLC0415

    for mod in (griffe, _griffe):
        if not os.path.realpath(mod.__file__).startswith(os.path.realpath(SRC)):
            die(f"{mod.__name__} imported from {mod.__file__}, expected under {SRC}")
    import logging  # noqa: PLC0415

    logging.getLogger("griffe").setLevel(logging.CRITICAL)
    return griffe


def child_env(**extra) -> dict:
    env = dict(os.environ)
    env["PYTHONPATH"] = SRC + os.pathsep + VERIF
    env["PYTHONHASHSEED"] = "0"
    env["GRIFFE_VERIF"] = "1"
    env.update({k: str(v) for k, v in extra.items()})
    return env


def scratch_root() -> str:
    base = os.environ.get("VERIF_SCRATCH")
    if base:
        os.makedirs(base, exist_ok=True)
        return base
    if os.path.isdir("/dev/shm") and os.access("/dev/shm", os.W_OK):
        return "/dev/shm"
    return tempfile.gettempdir()


@contextlib.contextmanager
def scratch(prefix: str = "gverif-"):
    d = tempfile.mkdtemp(prefix=prefix, dir=scratch_root())
    try:
        yield d
    finally:
        shutil.rmtree(d, ignore_errors=True)
