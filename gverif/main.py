"""Entry point: python -m gverif.main Cxx [--tier quick|thorough] [--replay FILE]"""
from __future__ import annotations

import argparse
import importlib
import os
import sys
import traceback


def main(argv=None):
    ap = argparse.ArgumentParser()
    ap.add_argument("prop")
    ap.add_argument("--tier", default=os.environ.get("VERIF_TIER", "quick"), choices=["quick", "thorough"])
    ap.add_argument("--replay", default=None)
    args = ap.parse_args(argv)
    prop = args.prop.upper()
    try:
        mod = importlib.import_module(f"gverif.props.{prop.lower()}")
    except ModuleNotFoundError as exc:
        print(f"MACHINERY-ERROR: no driver for {prop}: {exc}")
        sys.exit(2)
    try:
        mod.main(args.tier, args.replay)
    except SystemExit:
        raise
    except BaseException:  # noqa: BLE001
        traceback.print_exc()
        print(f"MACHINERY-ERROR: driver for {prop} crashed")
        sys.exit(2)
    print(f"MACHINERY-ERROR: driver for {prop} returned without a verdict")
    sys.exit(2)


if __name__ == "__main__":
    main()
