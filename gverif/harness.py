"""Verdict, known-findings and evidence discipline shared by all property drivers.

A driver creates `Run("C07", tier)`, feeds it TLC results (`add_tlc`), counts replayed cases
(`replayed`), reports violations (`violation(sig, what, case)`), and calls `finish()`.

* a violation is first matched against /verif/known_findings.json (status "known" only; entries
  with status "fixed" never suppress anything).  `sig` is a flat dict over the abstract vocabulary
  of the spec; an entry matches when every key of its `match` equals (or, for lists, contains) the
  corresponding value of `sig`.
* unmatched violation -> replay file + `VIOLATION property=<id> replay=<path>` + exit 1
* matched            -> `KNOWN-FINDING: property=<id> <what>` (once per entry) + exit 0
* machinery failure  -> exit 2 (gverif.common.die)
"""
from __future__ import annotations

import hashlib
import json
import os
import sys
import time

from gverif.common import SEED, VERIF, die

FINDINGS_FILE = os.path.join(VERIF, "known_findings.json")


def load_findings(prop: str) -> list:
    """Entries for `prop` from findings.d/<prop>.json (known_findings.json is the merged, committed index)."""
    path = os.path.join(VERIF, "findings.d", prop + ".json")
    try:
        with open(path) as fh:
            data = json.load(fh)
    except FileNotFoundError:
        return []
    return [f for f in data.get("findings", []) if f.get("property") == prop]


def _match_one(pat, val) -> bool:
    if isinstance(pat, dict) and "any_of" in pat:
        return any(_match_one(p, val) for p in pat["any_of"])
    if isinstance(pat, dict) and "contains" in pat:
        return isinstance(val, (list, str)) and pat["contains"] in val
    if isinstance(pat, dict) and "prefix" in pat:
        return isinstance(val, str) and val.startswith(pat["prefix"])
    return pat == val


def matches(entry: dict, sig: dict) -> bool:
    m = entry.get("match") or {}
    return bool(m) and all(k in sig and _match_one(v, sig[k]) for k, v in m.items())


class Run:
    def __init__(self, prop: str, tier: str, level: str = "model_checking"):
        self.prop = prop
        self.tier = tier
        self.level = level
        self.t0 = time.time()
        self.findings = load_findings(prop)
        self.known_hits: dict = {}
        self.violations: list = []
        self.tlc: list = []
        self.states = 0
        self.transitions = 0
        self.evaluations = 0
        self.nontrivial: set = set()
        self.traces = 0
        self.samples: list = []
        self.rule = ""
        self.exhaustive = False
        self.extra: dict = {}
        self.notes: list = []

    # ---- accounting -------------------------------------------------------------------------
    def add_tlc(self, res):
        self.tlc.append(res.summary())
        self.states += res.distinct
        self.transitions += res.generated

    def replayed(self, n: int = 1):
        self.traces += n

    def evaluated(self, n: int = 1):
        self.evaluations += n

    def nontrivial_case(self, key):
        self.nontrivial.add(key if isinstance(key, (str, int, tuple)) else json.dumps(key, sort_keys=True, default=str))

    def sample(self, case, limit: int = 5):
        if len(self.samples) < limit:
            self.samples.append(case)

    def note(self, text: str):
        self.notes.append(text)
        print("note:", text, flush=True)

    # ---- verdicts ---------------------------------------------------------------------------
    def violation(self, sig: dict, what: str, case=None):
        """Report that the *real code* broke the property on `case` (abstract signature `sig`)."""
        for entry in self.findings:
            if entry.get("status") == "known" and matches(entry, sig):
                hit = self.known_hits.setdefault(entry["id"], {"entry": entry, "count": 0, "example": what})
                hit["count"] += 1
                return False
        if len(self.violations) < 50:
            self.violations.append({"sig": sig, "what": what, "case": case})
        else:
            self.violations.append(None)
        return True

    def finish(self):
        wall = time.time() - self.t0
        real = [v for v in self.violations if v]
        for fid, hit in sorted(self.known_hits.items()):
            print(f"KNOWN-FINDING: property={self.prop} {fid}: {hit['entry']['what']} [{hit['count']} case(s) this run]", flush=True)
        expected = [e for e in self.findings if e.get("status") == "known" and e.get("expect_every_run", {}).get(self.tier, e.get("expect_every_run", {}).get("all"))]
        for e in expected:
            if e["id"] not in self.known_hits:
                self.note(f"known finding {e['id']} was not re-observed in this run (fixed? generator changed?)")
        replay_paths = []
        seen = set()
        for v in real:
            blob = json.dumps({"property": self.prop, **v}, sort_keys=True, default=str, indent=1)
            sha = hashlib.sha1(json.dumps(v["sig"], sort_keys=True, default=str).encode()).hexdigest()[:12]
            if sha in seen:
                continue
            seen.add(sha)
            d = os.path.join(os.environ.get("VERIF_REPLAY_DIR") or os.path.join(VERIF, "replays"), self.prop)
            os.makedirs(d, exist_ok=True)
            path = os.path.join(d, sha + ".json")
            with open(path, "w") as fh:
                fh.write(blob)
            replay_paths.append((path, v))
        cov = {
            "states": self.states,
            "transitions": self.transitions,
            "traces_validated_against_impl": self.traces,
            "samples": self.samples or ["<no case recorded>"],
            "evaluations": self.evaluations or self.traces,
            "distinct_nontrivial": len(self.nontrivial),
            "rule": self.rule,
            "exhaustive": self.exhaustive,
            "tlc_runs": self.tlc,
            "violations": len(self.violations),
            "known_findings_observed": {k: h["count"] for k, h in self.known_hits.items()},
            "notes": self.notes[:40],
        }
        cov.update(self.extra)
        ev = {"property_id": self.prop, "tier": self.tier, "seed": SEED, "level": self.level, "coverage": cov, "wall_s": round(wall, 2)}
        # extras (ids X..: behaviour beyond the listed properties) keep their evidence apart from the claimed properties
        evdir = os.environ.get("VERIF_EVIDENCE_DIR") or os.path.join(VERIF, "evidence_extra" if self.prop.startswith("X") else "evidence")
        os.makedirs(evdir, exist_ok=True)
        with open(os.path.join(evdir, self.prop + ".json"), "w") as fh:
            json.dump(ev, fh, indent=1, default=str)
        if self.states < 1 or self.transitions < 1:
            die(f"{self.prop}: no TLC states recorded - vacuous run")
        for path, v in replay_paths[:10]:
            print(f"VIOLATION property={self.prop} replay={path}", flush=True)
            print(f"  what: {v['what']}", flush=True)
            print(f"  sig:  {json.dumps(v['sig'], default=str)}", flush=True)
        print(f"{self.prop} {self.tier}: states={self.states} transitions={self.transitions} replayed={self.traces} evaluations={cov['evaluations']} nontrivial={len(self.nontrivial)} violations={len(self.violations)} known={sum(h['count'] for h in self.known_hits.values())} wall={wall:.1f}s", flush=True)
        sys.exit(1 if real else 0)
