"""C08/C09 helper: concretise a Serde.tla descriptor as a real package, run the real Griffe on it and project
what happened onto the vocabulary of the spec.

`evaluate(case, idx, base)` is self-contained and picklable-in/picklable-out so that it can run in worker
processes (forked from the harness process, which already did `ensure_repo()`).
"""
from __future__ import annotations

import dataclasses
import io
import json
import os
import shutil
import traceback

# ---------------------------------------------------------------------------------------------------
# source templates: one per Wrap(step, x) of Serde.tla; @X@ is the hole.  The hole is always parenthesised,
# constants are ints (a str constant in an annotation would be parsed as a forward reference).
STEP_TMPL = {
    "Attribute.first": "(@X@).zz",
    "BinOp.left": "(@X@) + 1",
    "BinOp.right": "1 + (@X@)",
    "BoolOp.values": "(@X@) or 1",
    "Call.function": "(@X@)()",
    "Call.function+kw": "(@X@)(kw=1)",
    "Call.arguments": "ff((@X@))",
    "Call.arguments/Keyword.value": "ff(kw=(@X@))",
    "Call.arguments/VarPositional.value": "ff(*(@X@))",
    "Call.arguments/VarKeyword.value": "ff(**(@X@))",
    "Compare.left": "(@X@) < 1",
    "Compare.comparators": "1 < (@X@)",
    "Dict.keys": "{(@X@): 1}",
    "Dict.values": "{1: (@X@)}",
    "Dict.values+unpack": "{**(@X@)}",
    "DictComp.key": "{(@X@): 1 for i in 1}",
    "DictComp.value": "{1: (@X@) for i in 1}",
    "DictComp.generators/Comprehension.iterable": "{1: 1 for i in (@X@)}",
    "GeneratorExp.element": "((@X@) for i in 1)",
    "GeneratorExp.generators/Comprehension.conditions": "(1 for i in 1 if (@X@))",
    "IfExp.body": "(@X@) if 1 else 1",
    "IfExp.test": "1 if (@X@) else 1",
    "IfExp.orelse": "1 if 1 else (@X@)",
    "JoinedStr.values/Formatted.value": "f'{(@X@)}'",
    "JoinedStr.values/Formatted.value+conversion": "f'{(@X@)!r}'",
    "JoinedStr.values/Formatted.format_spec": "f'{1:{(@X@)}}'",
    "Lambda.body": "lambda: (@X@)",
    "Lambda.parameters/Parameter.default": "lambda p=(@X@): 1",
    "Lambda.parameters/Parameter.default+posonly": "lambda p=(@X@), /: 1",
    "List.elements": "[(@X@)]",
    "List.elements/VarPositional.value": "[*(@X@)]",
    "ListComp.element": "[(@X@) for i in 1]",
    "ListComp.generators/Comprehension.iterable": "[1 for i in (@X@)]",
    "NamedExpr.value": "(nm := (@X@))",
    "Set.elements": "{(@X@)}",
    "SetComp.element": "{(@X@) for i in 1}",
    "Subscript.left": "(@X@)[1]",
    "Subscript.slice": "1[(@X@)]",
    "Subscript.slice/Slice.lower": "1[(@X@):]",
    "Subscript.slice/Slice.upper": "1[:(@X@)]",
    "Subscript.slice/Slice.step": "1[::(@X@)]",
    "Subscript.slice/Tuple.elements": "1[(@X@), 1]",
    "Tuple.elements": "((@X@), 1)",
    "UnaryOp.value": "-(@X@)",
    "Yield.value": "(yield (@X@))",
    "YieldFrom.value": "(yield from (@X@))",
}
LEAF_SRC = {"name": "Aa", "attr2": "Aa.Bb", "attr3": "Aa.Bb.Cc", "strattr": "(1).real", "str": "1"}
ALT = {
    "str": ([], "str"),
    "name": ([], "name"),
    "attr": ([], "attr2"),
    "sub": (["Subscript.slice"], "name"),
    "deep": (["Subscript.slice", "Tuple.elements"], "name"),
    "call": (["Call.arguments"], "name"),
}
# every identifier the templates use is defined in the module, so that a lost or changed parent is observable
# through canonical_path
PRELUDE = (
    "class Aa:\n    class Bb:\n        class Cc: ...\n"
    "def ff(*a, **k): ...\n"
    "nm = 0\nzz = 0\nreal = 0\ni = 0\nkw = 0\n"
)
GOOGLE = {
    "text": "",
    "parameters": "Parameters:\n    a: Desc.\n",
    "other parameters": "Other Parameters:\n    b: Desc.\n",
    "raises": "Raises:\n    ValueError: Desc.\n",
    "warns": "Warns:\n    UserWarning: Desc.\n",
    "returns": "Returns:\n    Desc.\n",
    "yields": "Yields:\n    Desc.\n",
    "receives": "Receives:\n    Desc.\n",
    "examples": "Examples:\n    >>> 1\n    1\n",
    "attributes": "Attributes:\n    a: Desc.\n",
    "functions": "Functions:\n    f: Desc.\n",
    "classes": "Classes:\n    C: Desc.\n",
    "modules": "Modules:\n    m: Desc.\n",
    "deprecated": "Deprecated\n----------\n1.0\n    Desc.\n",  # numpy style: the Google parser has no such section
    "admonition": "Note:\n    Desc.\n",
}
# witnesses in CPython's built-in modules: (module, member) per abstract case
BUILTIN = {
    ("root", "plain"): ("gc", None),
    ("root", "absent"): ("_codecs", None),
    ("class", "none"): ("itertools", "count"),
    ("class", "str"): ("_io", "BytesIO"),
    ("function", "nopar"): ("gc", "enable"),
    ("function", "none", "str"): ("gc", "collect"),
    ("function", "none", "none"): ("sys", "addaudithook"),
    ("attribute",): ("errno", "EPERM"),
}
CASE_KEYS = ["nsparts", "dtext", "guard", "dfield", "part", "origin", "kind", "host", "mname", "doc", "cwdrel", "bases", "deco", "pann", "pdef", "pdoc", "ret", "val", "ann",
             "where", "alno", "resolved", "slot", "spine", "leaf", "section"]


def patched(case: dict) -> bool:
    """Whether the harness edits the loaded tree through the API (a parameter docstring no agent produces)."""
    return bool(case.get("pdoc")) and case.get("host") != "dataclass"


def case_id(case: dict) -> dict:
    return {k: case[k] for k in CASE_KEYS if k in case}


def expr_src(spine, leaf) -> str:
    s = LEAF_SRC[leaf]
    for step in reversed(list(spine)):
        s = STEP_TMPL[step].replace("@X@", s)
    return s


def alt_src(alt: str):
    if alt in ("none", "na", "nopar"):
        return None
    spine, leaf = ALT[alt]
    return expr_src(spine, leaf)


def doc_text(case: dict) -> str | None:
    if case["doc"] == "absent":
        return None
    if case["doc"] == "google":
        return "Summary.\n\n" + GOOGLE[case["section"]]
    if case.get("dtext", "na") not in ("na", "single"):
        return ("shape", case["dtext"])       # rendered by _docline relative to the indentation of its owner
    return "Doc."


# source text shapes of Serde!DocTexts: the lines between the triple quotes, {i} = indentation of the owner's body
DOC_SHAPES = {
    "flush": ["Doc.", "{i}More.", "{i}"],
    "deepfirst": ["", "{i}    Indented", "{i}Less", "{i}"],        # blank first line, first content line indented deeper
    "trailing": ["Doc.", "", "{i}More.", "", "", "{i}"],
    "tabs": ["Doc.", "{i}\tTabbed.", "{i}"],
}
LAST_RAW: dict = {"text": None}


def _docline(text, ind: str) -> list:
    if isinstance(text, tuple):
        body = [ln.replace("{i}", ind) for ln in DOC_SHAPES[text[1]]]
        LAST_RAW["text"] = "\n".join(body)          # the value of the string constant, as CPython sees it
        return [f'{ind}"""{body[0]}'] + body[1:-1] + [body[-1] + '"""']
    if text is None:
        return []
    body = text.rstrip("\n").split("\n")
    if len(body) == 1:
        return [f'{ind}"""{body[0]}"""']
    return [f'{ind}"""{body[0]}'] + [(ind + ln) if ln else "" for ln in body[1:]] + [f'{ind}"""']


def focus_lines(case: dict, ind: str, pkg: str) -> list:
    """Source lines defining the focus object (static and inspected origins share them where possible)."""
    kind, name, part = case["kind"], case["mname"], case["part"]
    doc = doc_text(case)
    inspected = case["origin"] in ("inspect_src", "inspect_nosrc")
    slot = case["slot"]
    slot_src = expr_src(case["spine"], case["leaf"]) if part == "expr" else None
    if kind == "class":
        bases = slot_src if slot == "class.bases" else alt_src(case["bases"]) if part != "expr" else None
        if inspected and case["bases"] == "str":
            bases = "Aa"
        deco = slot_src if slot == "class.decorator" else alt_src(case["deco"]) if part != "expr" else None
        lines = ([f"{ind}@{deco}"] if deco else []) + [f"{ind}class {name}" + (f"({bases})" if bases else "") + ":"]
        body = _docline(doc, ind + "    ")
        if case["where"] == "shadowed":
            # members named like the names the header uses: they must not capture the header's names
            body += [f"{ind}    Aa = 0", f"{ind}    ff = 0"]
        return lines + (body or [f"{ind}    pass"])
    if kind == "function" and case["host"] == "dataclass":
        # the focus is the __init__ synthesised from this field
        fld = {"plain": "0", "kw_true": "field(default=0, kw_only=True)", "kw_expr": "field(default=0, kw_only=MISSING)"}[case["dfield"]]
        return [f"{ind}f: Aa = {fld}"] + (_docline("F doc.", ind) if case["pdoc"] else [])
    if kind == "function":
        if part == "expr":
            deco = slot_src if slot == "function.decorator" else None
            ann = slot_src if slot == "function.param.annotation" else None
            dflt = slot_src if slot == "function.param.default" else None
            ret = slot_src if slot == "function.returns" else None
            has_par = ann is not None or dflt is not None
        else:
            deco = alt_src(case["deco"])
            has_par = case["pann"] != "nopar"
            ann = alt_src(case["pann"])
            dflt = alt_src(case["pdef"]) if has_par else None
            ret = alt_src(case["ret"])
        par = ""
        if has_par:
            par = "p" + (f": {ann}" if ann else "") + ((" = " if ann else "=") + dflt if dflt else "")
        lines = ([f"{ind}@{deco}"] if deco else []) + [f"{ind}def {name}({par})" + (f" -> {ret}" if ret else "") + ":"]
        return lines + (_docline(doc, ind + "    ") or [f"{ind}    pass"])
    if kind == "attribute":
        if part == "expr":
            val = slot_src if slot == "attribute.value" else (None if slot == "attribute.annotation" else "1")
            ann = slot_src if slot == "attribute.annotation" else None
        else:
            val, ann = alt_src(case["val"]), alt_src(case["ann"])
        if inspected and doc is None:
            val = "_V()"  # an instance whose type has no __doc__
        target = f"self.{name}" if case["where"] == "init" else name
        stmt = target + (f": {ann}" if ann else "") + (f" = {val}" if val else "")
        if case["where"] == "init":
            return [f"{ind}def __init__(self, Aa):", f"{ind}    {stmt}"] + _docline(doc, ind + "    ")
        return [f"{ind}{stmt}"] + _docline(doc, ind)
    if kind == "alias":
        if inspected:
            return [f"{ind}from os.path import join as {name}"]
        how = case["alno"]
        if how == "span":      # a multi-line import statement: the alias spans several lines
            return [f"{ind}from {pkg}._t import (", f"{ind}    thing as {name},", f"{ind})"]
        if how == "wild":      # expansion of a wildcard import
            return [f"{ind}from {pkg}._t import *"]
        if how == "over":      # ... that overwrites a member defined above it
            return [f"{ind}{name} = 0", f"{ind}from {pkg}._t import *"]
        return [f"{ind}from {pkg}._t import thing as {name}"]
    raise ValueError(kind)


def layout(case: dict, idx: int, lean: bool = False) -> dict:
    """files, load options and the member path of the focus.  `lean` (C09): statically analysed packages do not
    need the definitions of the names their expressions use."""
    origin, kind = case["origin"], case["kind"]
    pkg = f"p{idx}"
    opts = {
        "force_inspection": origin in ("inspect_src", "inspect_nosrc"),
        "store_source": origin != "inspect_nosrc",
        "docstring_parser": None if case["doc"] != "google" else "numpy" if case["section"] == "deprecated" else "google",
    }
    if origin == "builtin":
        if kind == "root":
            mod, member = BUILTIN[("root", case["doc"])]
        elif kind == "class":
            mod, member = BUILTIN[("class", case["bases"])]
        elif kind == "function":
            mod, member = BUILTIN[("function", "nopar")] if case["pann"] == "nopar" else BUILTIN[("function", case["pann"], case["pdef"])]
        else:
            mod, member = BUILTIN[("attribute",)]
        return {"files": {}, "pkg": mod, "opts": opts, "real_names": [member] if member else [], "model_names": [case["mname"]] if member else [], "prune": True}
    files: dict = {}
    prelude = PRELUDE + ("class _V: pass\n" if origin.startswith("inspect") else "")
    if lean and origin in ("static", "namespace"):
        prelude = ""
    root_doc = _docline(doc_text(case), "") if kind == "root" else []
    if origin == "namespace":
        # <pkg>/ has no __init__.py; sub.py is a regular module
        if kind == "module":
            files[f"{pkg}/{case['mname']}.py"] = "\n".join(_docline(doc_text(case), "")) + "\n"
            names = [case["mname"]]
        elif kind == "root":
            files[f"{pkg}/sub.py"] = "\n"
            names = []
        else:
            files[f"{pkg}/sub.py"] = prelude + "\n".join(focus_lines(case, "", pkg)) + "\n"
            names = ["sub", case["mname"]]
        search = [""]
        if case.get("nsparts") == "two":
            # two portions of the namespace package on two search paths, given in NON-lexicographic order
            files = {f"site_b/{rel}": text for rel, text in files.items()}
            files[f"site_a/{pkg}/other.py"] = "\n"
            search = ["site_b", "site_a"]
        return {"files": files, "pkg": pkg, "opts": opts, "real_names": names, "model_names": names, "prune": False, "search": search}
    body = list(root_doc)
    body.append(prelude)
    names: list = []
    if kind == "module":
        files[f"{pkg}/{case['mname']}.py"] = "\n".join(_docline(doc_text(case), "")) + "\n"
        names = [case["mname"]]
    elif kind != "root" and case.get("guard") == "stub":
        # the focus exists only in the sibling stub file: the loader merges it into the module (runtime=False)
        files[f"{pkg}/__init__.pyi"] = "\n".join(focus_lines(case, "", pkg)) + "\n"
        names = [case["mname"]]
    elif kind != "root":
        guarded = case.get("guard") == "typecheck"
        if guarded:
            body.append("from typing import TYPE_CHECKING")
        if case["host"] == "dataclass":
            body += ["from dataclasses import MISSING, dataclass, field", "@dataclass", "class H:"]
            body += focus_lines(case, "    ", pkg)
            names = ["H", "__init__"]
        elif case["host"] == "init":
            # the focus is defined inside H.__init__: the visitor stores it as a member of that function
            body += ["class H:", "    def __init__(self):"] + focus_lines(case, "        ", pkg)
            names = ["H", "__init__", case["mname"]]
        elif case["host"] == "class":
            body.append("class H:")
            body += ["    if TYPE_CHECKING:"] * guarded + focus_lines(case, "        " if guarded else "    ", pkg)
            names = ["H", case["mname"]]
        else:
            body += ["if TYPE_CHECKING:"] * guarded + focus_lines(case, "    " if guarded else "", pkg)
            names = [case["mname"]]
    files[f"{pkg}/__init__.py"] = "\n".join(body) + "\n"
    if case.get("guard") == "stubsig":
        # the stub names a parameter the runtime signature lacks, and annotates the shared one and the return value
        files[f"{pkg}/__init__.pyi"] = f"def {case['mname']}(p: 1, q: 1 = 0) -> 1: ...\n"
    if kind == "alias" and origin == "static":
        files[f"{pkg}/_t.py"] = f"thing = 1\n{case['mname']} = 1\n" if case["alno"] in ("wild", "over") else "thing = 1\n"
    return {"files": files, "pkg": pkg, "opts": opts, "real_names": names, "model_names": names, "prune": origin != "static"}


# ---------------------------------------------------------------------------------------------------
# projections
def alpha(v, key=None):
    """Abstraction of a concrete JSON value onto Serde.tla's abstract JSON (same dict form as TLC's ToJson)."""
    if v is None:
        return {"t": "null"}
    if isinstance(v, bool):
        return {"t": "boolean"}
    if isinstance(v, int):
        return {"t": "integer"}
    if isinstance(v, float):
        return {"t": "number"}
    if isinstance(v, str):
        return {"t": "string", "v": v} if key in ("kind", "cls") else {"t": "string"}
    if isinstance(v, dict) and v.get("kind") == "alias" and isinstance(v.get("lineno"), int) and isinstance(v.get("endlineno"), int) \
            and v["endlineno"] > v["lineno"]:
        # Serde!JIntAfter: the end line of a multi-line import
        return {"t": "object", "f": {k: ({"t": "integer", "v": "after"} if k == "endlineno" else alpha(x, k)) for k, x in v.items()}}
    if key == "filepath" and isinstance(v, list) and len(v) == 2 and all(isinstance(x, str) for x in v):
        # Serde!DirsJSON: the directories of a two-portion namespace package, by their rank in sorted order
        ranks = sorted(v)
        return {"t": "array", "items": [{"t": "string", "v": f"dir{ranks.index(x) + 1}"} for x in v]}
    if key == "docstring" and isinstance(v, dict) and isinstance(v.get("value"), str):
        # Serde: the value of a docstring is tracked as "is it a fixpoint of inspect.cleandoc"
        import inspect  # noqa: PLC0415

        tok = "fix" if inspect.cleandoc(v["value"]) == v["value"] else "again"
        return {"t": "object", "f": {k: ({"t": "string", "v": tok} if k == "value" else alpha(x, k)) for k, x in v.items()}}
    if isinstance(v, list):
        if key == "parsed":
            items = []
            for sec in v:
                f = {k: ({"t": _jt(x), "shallow": True} if k == "value" else alpha(x, k)) for k, x in sec.items()}
                items.append({"t": "object", "f": f})
            return {"t": "array", "items": items}
        return {"t": "array", "items": [alpha(x, None) for x in v]}
    return {"t": "object", "f": {k: alpha(x, k) for k, x in v.items()}}


def _jt(v) -> str:
    return alpha(v)["t"]


def norm(j):
    """Normal form shared by model and real abstract JSON: empty function printed by TLC as [] -> {}."""
    if isinstance(j, dict):
        if j.get("t") == "object":
            f = j.get("f")
            if j.get("shallow"):
                return {"t": "object", "shallow": True}
            f = {} if isinstance(f, list) else f
            return {"t": "object", "f": {k: norm(v) for k, v in f.items()}}
        if j.get("t") == "array":
            if j.get("shallow"):
                return {"t": "array", "shallow": True}
            return {"t": "array", "items": [norm(x) for x in j["items"]]}
        return dict(j)
    return j


def prune_json(doc: dict, real_names: list, model_names: list) -> dict:
    """The concrete JSON restricted to the chain root -> ... -> focus (members outside the chain dropped, the
    keys of the chain renamed to the model's names)."""
    out = dict(doc)
    if "members" in out:
        if real_names:
            sub = doc["members"].get(real_names[0])
            out["members"] = {model_names[0]: prune_json(sub, real_names[1:], model_names[1:])} if isinstance(sub, dict) else {}
        else:
            out["members"] = {}
    return out


def _pk(v) -> str:
    import enum

    rep = "enum" if isinstance(v, enum.Enum) else "str"
    val = v.value if isinstance(v, enum.Enum) else v
    return f"@pk:{rep}:" + ("poskw" if val == "positional or keyword" else "posonly" if val == "positional-only" else str(val))


def tree(e, griffe, field=None):
    """Projection of a real expression onto Serde.tla's node records."""
    if e is None:
        return {"c": "@none", "a": {}, "par": "na"}
    if isinstance(e, bool):
        return {"c": "@bool", "a": {}, "par": "na"}
    if field == "kind":
        return {"c": _pk(e), "a": {}, "par": "na"}
    if isinstance(e, str):
        return {"c": "@str", "a": {}, "par": "na"}
    if isinstance(e, (list, tuple)) and field == "operators":
        return {"c": "@strs", "a": {}, "par": "na"}
    if not isinstance(e, griffe.Expr):
        return {"c": f"@other:{type(e).__name__}", "a": {}, "par": "na"}
    a = {}
    for f in sorted(dataclasses.fields(e), key=lambda f: f.name):
        if f.name == "parent":
            continue
        v = getattr(e, f.name)
        if isinstance(v, (list, tuple)) and f.name != "operators":
            a[f.name] = [tree(x, griffe, f.name) for x in v]
        else:
            a[f.name] = tree(v, griffe, f.name)
    par = "na"
    if isinstance(e, griffe.ExprName):
        par = parent_class(e.parent, griffe)
    return {"c": e.classname, "a": a, "par": par}


def parent_class(p, griffe) -> str:
    if p is None:
        return "none"
    if isinstance(p, griffe.ExprName):
        return "prev"
    if isinstance(p, str):
        return "str"
    return "scope"


def norm_tree(t):
    """TLC prints empty `a` as []; sequences stay lists."""
    if isinstance(t, list):
        return [norm_tree(x) for x in t]
    a = t.get("a")
    a = {} if isinstance(a, list) else a
    return {"c": t["c"], "a": {k: norm_tree(v) for k, v in a.items()}, "par": t.get("par", "na")}


def walk_names(e, griffe, out):
    """ExprNames in pre-order over the sorted dataclass fields (the order of Serde!NamePars)."""
    if isinstance(e, griffe.ExprName):
        out.append(e)
        return out
    if isinstance(e, griffe.Expr):
        for f in sorted(dataclasses.fields(e), key=lambda f: f.name):
            if f.name == "parent":
                continue
            v = getattr(e, f.name)
            if isinstance(v, (list, tuple)):
                for x in v:
                    walk_names(x, griffe, out)
            else:
                walk_names(v, griffe, out)
    return out


def slots_of(obj, griffe) -> list:
    """(slot, expression) in the order of Serde!SlotsOf."""
    out = []
    kind = obj.kind.value
    if kind == "class":
        out += [("bases", b) for b in obj.bases]
    if kind in ("class", "function"):
        out += [("decorator", d.value) for d in obj.decorators]
    if kind == "function":
        for p in obj.parameters:
            out += [("param.annotation", p.annotation), ("param.default", p.default)]
        out.append(("returns", obj.returns))
    if kind == "attribute":
        out += [("value", obj.value), ("annotation", obj.annotation)]
    return out


def names_of(obj, griffe) -> list:
    res = []
    if obj.is_alias or obj.is_module:
        return res
    container = obj.parent
    for slot, e in slots_of(obj, griffe):
        ns = walk_names(e, griffe, [])
        pars, paths, scopes = [], [], set()
        for n in ns:
            pc = parent_class(n.parent, griffe)
            pars.append(pc)
            if pc == "scope":
                p = n.parent
                scopes.add("container" if p is container else "self" if p is obj else "init" if getattr(p, "is_function", False) else "other")
            try:
                paths.append(n.canonical_path)
            except Exception as exc:  # noqa: BLE001
                paths.append(f"!{type(exc).__name__}")
        scope = "na" if not scopes else (scopes.pop() if len(scopes) == 1 else "mixed")
        res.append({"slot": slot, "pars": pars, "scope": scope, "paths": paths, "str": None if e is None else str(e)})
    return res


def _doc_tuple(d):
    return None if d is None else (d.value, d.lineno, d.endlineno)


def snapshot(obj, griffe, pre="") -> dict:
    """The serialised state of a tree, object by object (what `equivalent tree` compares)."""
    out = {}
    path = pre + obj.name
    if obj.is_alias:
        out[path] = {"kind": "alias", "target_path": obj.target_path, "lineno": obj.alias_lineno, "endlineno": obj.alias_endlineno}
        return out
    rec = {"kind": obj.kind.value, "lineno": obj.lineno, "endlineno": obj.endlineno, "docstring": _doc_tuple(obj.docstring),
           "labels": sorted(obj.labels)}
    if obj.is_module:
        fp = obj._filepath
        rec["filepath"] = [str(x) for x in fp] if isinstance(fp, list) else (None if fp is None else str(fp))
    if obj.is_class:
        rec["bases"] = [str(b) for b in obj.bases]
    if obj.is_class or obj.is_function:
        rec["decorators"] = [(str(d.value), d.lineno, d.endlineno) for d in obj.decorators]
    if obj.is_function:
        rec["parameters"] = [(p.name, getattr(p.kind, "value", p.kind), None if p.annotation is None else str(p.annotation),
                              None if p.default is None else str(p.default), _doc_tuple(p.docstring)) for p in obj.parameters]
        rec["returns"] = None if obj.returns is None else str(obj.returns)
    if obj.is_attribute:
        rec["value"] = None if obj.value is None else str(obj.value)
        rec["annotation"] = None if obj.annotation is None else str(obj.annotation)
    out[path] = rec
    for name, m in obj.members.items():
        out.update(snapshot(m, griffe, path + "."))
    return out


EXPR_FIELDS = {"bases", "decorators", "parameters", "returns", "value", "annotation"}


def diff_snapshots(a: dict, b: dict) -> list:
    """[(object kind, field, 'expr'|'data')] of every difference."""
    out = []
    for path in sorted(set(a) | set(b)):
        ra, rb = a.get(path), b.get(path)
        if ra is None or rb is None:
            parent = (a if rb is None else b).get(path.rsplit(".", 1)[0], {}).get("kind", "?")
            out.append(((ra or rb)["kind"], "<object>", "data", path, parent))
            continue
        for k in sorted(set(ra) | set(rb)):
            if ra.get(k) != rb.get(k):
                out.append((ra["kind"], k, "expr" if k in EXPR_FIELDS else "data", path, ""))
    return out


def exc_sig(exc: BaseException) -> dict:
    key = ""
    if isinstance(exc, KeyError) and exc.args:
        key = str(exc.args[0])
    elif isinstance(exc, TypeError):
        msg = str(exc)
        key = "filepath" if "os.PathLike" in msg or "PathLike" in msg else "members:cls" if "attribute name must be string" in msg else \
            "docstring" if "unexpected keyword argument" in msg else msg[:60]
    else:
        key = str(exc)[:80]
    return {"exc": type(exc).__name__, "key": key, "msg": str(exc)[:200]}


# ---------------------------------------------------------------------------------------------------
def _load(griffe, lay: dict, base: str, store_source=None):
    opts = lay["opts"]
    loader = griffe.GriffeLoader(
        search_paths=[os.path.join(base, sp) if sp else base for sp in lay.get("search", [""])],
        force_inspection=opts["force_inspection"],
        store_source=opts["store_source"] if store_source is None else store_source,
        docstring_parser=griffe.Parser(opts["docstring_parser"]) if opts["docstring_parser"] else None,
    )
    root = loader.load(lay["pkg"])
    return loader, root


def _chain(root, names):
    objs = [root]
    for n in names:
        objs.append(objs[-1].members[n])
    return objs


def _prune(objs):
    """Restrict a loaded tree to the chain (inspected trees carry dunder attributes etc. outside the descriptor)."""
    for i, o in enumerate(objs):
        if o.is_alias:
            continue
        keep = objs[i + 1].name if i + 1 < len(objs) else None
        for k in list(o.members):
            if k != keep:
                del o.members[k]


def evaluate(case: dict, idx: int, base: str, schema: dict | None = None, want_c08: bool = True, want_c09: bool = False,
             want_dump: bool = True) -> dict:
    """Run the real Griffe on the concretisation of `case`; returns the projected observations."""
    import griffe  # the working tree (ensure_repo() was called before the fork)

    res: dict = {"idx": idx, "error": None}
    cwd0 = os.getcwd()
    work = os.path.join(base, f"c{idx}")
    try:
        LAST_RAW["text"] = None
        lay = layout(case, idx, lean=want_c09 and not want_c08)
        raw_doc = LAST_RAW["text"]
        res["layout"] = {"files": lay["files"], "pkg": lay["pkg"], "names": lay["real_names"], "opts": lay["opts"]}
        os.makedirs(work, exist_ok=True)
        for rel, text in lay["files"].items():
            p = os.path.join(work, rel)
            os.makedirs(os.path.dirname(p), exist_ok=True)
            with open(p, "w") as fh:
                fh.write(text)
        elsewhere = os.path.join(base, "elsewhere")
        os.makedirs(elsewhere, exist_ok=True)
        os.chdir(work if case["cwdrel"] else elsewhere)
        loader, root = _load(griffe, lay, work)
        objs = _chain(root, lay["real_names"])
        focus = objs[-1]
        if patched(case):
            focus.parameters["p"].docstring = griffe.Docstring("P doc.", lineno=1, endlineno=1)
        if lay["prune"]:
            _prune(objs)
        if case.get("resolved") is True:
            loader.resolve_aliases(implicit=True, external=False)
            res["alias_resolved"] = bool(focus.is_alias and focus.resolved)
        res["kinds"] = [("alias" if o.is_alias else o.kind.value) for o in objs]
        res["runtime"] = None if focus.is_alias else bool(focus.runtime)
        if raw_doc is not None:
            # CPython's inspect.cleandoc is the reference of what the loaded value must be, and of whether cleaning it
            # again would change it (Serde!CleanedOnce)
            import inspect  # noqa: PLC0415

            want = inspect.cleandoc(raw_doc.rstrip())
            res["docref"] = {"loaded_ok": focus.docstring is not None and focus.docstring.value == want,
                             "fixpoint": inspect.cleandoc(want) == want, "want": want,
                             "got": None if focus.docstring is None else focus.docstring.value}

        # ---- as_json in both forms -------------------------------------------------------------------
        enc = {}
        texts = {}
        for form, full in (("min", False), ("full", True)):
            try:
                texts[form] = root.as_json(full=full)
                enc[form] = {"ok": True, "alpha": alpha(prune_json(json.loads(texts[form]), lay["real_names"], lay["model_names"]))}
            except Exception as exc:  # noqa: BLE001
                enc[form] = dict(exc_sig(exc), ok=False)
        res["enc"] = enc

        if want_c08:
            res["tree"] = tree(slots_of(focus, griffe)[_slot_index(case, focus, griffe)][1], griffe) if case["part"] == "expr" else None
            res["names_before"] = names_of(focus, griffe)
            snap_before = snapshot(root, griffe)
            dec = {"ok": False}
            if enc["min"]["ok"]:
                try:
                    reloaded = type(root).from_json(texts["min"])
                    dec = {"ok": True}
                except Exception as exc:  # noqa: BLE001
                    dec = dict(exc_sig(exc), ok=False)
            res["dec"] = dec
            if enc["full"]["ok"]:
                # loading the FULL form back (Serde: obs.decfull_ok)
                try:
                    type(root).from_json(texts["full"])
                    res["decfull"] = {"ok": True}
                except Exception as exc:  # noqa: BLE001
                    res["decfull"] = dict(exc_sig(exc), ok=False)
            if dec["ok"]:
                try:
                    robjs = _chain(reloaded, lay["real_names"])
                    res["names_after"] = names_of(robjs[-1], griffe)
                except KeyError:
                    res["names_after"] = None        # the focus object is not in the reloaded tree
                res["tree_diff"] = diff_snapshots(snap_before, snapshot(reloaded, griffe))
                same = {}
                for form, full in (("min", False), ("full", True)):
                    if not enc[form]["ok"]:
                        same[form] = None
                        continue
                    try:
                        again = reloaded.as_json(full=full)
                        same[form] = again == texts[form]
                        if not same[form]:
                            same[form + "_diff"] = _first_diff(json.loads(texts[form]), json.loads(again))
                    except Exception as exc:  # noqa: BLE001
                        same[form] = False
                        same[form + "_diff"] = f"re-encoding raised {type(exc).__name__}: {exc}"[:200]
                res["same"] = same
            # ---- the dump() function emits exactly this serialisation ----------------------------------
            if want_dump and case["origin"] != "inspect_src" and not patched(case) and not lay["prune"]:
                res["dump"] = _dump_check(griffe, lay, work, root, enc)

        if want_c09 and schema is not None:
            from gverif.props import c09_schema as cs  # noqa: PLC0415

            sch = {}
            if enc["full"]["ok"]:
                doc = json.loads(texts["full"])
                chain_doc = prune_json(doc, lay["real_names"], lay["real_names"])
                sch["errors_chain"] = sorted(cs.real_errors(chain_doc, schema))
                # the same package as a user would dump it: nothing pruned or patched, aliases resolved or not
                untouched = not lay["prune"] and not patched(case) and not case.get("resolved")
                whole_text = None
                for resolve in (False, True):
                    key = "whole_resolved" if resolve else "whole"
                    try:
                        if not resolve and untouched:
                            text2 = texts["full"]
                        else:
                            l2, r2 = _load(griffe, lay, work)
                            if resolve:
                                l2.resolve_aliases(implicit=True, external=False)
                            text2 = r2.as_json(full=True)
                        if resolve:
                            sch["resolved_same_text"] = text2 == whole_text
                        if resolve and text2 == whole_text:
                            sch[key] = sch["whole"]
                        else:
                            d2 = json.loads(text2)
                            sch[key] = sch["errors_chain"] if d2 == chain_doc else sorted(cs.real_errors(d2, schema))
                            if resolve:
                                sch["keys_same_resolved"] = alpha(prune_json(d2, lay["real_names"], lay["model_names"])) == enc["full"]["alpha"] \
                                    or patched(case) or lay["prune"]
                        if not resolve:
                            whole_text = text2
                    except Exception as exc:  # noqa: BLE001
                        sch[key] = [("<encode>", type(exc).__name__, "raise", str(exc)[:80])]
            res["schema"] = sch
    except Exception as exc:  # noqa: BLE001
        res["error"] = f"{type(exc).__name__}: {exc}\n" + traceback.format_exc()[-1500:]
    finally:
        os.chdir(cwd0)
        shutil.rmtree(work, ignore_errors=True)
    return res


def _slot_index(case, focus, griffe) -> int:
    want = case["slot"].split(".", 1)[1]
    for i, (slot, _e) in enumerate(slots_of(focus, griffe)):
        if slot == want:
            return i
    raise LookupError(f"slot {want} not found on the focus object")


def _first_diff(a, b, path="$"):
    if type(a) is not type(b):
        return f"{path}: {type(a).__name__} -> {type(b).__name__}"
    if isinstance(a, dict):
        for k in sorted(set(a) | set(b)):
            if k not in a:
                return f"{path}.{k}: key appears"
            if k not in b:
                return f"{path}.{k}: key disappears"
            d = _first_diff(a[k], b[k], f"{path}.{k}")
            if d:
                return d
        return None
    if isinstance(a, list):
        if len(a) != len(b):
            return f"{path}: length {len(a)} -> {len(b)}"
        for i, (x, y) in enumerate(zip(a, b)):
            d = _first_diff(x, y, f"{path}[{i}]")
            if d:
                return d
        return None
    return None if a == b else f"{path}: {a!r} -> {b!r}"


def canonical_dump(texts_by_pkg: dict) -> str:
    """What `griffe dump` must print for the packages: their as_json serialisations under their names, rendered
    with indent=2 and sorted keys."""
    return json.dumps({k: json.loads(v) for k, v in texts_by_pkg.items()}, indent=2, sort_keys=True)


def _dump_check(griffe, lay, work, root, enc) -> dict:
    out = {}
    ref = None
    for form, full in (("min", False), ("full", True)):
        buf = io.StringIO()
        try:
            rc = griffe.dump(
                [lay["pkg"]], output=buf, full=full, search_paths=[os.path.join(work, sp) if sp else work for sp in lay.get("search", [""])], force_inspection=lay["opts"]["force_inspection"],
                docstring_parser=griffe.Parser(lay["opts"]["docstring_parser"]) if lay["opts"]["docstring_parser"] else None,
            )
        except Exception as exc:  # noqa: BLE001
            out[form] = {"raised": type(exc).__name__, "expected_raise": not enc[form]["ok"]}
            continue
        if not enc[form]["ok"]:
            out[form] = {"raised": None, "expected_raise": True}
            continue
        # reference: a loader configured as dump() documents (store_source=False) and as_json of the package
        if ref is None:
            _l, ref = _load(griffe, lay, work, store_source=False)
        expected = canonical_dump({lay["pkg"]: ref.as_json(full=full)})
        text = buf.getvalue().rstrip("\n")
        out[form] = {"rc": rc, "same": text == expected}
        if text != expected:
            try:
                out[form]["diff"] = _first_diff(json.loads(expected), json.loads(text))
            except Exception as exc:  # noqa: BLE001
                out[form]["diff"] = f"unparsable dump output: {exc}"
    return out


def evaluate_chunk(args):
    cases, base, schema, flags = args
    return [evaluate(c, i, base, schema, **flags) for i, c in cases]
