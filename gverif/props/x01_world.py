"""X01 - the concrete world behind the abstract cases of spec/ExtLoad.tla.

`build(root)` writes, once per run, every module / package / file / directory a case can name:

    root/site/            on sys.path      x01t_<key>/__init__.py   top-level package holding the classes
                                           x01c_<key>/__init__.py   same, and root/cwd_clash/x01c_<key>/ exists
                                           x01pkg/m_<key>.py        sub-module holding the classes
                                           x01pkg/dep.py|boom.py, x01tdep/, x01tboom/   bodies that fail
                                           x01base_<i>.py           class R (re-exported by the modules above)
                                           x01v_<key>.py            victims: imported *before* the colliding file is loaded
    root/cwd/             working dir      dir/e_<key>.py, dir/x01v_<key>.py, dir/dep.py, dir/boom.py, dir/e.txt, dir/adir/
    root/cwd_clash/       working dir of the clash cases: x01c_<key>/ and dataclasses/ (directories)

<key> = ndef, r|n (re-export or not), init code.  `concretise(case, root)` maps an abstract case to the Python value
handed to load_extensions and to the working directory; `classify_message` maps an ExtensionNotLoadedError message to
the message classes of the spec.
"""
from __future__ import annotations

import os
from pathlib import Path

INIT_CODE = {"kwargs": "k", "named": "m", "noinit": "o", "attrerr": "a"}
INIT_SRC = {
    "kwargs": "    def __init__(self, **kw):\n        self.x01_opts = dict(kw)\n",
    "named": "    def __init__(self, o1=None, o2=None):\n        self.x01_opts = {k: v for k, v in (('o1', o1), ('o2', o2)) if v is not None}\n",
    "noinit": "",
    "attrerr": "    def __init__(self, **kw):\n        self.x01_no_such_attribute\n",
}
OPTIONS = {"none": {}, "empty": {}, "one": {"o1": 1}, "two": {"o1": 1, "o2": 2}, "unknown": {"zz": 9}}
ATTR_NAME = {"ext": "A", "reexp": "R", "nonext": "N", "func": "func", "const": "const", "missing": "Missing"}
HOOKS = (
    "    def on_node(self, *, node, agent, **kwargs):\n        node.append(self)\n"
    "    def on_package_loaded(self, *, pkg, loader, **kwargs):\n        self.x01_dc_done = '__init__' in pkg['D'].members\n"
)
DATACLASS_SRC = "from dataclasses import dataclass\n@dataclass\nclass D:\n    x: int = 0\n"


def class_src(name: str, init: str, base: str = "Extension") -> str:
    return f"class {name}({base}):\n    X01 = {name!r}\n{INIT_SRC[init]}{HOOKS}\n"


def key_of(ndef: int, reexp: bool, init: str) -> str:
    return f"{ndef}{'r' if reexp else 'n'}{INIT_CODE[init]}"


def module_src(ndef: int, reexp: bool, init: str) -> str:
    src = "from griffe import Extension\n"
    if reexp:
        src += f"from x01base_{INIT_CODE[init]} import R\n"
    for name in ("A", "B", "C")[:ndef]:
        src += class_src(name, init)
    return src + "class N:\n    pass\ndef func(**kw):\n    return None\nconst = 3\n"


def _write(path: str, text: str):
    os.makedirs(os.path.dirname(path), exist_ok=True)
    with open(path, "w") as fh:
        fh.write(text)


def build(root: str, max_def: int = 2):
    site, cwd, clash = (os.path.join(root, d) for d in ("site", "cwd", "cwd_clash"))
    for d in (site, cwd, clash, os.path.join(cwd, "dir", "adir"), os.path.join(clash, "dataclasses")):
        os.makedirs(d, exist_ok=True)
    dep, boom = "import x01_missing_dependency\n", "raise ValueError('boom')\n"
    _write(os.path.join(site, "x01pkg", "__init__.py"), "")
    for name, body in (("dep", dep), ("boom", boom)):
        _write(os.path.join(site, "x01pkg", name + ".py"), body)
        _write(os.path.join(site, "x01t" + name, "__init__.py"), body)
        _write(os.path.join(cwd, "dir", name + ".py"), body)
    for init in INIT_CODE:
        _write(os.path.join(site, f"x01base_{INIT_CODE[init]}.py"), "from griffe import Extension\n" + class_src("R", init))
        for ndef in range(max_def + 1):
            for reexp in (False, True):
                key, src = key_of(ndef, reexp, init), module_src(ndef, reexp, init)
                _write(os.path.join(site, f"x01t_{key}", "__init__.py"), src)
                _write(os.path.join(site, f"x01c_{key}", "__init__.py"), src)
                os.makedirs(os.path.join(clash, f"x01c_{key}"), exist_ok=True)
                _write(os.path.join(site, "x01pkg", f"m_{key}.py"), src)
                _write(os.path.join(site, f"x01v_{key}.py"), "VICTIM = True\n")
                _write(os.path.join(cwd, "dir", f"e_{key}.py"), src)
                _write(os.path.join(cwd, "dir", f"x01v_{key}.py"), src)
    _write(os.path.join(cwd, "dir", "e.txt"), module_src(1, False, "kwargs"))


def concretise(c: dict, root: str) -> dict:
    """-> {"cwd": dir, "text": the import path as written (None for direct forms), "victim": module to import first}"""
    out = {"cwd": os.path.join(root, "cwd"), "text": None, "victim": None, "path": None, "name": None}
    if c["form"] in ("instance", "class", "emptydict"):
        return out
    key = key_of(c["ndef"], c["reexp"], c["init"]) if c["init"] in INIT_CODE else ""
    if c["target"] == "builtin":
        path = "dataclasses"
    elif c["target"] == "dotted":
        sit, top = c["sit"], c["depth"] == "top"
        if sit == "ok":
            path = (f"x01c_{key}" if c["clash"] else f"x01t_{key}") if top else f"x01pkg.m_{key}"
        elif sit == "missing_top":
            path = "x01nopkg" if top else "x01nopkg.mod"
        elif sit == "missing_sub":
            path = "x01pkg.nomod"
        else:
            name = "dep" if sit == "body_importerror" else "boom"
            path = f"x01t{name}" if top else f"x01pkg.{name}"
    else:
        rel = {"ok": f"dir/e_{key}.py", "collide": f"dir/x01v_{key}.py", "missing": "dir/nofile.py", "isdir": "dir/adir",
               "badsuffix": "dir/e.txt", "body_importerror": "dir/dep.py", "body_error": "dir/boom.py"}[c["sit"]]
        path = os.path.join(root, "cwd", rel) if c["abs"] else rel
        if c["sit"] == "collide":
            out["victim"] = f"x01v_{key}"
    if c["clash"]:
        out["cwd"] = os.path.join(root, "cwd_clash")
    name = None
    if c["sep"] != "none":
        name = "DataclassesExtension" if c["target"] == "builtin" and c["attr"] == "ext" else ATTR_NAME[c["attr"]]
    out["path"], out["name"] = path, name
    out["text"] = path if name is None else path + ("." if c["sep"] == "dot" else ":") + name
    return out


def spec_value(c: dict, conc: dict):
    text = conc["text"]
    key = Path(text) if c["form"] in ("pathobj", "dictpathobj") else text
    if c["form"] in ("dict", "dictpathobj"):
        return {key: dict(OPTIONS[c["opts"]])}
    return key


def classify_message(msg: str) -> str:
    low = msg.split(": ")[0].lower()      # the head: an import error message goes on with arbitrary inner details
    if "could not be found" in low or "not found" in low:
        return "notfound"
    if "attribute" in low and ("has no" in low or "no attribute" in low):
        return "noattr"
    if "from path" in low:
        return "badpath"
    if "while importing" in low or "error importing" in low or "import error" in low:
        return "importerror"
    return "unclassified"


def opts_shape(d) -> str:
    for shape in ("empty", "one", "two", "unknown"):
        if d == OPTIONS[shape]:
            return shape
    return "other:" + repr(d)
