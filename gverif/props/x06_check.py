"""X06 - `griffe check`: concretiser (abstract argv of spec/CliCheck.tla -> command line + environment), judge."""
from __future__ import annotations

import json
import re

from gverif.props import x06_worker as K
from gverif.props.x06_dump import EXT_API, EXT_ARG, _opt

RE_ANSI = re.compile(r"\x1b\[[0-9;]*m")
BAD_REF = "x06-no-such-ref"


def ref_name(world: str, ref: str) -> str:
    if ref == "bad":
        return BAD_REF
    return "b" + ref if world == "notags" and ref in ("v1", "v2") else ref


def argv_env_of(c: dict, variant: int = 0):
    v = variant
    opts: list = _opt("-s", "--search", "src", v)
    if c["against"] != "unset":
        opts += _opt("-a", "--against", ref_name(c["world"], c["against"]), v + 1)
    if c["base"] != "unset":
        opts += _opt("-b", "--base-ref", ref_name(c["world"], c["base"]), v + 2)
    if c["style"] != "unset":
        opts += _opt("-f", "--format", "nope" if c["style"] == "bad" else c["style"], v + 3)
    if c["v"]:
        opts += _opt("-v", "--verbose", None, v)
    for col in ([] if c["color"] == "unset" else c["color"].split(".")):
        opts += ["--color" if col == "color" else "--no-color"]
    if c["e"] != "none":
        opts += _opt("-e", "--extensions", EXT_ARG[c["e"]], v + 1)
    if c["L"] != "unset":
        opts += _opt("-L", "--log-level", "nope" if c["L"] == "bad" else c["L"], v + 2)
    argv = ["check", "pk", *opts] if v % 2 == 0 else ["check", *opts, "pk"]
    env = {"FORCE_COLOR": None if c["fc"] == "unset" else c["fc"], "GRIFFE_LOG_LEVEL": None, "NO_COLOR": None}
    return argv, env


_ORACLE: dict = {}


def oracle(root: str, world: str, plan: dict) -> dict:
    key = world + json.dumps(plan, sort_keys=True)
    if key not in _ORACLE:
        _ORACLE[key] = K.oracle_check(root, plan)
    return _ORACLE[key]


def judge(roots: dict, case: dict, variant: int, *, subprocess_too: bool = False) -> dict:
    c, ref, impl = case["c"], case["ref"], case["impl"]
    root = roots[c["world"]]
    argv, env = argv_env_of(c, variant)
    res: dict = {"violations": [], "drift": [], "die": [], "argv": argv, "sub": None}
    obs = K.run_cli(root, argv, env=env)
    status = obs["status"].split(":")[0]
    status = {"return": "return", "exit": "sysexit", "exc": "exc"}[status]
    base = {"job": case["job"], "world": c["world"], "unspecified": ref["unspecified"]}

    def bad(clause: str, what: str, **more):
        res["violations"].append(({"clause": clause, **base, **more}, f"{what}; argv={argv} env FORCE_COLOR={env['FORCE_COLOR']}"))

    # ---- (K1) exit status, (K2) no escaping exception, (K5) nothing on stdout ----------------------------------------
    if ref["exit"] == 3:
        if obs["rc"] == 0:
            bad("exit-status", "exit status 0 although the reference / repository does not exist", real=0, ref="nonzero")
    else:
        if status == "exc":
            bad("no-escape", f"{obs['status']} escapes griffe.main", exception=obs["status"].split(":")[1])
        if obs["rc"] != ref["exit"]:
            bad("exit-status", f"exit status {obs['rc']} ({obs['status']}), reference {ref['exit']}", real=obs["rc"], ref=ref["exit"])
    if obs["stdout"] or obs["files"]:
        bad("stderr-only", f"check wrote to stdout / files: {obs['stdout'][:80]!r} {list(obs['files'])}")
    # ---- (K3, K4) the two versions, the rendering: equal to the documented API calls ------------------------------------
    if ref["exit"] in (0, 1) and c["e"] != "missing":
        plan = {"old": ref_name(c["world"], ref["old"]), "new": ref_name(c["world"], ref["new"]), "style": ref["out"]["style"], "exts": EXT_API[c["e"]],
                "search": ["src"], "allow_inspection": True, "force_inspection": False, "stubs": False}
        orc = oracle(root, c["world"], plan)
        if orc["error"] or orc["count"] != ref["out"]["n"]:
            res["die"].append(f"world table of CliCheck.tla disagrees with the API: {plan} -> {orc['count']} breakages / {orc['error']}, spec says {ref['out']['n']}")
            return res
        raw = "".join(line + "\n" for line in orc["lines"])
        if ref["out"]["style"] in ("oneline", "verbose") and raw and not RE_ANSI.search(raw):
            res["die"].append("world: Breakage.explain() of the one-line / verbose style carries no colour codes any more")
            return res
        want = raw if ref["color"] else RE_ANSI.sub("", raw)
        if obs["stderr"] != want:
            got_n = len([ln for ln in obs["stderr"].splitlines() if ln.strip()])
            ansi = bool(RE_ANSI.search(obs["stderr"]))
            if RE_ANSI.sub("", obs["stderr"]) == RE_ANSI.sub("", raw):
                bad("colour", f"colour codes {'present' if ansi else 'absent'}, reference {'on' if ref['color'] else 'off'}", real=ansi, ref=ref["color"])
            else:
                bad("rendering", f"stderr ({got_n} lines) is not the explain(style={ref['out']['style']}) of find_breaking_changes({plan['old']}, {plan['new']}): "
                    f"{obs['stderr'][:160]!r} vs {want[:160]!r}", style=ref["out"]["style"])
    # ---- real vs Impl ---------------------------------------------------------------------------------------------------------
    if (obs["rc"], status) != (impl["exit"], impl["status"]):
        res["drift"].append(f"Impl transcription predicts {(impl['exit'], impl['status'])}, real {(obs['rc'], status)} for {argv}")
    if subprocess_too:
        sub = K.run_cli_subprocess(root, argv, env=env)
        same = sub["rc"] == obs["rc"] and sub["stdout"] == obs["stdout"] and (sub["stderr"] == obs["stderr"] or ref["exit"] not in (0, 1) or c["e"] == "missing")
        res["sub"] = same
        if not same:
            bad("module-entry", f"`python -m griffe` gives exit {sub['rc']} stderr {sub['stderr'][:120]!r}, griffe.main gives exit {obs['rc']} stderr {obs['stderr'][:120]!r}")
    return res
