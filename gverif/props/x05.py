"""X05 - griffe.dynamic_import / griffe.sys_path (src/_griffe/importer.py) against its documented contract.

TLC: spec/DynImport.tla - dynamic_import transcribed statement by statement (one action per sys_path entry/exit,
import attempt, error record, getattr step, raise) over CPython's import machinery (ImportLevel/ImportFrom), the
contract as invariants; cfgs: DynImport_<tier> (clean domain, every invariant holds), DynImport_shadow (documented
divergence from the plain expression, ExprSame expected violated), DynImport_defect (clauses the unchanged code
breaks, expected violated).  Binding: every CASE (path x package on disk x failure points x sys.path set-up) is
built on disk and replayed in forked children: the real griffe.dynamic_import, and CPython's importlib as oracle
(gverif/props/x05_check.py says which comparison decides what).
"""
from __future__ import annotations

import json
import multiprocessing
import os
import time
from concurrent.futures import ThreadPoolExecutor

from gverif import tlc
from gverif.common import die, ensure_repo, scratch
from gverif.harness import Run

_WORKDIR = None
_READY = False


def _work(chunk: list) -> list:
    global _READY  # noqa: PLW0603
    if not _READY:
        ensure_repo()
        _READY = True
    from gverif.props.x05_check import check_case  # noqa: PLC0415

    out = []
    for case in chunk:
        try:
            out.append(check_case(case, _WORKDIR))
        except Exception as exc:  # noqa: BLE001
            out.append({"viol": [], "die": f"checker crashed on {case}: {exc!r}", "drift": [], "key": None, "nontrivial": False, "sample": None})
    return out


def _case_from_state(st: dict) -> dict:
    s = st["S"]
    return {
        "n": st["n"], "mk": st["mk"], "body": st["body"], "at": st["at"], "setup": st["setup"], "pmut": st["pmut"], "ref": st["ref"],
        "impl": {"outcome": st["outcome"], "errors": st["errors"], "mods": s["mods"], "execs": s["execs"], "xexec": s["xexec"],
                 "spcur": s["cur"], "splist": s["lists"][s["cur"]]},
    }


class Collector:
    def __init__(self, run: Run):
        self.run = run
        self.drift: dict = {}
        self.reps: dict = {}   # (set-up, mutation) -> an enumerated case in which the mutation was executed
        self.stats = {"cases": 0, "return": 0, "raise": 0, "shadowed": 0, "notfound": 0, "pmut": 0, "setups": set(), "shadow_differs": 0, "clauses": {}}

    def take(self, case: dict, res: dict):
        run = self.run
        if res["die"]:
            die("X05: " + res["die"])
        run.evaluated()
        run.replayed()
        st = self.stats
        st["cases"] += 1
        if st["cases"] % 20000 == 0:
            print(f"x05: {st['cases']} cases replayed", flush=True)
        st[case["ref"]["kind"]] += 1
        st["shadowed"] += bool(case["ref"]["shadowed"])
        st["notfound"] += bool(case["ref"]["notfound"])
        st["pmut"] += case["pmut"] != "none"
        st["setups"].add(json.dumps(case["setup"], sort_keys=True))
        st["shadow_differs"] += bool(res.get("shadow_differs"))
        if res["nontrivial"]:
            run.nontrivial_case(res["key"])
        if res["key"] and (case["pmut"] == "none" or (case["ref"]["top"] == "R" and case["ref"]["K"] >= 1)):
            self.reps.setdefault((json.dumps(case["setup"], sort_keys=True), case["pmut"]), case)
        if res["sample"] and res["nontrivial"]:
            run.sample(res["sample"])
        for sig, what, c in res["viol"]:
            st["clauses"][sig["clause"]] = st["clauses"].get(sig["clause"], 0) + 1
            run.violation(sig, what, c)
        for dname in res["drift"]:
            self.drift[dname] = self.drift.get(dname, 0) + 1


def _replay_chunks(pool, cases: list, size: int = 40):
    chunks = [cases[i : i + size] for i in range(0, len(cases), size)]
    for chunk, results in zip(chunks, pool.imap(_work, chunks)):
        yield from zip(chunk, results)


def main(tier: str, replay: str | None = None):
    global _WORKDIR  # noqa: PLW0603
    ensure_repo()
    run = Run("X05", tier)
    run.rule = ("DynImport.tla: every dotted path of <= MaxLen components x what each prefix is on disk (absent/module/package/namespace) x what its body "
                "does (completes / raises Exception, SystemExit, KeyboardInterrupt, missing dependency) x what each container defines for the next component "
                "(nothing / object / raising getattr / rebound sub-module name) x 11 sys.path-import_paths set-ups x sys.path mutation by the imported code. "
                "Non-trivial = at least one failed import attempt or getattr step, a shadowed sub-module, a sys.path mutation or a non-default set-up; distinct by abstract case.")
    nproc = max(2, min(14, (os.cpu_count() or 4) - 2))
    with scratch("x05-") as base:
        _WORKDIR = base
        pool = multiprocessing.get_context("fork").Pool(nproc)  # before any TLC output is parsed (small parent)
        try:
            col = Collector(run)
            if replay:
                _replay(run, col, pool, replay)
            else:
                _full(run, col, pool, tier)
        finally:
            pool.terminate()
    if col.drift:
        run.note(f"model drift (real code differs from the transcription Impl while satisfying the contract): {col.drift}")
    run.extra["x05_stats"] = {k: (sorted(v) if isinstance(v, set) else v) for k, v in col.stats.items()}
    run.finish()


def _replay(run: Run, col: Collector, pool, path: str):
    from gverif.props.x05_check import case_key  # noqa: PLC0415

    with open(path) as fh:
        rec = json.load(fh)
    print(rec["what"])
    stored = rec["case"]["tlc"]
    direct = rec["case"].get("direct") == "sys_path"
    res = tlc.must(tlc.run("DynImport", "DynImport_quick.cfg", workers=4, timeout=600))
    run.add_tlc(res)
    found = [c for c in res.cases if case_key(c) == case_key(stored)]
    if direct:
        from gverif.props.x05_check import check_syspath  # noqa: PLC0415

        for sig, what, c in check_syspath((found or [stored])[0], _WORKDIR):
            if sig == "die":
                die("X05: " + what)
            run.violation(sig, what, c)
        run.evaluated(3)
        run.replayed(3)
        return
    for case, r in _replay_chunks(pool, found or [stored]):
        col.take(case, r)


def _full(run: Run, col: Collector, pool, tier: str):
    thorough = tier == "thorough"
    pending: list = []
    buf: list = []

    def on_case(case):
        buf.append(case)
        if len(buf) >= 60:
            pending.append((list(buf), pool.apply_async(_work, (list(buf),))))
            buf.clear()

    with ThreadPoolExecutor(3) as ex:
        f_main = ex.submit(tlc.run, "DynImport", f"DynImport_{tier}.cfg", workers=6 if thorough else 4, timeout=3000,
                           constants={"EMIT": "TRUE"}, keep_cases=False, on_line=on_case, heap="4g" if thorough else "3g")
        f_shadow = ex.submit(tlc.run, "DynImport", "DynImport_shadow.cfg", workers=1, dump_trace=True, timeout=600)
        f_defect = ex.submit(tlc.run, "DynImport", "DynImport_defect.cfg", workers=1, extra=["-continue"], timeout=600)
        r_shadow, r_defect = f_shadow.result(), f_defect.result()
        # results of the main run are consumed while TLC is still producing (bounded memory in thorough)
        done = 0
        while not f_main.done() or done < len(pending):
            if done < len(pending):
                chunk, fut = pending[done]
                for case, r in zip(chunk, fut.get()):
                    col.take(case, r)
                pending[done] = None
                done += 1
            else:
                time.sleep(0.1)
        r_main = f_main.result()
    if buf:
        for case, r in zip(buf, pool.apply(_work, (list(buf),))):
            col.take(case, r)
    tlc.must(r_main)
    run.add_tlc(r_main)
    run.exhaustive = True
    if r_main.ncases != col.stats["cases"]:
        die(f"X05: {r_main.ncases} cases emitted, {col.stats['cases']} replayed")
    # ---- shadow domain: the model must exhibit the divergence, the real code and CPython must confirm it
    tlc.must(r_shadow, allow_violations=True)
    run.add_tlc(r_shadow)
    if "ExprSame" not in r_shadow.violated or not r_shadow.trace:
        die(f"X05: DynImport_shadow.cfg should violate ExprSame (got {r_shadow.violated})")
    scase = _case_from_state(r_shadow.trace[-1])
    before = col.stats["shadow_differs"]
    for case, r in _replay_chunks(pool, [scase]):
        col.take(case, r)
    if col.stats["shadow_differs"] != before + 1:
        die(f"X05: the shadow counterexample {scase} does not differ from the expression on CPython")
    # ---- defect domain: clauses broken by the unchanged code (known findings), enumerated with -continue
    tlc.must(r_defect, allow_violations=True)
    run.add_tlc(r_defect)
    for inv in ("DocModuleNotFound", "AlwaysImportError"):
        if inv not in r_defect.violated:
            die(f"X05: DynImport_defect.cfg should violate {inv} (got {sorted(set(r_defect.violated))})")
    if set(r_defect.violated) - {"DocModuleNotFound", "AlwaysImportError"}:
        die(f"X05: DynImport_defect.cfg violates {sorted(set(r_defect.violated))}")
    for case, r in _replay_chunks(pool, r_defect.cases):
        col.take(case, r)
    # ---- griffe.sys_path used directly (the EnterSysPath / ExitSysPath steps on their own), 3 ways of leaving the block
    from gverif.props.x05_check import check_syspath  # noqa: PLC0415

    for _, case in sorted(col.reps.items()):
        for sig, what, c in check_syspath(case, _WORKDIR):
            if sig == "die":
                die("X05: " + what)
            col.stats["clauses"][sig["clause"]] = col.stats["clauses"].get(sig["clause"], 0) + 1
            run.violation(sig, what, c)
        run.evaluated(3)
        run.replayed(3)
    col.stats["sys_path_direct"] = len(col.reps) * 3
    if len(col.reps) < 15:
        die(f"X05: only {len(col.reps)} (set-up, mutation) representatives for the direct sys_path check")
    # ---- vacuity
    st = col.stats
    want_setups = 11
    if not (st["return"] and st["raise"] and st["shadowed"] and st["notfound"] and st["pmut"] and len(st["setups"]) == want_setups and st["shadow_differs"] > 1):
        die(f"X05: vacuous enumeration: {st}")
