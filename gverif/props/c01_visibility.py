"""C01 helper: build the situation of one row of spec/Visibility.tla with real Griffe objects and read the
real predicates (is_public, is_private, is_special, is_class_private, is_imported, is_exported,
is_wildcard_exposed)."""
from __future__ import annotations

NAME = {"plain": "x", "_x": "_x", "__x": "__x", "__x__": "__x__", "_x__": "_x__"}
PREDS = {"public": "is_public", "private": "is_private", "special": "is_special", "class_private": "is_class_private",
         "imported": "is_imported", "exported": "is_exported", "wildcard": "is_wildcard_exposed"}


def evaluate_row(row: dict) -> dict:
    from gverif.props.c01_replay import griffe

    g = griffe()
    name = NAME[row["nameclass"]]
    pk = g.Module("pk")
    if row["parent"] == "none":
        parent = None
    elif row["parent"] == "module":
        parent = pk
    else:
        parent = g.Class("K")
        pk.set_member("K", parent)
    kind = row["kind"]
    if kind == "module":
        obj = g.Module(name)
    elif kind == "class":
        obj = g.Class(name)
    elif kind == "function":
        obj = g.Function(name)
    elif kind == "attribute":
        obj = g.Attribute(name)
    else:
        obj = g.Alias(name, "zz." + name)
    obj.runtime = row["runtime"]
    obj.public = {"none": None, "true": True, "false": False}[row["public"]]
    if parent is not None:
        parent.set_member(name, obj)
        if row["imported"]:
            parent.imports[name] = "zz." + name
        parent.exports = {"none": None, "empty": [], "lists": ["other", name], "omits": ["other"]}[row["exports"]]
    # the object sits where the row says (a wrong construction must not pass for a verdict)
    if obj.parent is not parent or (parent is not None and parent.members.get(name) is not obj):
        return {"machinery": f"could not build row {row}"}
    real, notes = {}, []
    for pred, attr in PREDS.items():
        try:
            val = getattr(obj, attr)
        except Exception as exc:  # noqa: BLE001
            real[pred] = type(exc).__name__
            continue
        if not isinstance(val, bool):
            notes.append(f"{attr} returned {type(val).__name__} instead of bool")
        real[pred] = "true" if val else "false"
    return {"real": real, "notes": notes}
