"""Helpers of the C10 driver: concretisation of abstract signatures, the CPython oracle, the real diff,
the symmetry transport of TLC's expectations and the evaluation of the clauses on the real output.

Abstract vocabulary (spec/DiffSig.tla): a signature is a list of {"name", "kind", "default"} with kind in
po/pk/vp/ko/vk and default in none/d1/d2; a call shape is [npos, [keyword names]]; a breakage is
[KIND, parameter name] with KIND in MOVED/REMOVED/CHANGED_KIND/CHANGED_DEFAULT/CHANGED_REQUIRED/ADDED_REQUIRED.
"""
from __future__ import annotations

import inspect
import itertools
from pathlib import Path

from gverif.common import die

NAMESEQ = ["a", "b", "c", "d"]
ABBR = {
    "positional-only": "po",
    "positional or keyword": "pk",
    "variadic positional": "vp",
    "keyword-only": "ko",
    "variadic keyword": "vk",
}
PARAM_KINDS = {"MOVED", "REMOVED", "CHANGED_KIND", "CHANGED_DEFAULT", "CHANGED_REQUIRED", "ADDED_REQUIRED"}
MAXPOS = 3
MISLOADED: list = []   # signatures the visitor did not store as declared (filled by visit_module)


# ---- extraction of the kind sets from the working tree --------------------------------------------------
_KIND_SETS: dict = {}
KIND_NOTES: list = []


def _probe(griffe, old_params: str, new_params: str) -> set:
    """{(KIND, parameter)} the public find_breaking_changes yields for def f(old) -> def f(new)."""
    mods = [griffe.visit("m", filepath=Path("m.py"), code=f"def f({p}):\n    pass\n") for p in (old_params, new_params)]
    out = set()
    for b in griffe.find_breaking_changes(*mods):
        kind = b.kind.name.replace("PARAMETER_", "")
        par = b.new_value if kind == "ADDED_REQUIRED" else b.old_value
        out.add((kind, getattr(par, "name", "?")))
    return out


def kind_sets() -> dict:
    """The effective kind sets of the signature rules, as TLA+ set literals over the spec's kind abbreviations.

    Determined through PUBLIC behaviour only (find_breaking_changes on tiny signature pairs), so that a
    refactoring of the private constants of _griffe.diff cannot break the check:
      POSITIONAL: kinds k for which a parameter of kind k whose index changes (0 -> 1) is reported MOVED;
      POSKWONLY : kinds k for which positional-or-keyword -> k is reported CHANGED_KIND although the other kind
                  rules are neutralised (variadic targets probed with the complementary variadic present);
      VARIADIC  : kinds k exempt from the default rule (non-variadic: a=d1 -> a=d2 not reported) or, for kinds
                  that cannot carry a default, reported CHANGED_KIND when turned into a regular parameter.
    The private frozensets, when they still exist under their old names, are only compared (note)."""
    if _KIND_SETS:
        return dict(_KIND_SETS)
    import griffe  # noqa: PLC0415

    try:
        shape = {"po": ("a, /", "b, a, /"), "pk": ("a", "b, a"), "vp": ("*a", "b, *a"), "ko": ("*, a", "*, b, a"), "vk": ("**a", "b, **a")}
        positional = {k for k, (o, n) in shape.items() if ("MOVED", "a") in _probe(griffe, o, n)}
        to_kind = {"po": "a, /", "ko": "*, a", "vp": "*a, **b", "vk": "*b, **a"}
        poskwonly = {k for k, n in to_kind.items() if ("CHANGED_KIND", "a") in _probe(griffe, "a", n)}
        dflt = {"po": ("a=d1, /", "a=d2, /"), "pk": ("a=d1", "a=d2"), "ko": ("*, a=d1", "*, a=d2")}
        variadic = {k for k, (o, n) in dflt.items() if ("CHANGED_DEFAULT", "a") not in _probe(griffe, o, n)}
        variadic |= {k for k, o in (("vp", "*a"), ("vk", "**a")) if ("CHANGED_KIND", "a") in _probe(griffe, o, "a=d1")}
    except Exception as exc:  # noqa: BLE001
        die(f"C10: probing find_breaking_changes for the effective kind sets failed ({exc!r})")
    probed = {"POSITIONAL": positional, "POSKWONLY": poskwonly, "VARIADIC": variadic}
    try:   # optional cross-check against the private constants
        from _griffe import diff as D  # noqa: PLC0415

        for const, attr in (("POSITIONAL", "_POSITIONAL"), ("POSKWONLY", "_POSITIONAL_KEYWORD_ONLY"), ("VARIADIC", "_VARIADIC")):
            if hasattr(D, attr):
                private = {ABBR[k.value] for k in getattr(D, attr)}
                if private != probed[const]:
                    KIND_NOTES.append(f"_griffe.diff.{attr} = {sorted(private)} but the probed effective set {const} is {sorted(probed[const])} (the probed one is used)")
    except Exception:  # noqa: BLE001, S110
        pass
    for const, st in probed.items():
        _KIND_SETS[const] = "{" + ", ".join(sorted('"%s"' % k for k in st)) + "}"
    return dict(_KIND_SETS)


# ---- concretisation --------------------------------------------------------------------------------------
def key(sig) -> tuple:
    return tuple((p["name"], p["kind"], p["default"]) if isinstance(p, dict) else tuple(p) for p in sig)


def render(sig) -> str:
    """Parameter list text of an abstract signature (a tuple/list of (name, kind, default) or of dicts)."""
    sig = key(sig)
    parts = []
    kinds = [p[1] for p in sig]
    for i, (n, k, d) in enumerate(sig):
        if k == "vp":
            parts.append("*" + n)
        elif k == "vk":
            parts.append("**" + n)
        else:
            if k == "ko" and "vp" not in kinds and (i == 0 or kinds[i - 1] != "ko"):
                parts.append("*")
            parts.append(n + ("" if d == "none" else "=" + d))
        if k == "po" and (i + 1 == len(sig) or kinds[i + 1] != "po"):
            parts.append("/")
    return ", ".join(parts)


def source(sig) -> str:
    return f"def f({render(sig)}):\n    pass\n"      # d1, d2 are supplied by the namespace when executed


def calls(names):
    return [(n, kw) for n in range(MAXPOS + 1) for r in range(len(names) + 1) for kw in itertools.combinations(names, r)]


# ---- CPython: the implementation of the spec's reference operator PyBinds ----------------------------------
def cpython_binds(sig, names) -> tuple[set, int]:
    """Set of call shapes the interpreter binds against `def f(<sig>)`; number of shapes where
    inspect.Signature.bind deviates from the interpreter inside the one documented class."""
    src = source(sig)
    ns: dict = {"d1": 1, "d2": 2}
    try:
        exec(compile(src, "<c10>", "exec", dont_inherit=True), ns)  # noqa: S102
    except SyntaxError as exc:
        die(f"C10: rendered signature is not valid Python ({exc!r}):\n{src}")
    f = ns["f"]
    pysig = inspect.signature(f)
    want = [(p.name, ABBR[p.kind.description], "none" if p.default is inspect.Parameter.empty else "d%d" % p.default) for p in pysig.parameters.values()]
    if want != list(key(sig)):
        die(f"C10: renderer produced a different signature: {want} for {key(sig)}")
    ok = set()
    deviations = 0
    po_defaulted = {p.name for p in pysig.parameters.values() if p.kind is inspect.Parameter.POSITIONAL_ONLY and p.default is not inspect.Parameter.empty}
    has_vk = any(p.kind is inspect.Parameter.VAR_KEYWORD for p in pysig.parameters.values())
    for npos, kw in calls(names):
        args, kwargs = tuple(range(npos)), {k: 0 for k in kw}
        try:
            f(*args, **kwargs)
            real = True
        except TypeError:
            real = False
        try:
            pysig.bind(*args, **kwargs)
            bound = True
        except TypeError:
            bound = False
        if real != bound:
            # CPython 3.12: Signature.bind rejects a keyword named like a positional-only parameter that has
            # a default even when **kwargs would take it (the interpreter accepts it, PEP 570).
            if real and not bound and has_vk and (set(kw) & po_defaulted):
                deviations += 1
            else:
                die(f"C10: inspect.Signature.bind ({bound}) and the interpreter ({real}) disagree on f({render(sig)}) called with {npos} positional, keywords {kw}")
        if real:
            ok.add((npos, tuple(sorted(kw))))
    return ok, deviations


def lost_call(old_sig, new_sig, call) -> bool:
    """Antecedent of clause (i) evaluated for real: the call binds against old and not against new."""
    res = []
    for sig in (old_sig, new_sig):
        ns: dict = {"d1": 1, "d2": 2}
        exec(compile(source(sig), "<c10>", "exec", dont_inherit=True), ns)  # noqa: S102
        try:
            ns["f"](*range(call[0]), **{k: 0 for k in call[1]})
            res.append(True)
        except TypeError:
            res.append(False)
    return res[0] and not res[1]


# ---- the real finder ---------------------------------------------------------------------------------------
def visit_module(griffe, sig):
    mod = griffe.visit("m", filepath=Path("m.py"), code=source(sig))
    got = [(p.name, ABBR[p.kind.value], "none" if p.default is None or p.kind.value.startswith("variadic") else str(p.default)) for p in mod["f"].parameters]
    if got != list(key(sig)):
        # The finder works on LOADED signatures: a visitor that stores a different signature than the source
        # declares is part of the code under test here - the clauses (i)-(iv) judge the outcome, the driver
        # only counts the mismatches (C02 owns the extraction itself).
        MISLOADED.append(f"def f({render(sig)}) loaded as {got}")
    return mod


def build_inplace(griffe, old_mod, new_mod, ops):
    """Route "inplace" of DiffSig.tla: a function holding the OLD parameters, whose container is then looked up
    by name and edited through the public Parameters API (by integer index) into the new signature.
    Returns (module, "ok") or (None, outcome)."""
    of, nf = old_mod["f"], new_mod["f"]
    try:
        fn = griffe.Function("f", parameters=griffe.Parameters(*list(of.parameters)))
        params = fn.parameters
        for op in ops:
            i = op["i"] - 1
            if op["op"] == "lookup":
                name = of.parameters[i].name
                if name not in params or params[name].name != name:
                    return None, "lookup-failed"
            elif op["op"] == "set":
                params[i] = nf.parameters[i]
            elif op["op"] == "del":
                del params[i]
            else:
                params.add(nf.parameters[i])
        proj = lambda ps: [(p.name, p.kind, str(p.default)) for p in ps]  # noqa: E731
        if proj(params) != proj(nf.parameters):
            return None, "container-differs-from-history"       # I_RouteIndependent on the real container
        mod = griffe.Module("m", filepath=Path("m.py"))
        mod.set_member("f", fn)
    except Exception as exc:  # noqa: BLE001
        return None, type(exc).__name__
    return mod, "ok"


def real_breakages(griffe, old_mod, new_mod):
    """Projection of list(find_breaking_changes(old, new)) onto the spec's vocabulary.

    Returns (set of (KIND, parameter), outcome) where outcome is "ok" or the name of the exception."""
    out = set()
    try:
        for b in griffe.find_breaking_changes(old_mod, new_mod):
            kind = b.kind.name
            if kind.startswith("PARAMETER_"):
                kind = kind[len("PARAMETER_"):]
                par = b.new_value if kind == "ADDED_REQUIRED" else b.old_value
                out.add((kind, getattr(par, "name", "?"), b.obj.path))
            else:
                out.add((kind, "", b.obj.path))
    except Exception as exc:  # noqa: BLE001
        return out, type(exc).__name__
    return out, "ok"


# ---- symmetry: every pair is the image of a pair whose old signature is canonical ----------------------------
def canoniser(old_key, nn: int):
    """Renaming (names, per-name d1/d2 swap) that maps `old_key` to its canonical form; returns
    (name map, set of names whose defaults are swapped, inverse name map)."""
    names = NAMESEQ[:nn]
    nm = {}
    for i, (n, _k, _d) in enumerate(old_key):
        nm[n] = names[i]
    rest_src = [n for n in names if n not in nm]
    rest_dst = [n for n in names if n not in nm.values()]
    nm.update(dict(zip(rest_src, rest_dst)))
    swap = {n for (n, _k, d) in old_key if d == "d2"}
    return nm, swap, {v: k for k, v in nm.items()}


def apply_renaming(sig_key, nm, swap) -> tuple:
    flip = {"d1": "d2", "d2": "d1", "none": "none"}
    return tuple((nm[n], k, flip[d] if n in swap else d) for (n, k, d) in sig_key)


def transport(exp: dict, inv: dict) -> dict:
    """Expectation record of the canonical pair, names mapped back to the concrete pair."""
    return {
        "b": {(k, inv[p]) for k, p in exp["b"]},
        "m": {(k, inv[p]) for k, p in exp["m"]},
        "d": {inv[p] for p in exp["d"]},
        "x": exp["x"],
        "c": exp["c"],
        "w": (exp["w"][0], tuple(sorted(inv[k] for k in exp["w"][1]))) if exp["w"] else None,
    }


def normalise(pair: dict) -> dict:
    """CASE record of a pair as emitted by TLC -> python sets/tuples."""
    return {
        "b": {(k, p) for k, p in pair["b"]},
        "m": {(k, p) for k, p in pair["m"]},
        "d": set(pair["d"]),
        "x": pair["x"],
        "c": pair["c"],
        "w": (pair["w"][0], tuple(sorted(pair["w"][1]))) if pair["w"] else None,
    }


# ---- the clauses of the property on the real output -------------------------------------------------------
def transitions(old_key, new_key) -> list:
    ko = {n: k for n, k, _ in old_key}
    kn = {n: k for n, k, _ in new_key}
    return sorted(f"{ko[n]}>{kn[n]}" for n in ko if n in kn and ko[n] != kn[n])


def judge(old_key, new_key, exp: dict, real: set, outcome: str) -> tuple[list, bool]:
    """Violations [(sig, what)] of C10 by the real output `real` on the pair, and whether the real output
    differs from the model's transcription of the implementation (drift)."""
    out = []
    o, n = render(old_key), render(new_key)
    if outcome != "ok":
        out.append(({"clause": "total", "exception": outcome}, f"find_breaking_changes raised {outcome} on f({o}) -> f({n})"))
        return out, False
    pairs = {(k, p) for k, p, _path in real}
    if any(path != "m.f" for _k, _p, path in real):
        out.append(({"clause": "iv-names-changed", "kind": "wrong-object"}, f"breakage reported on {sorted({p for _, _, p in real})} for f({o}) -> f({n})"))
    # (i) a call CPython binds against old and rejects against new => at least one breakage
    if exp["x"] and not pairs:
        w = exp["w"]
        out.append((
            {"clause": "i-silent-break", "cause": exp["c"], "transitions": transitions(old_key, new_key)},
            f"f({o}) -> f({n}): the call f({', '.join([str(i) for i in range(w[0])] + [k + '=0' for k in w[1]])}) binds against the old signature and raises TypeError against the new one, nothing is reported",
        ))
    # (ii) moved positional / changed default / optional -> required are always reported
    for k, p in sorted(exp["m"] - pairs):
        out.append(({"clause": "ii-always-reported", "rule": k}, f"f({o}) -> f({n}): {k} of parameter {p} is not reported (reported: {sorted(pairs)})"))
    # (iii) identical signatures produce no report
    if old_key == new_key and pairs:
        out.append(({"clause": "iii-identical-silent", "kind": sorted(pairs)[0][0]}, f"f({o}) compared with itself reports {sorted(pairs)}"))
    # (iv) every reported breakage is a parameter breakage naming a parameter that differs
    for k, p in sorted(pairs):
        if k not in PARAM_KINDS:
            out.append(({"clause": "iv-names-changed", "kind": k}, f"f({o}) -> f({n}): non-parameter breakage {k} reported although only parameters differ"))
        elif p not in exp["d"]:
            out.append(({"clause": "iv-names-changed", "kind": k}, f"f({o}) -> f({n}): {k} names parameter {p!r}, whose presence/kind/position/default/required-ness is unchanged"))
    return out, pairs != exp["b"]
