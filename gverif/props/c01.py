"""C01 - static extraction is faithful to the source (spec/Visitor.tla, spec/Visibility.tla).

TLC decides, per statement alphabet ("domain"), every clause of the property on the model: the visitor
transcription (one action per visit_* / handle_* branch, scope stack, type_guarded flag, events) against the
declarative reference RefTree(program) - exhaustively for all well-formed listings within the bounds, on
all programs outside the named hazards (Strict = FALSE), and exhibits each known defect as an invariant
violation with Strict = TRUE (small configs, counterexample replayed on the real code).

Binding:
  * replay (spec -> code): every program TLC prints is rendered to source (3 spellings, visit / load from
    disk), visited by the real Griffe with a passive recording Extension, projected onto the spec's
    vocabulary and compared with the reference (verdict), with the model's Impl state and event sequence
    (drift), and CPython's compile / ast / symtable validate the renderer and the reference's bound names
    (exit 2).  Line spans, docstrings, source slices are evaluated by the harness on the same cases.
  * the decision table of Visibility.tla is replayed row by row on real objects.
  * trace validation (code -> spec): real Python files (the repo, the stdlib) are visited with the recording
    extension and the recorded event trace is checked against the protocol clauses of the spec (exactly
    once, parent first, on_members last), plus totality and span / docstring agreement with CPython's ast.
"""
from __future__ import annotations

import glob
import json
import multiprocessing as mp
import os
import random
import sysconfig
import time
from concurrent.futures import ThreadPoolExecutor, as_completed

from gverif import tlc
from gverif.common import SEED, die, ensure_repo
from gverif.harness import Run

# clauses that still have a known deviation (hazards init-local, label-inherit): Strict = TRUE must exhibit them
INVS = ["MembersFaithful", "LabelsFaithful", "ImportsFaithful", "EvMembersLast", "EventsAccepted"]
# invariant of Visitor.tla -> clause name used by the harness for the same demand
CLAUSE_OF = {"MembersFaithful": "members", "LabelsFaithful": "labels", "ImportsFaithful": "imports",
             "EvMembersLast": "events-members-last", "EventsAccepted": "events-members-last"}
# one TLC process explores all domains of a tier (Visitor.tla: QuickDomains / ThoroughDomainsA / ThoroughDomainsB);
# the machine-wide number of TLC processes is bounded (gverif.tlc slots), so the plan keeps it small
PLAN = {
    "quick": {"checks": [("QuickDomains", 8, "3g")], "strict": [], "coverage": False, "three_spellings": ()},
    "thorough": {"checks": [("ThoroughDomainsA", 10, "4g"), ("ThoroughDomainsB", 10, "4g")], "strict": [[i] for i in INVS],
                 "coverage": True,
                 "three_spellings": ("all", "attr3")},
}
ACTIONS = ["LeaveIf", "LeaveClass", "LeaveOther", "SkipLine", "VisitClassDef", "MakeProperty", "StashOverload", "AttachAccessor", "PlaceFunction",
           "VisitImport", "HandleAttribute", "VisitAugAssign", "EnterIf", "EnterElse", "EnterExcept", "EnterBlock", "EndModule", "AddLine", "VisitModule"]


# ---- worker side ------------------------------------------------------------------------------------------
def _w_replay(chunk):
    from gverif.harness import load_findings, matches
    from gverif.props import c01_replay as R

    KNOWN = [e for e in load_findings("C01") if e.get("status") == "known"]

    out = []
    sent_history = False
    for pos, (case, variant, mode) in enumerate(chunk):
        try:
            res = R.replay_case(case, variant, mode)
        except Exception as exc:  # noqa: BLE001
            import traceback

            res = {"violations": [], "drift": [], "machinery": f"harness crashed on {case['prog']} ({mode}, spelling {variant}): {exc!r}\n{traceback.format_exc()}", "nontrivial": False, "summary": None}
        res["wf"] = bool(case["wf"])
        res["model_dev"] = _model_deviations(case)
        new = [sig for sig, _ in res["violations"] if not any(matches(e, sig) for e in KNOWN)]
        stored = None
        if new:
            # what --replay needs: the case as TLC printed it and, once per chunk, the visits made before it in this (fresh)
            # worker process - a visit must not depend on earlier visits, so a carried-over state is part of the failing input
            stored = {"case": case, "history": None if sent_history else [(c["prog"], v, m) for c, v, m in chunk[:pos]]}
            sent_history = True
        out.append((case["prog"], variant, mode, list(case["hz"]), res, stored))
    return out


DECO_U = {"async", "property", "cached", "staticmethod", "classmethod", "abstractmethod", "writable", "deletable", "dataclass"}


def _model_deviations(case) -> list:
    """Clauses on which the model's Impl tree (as TLC computed it) differs from the reference on this program: the model
    exhibits the known deviations in the hazardous programs (the Strict configs of the thorough tier show the same as
    invariant violations with counterexamples)."""
    if not case["wf"] or not case["hz"]:
        return []
    ref = {(m["s"], m["n"]): m for m in case["ref"]}
    impl = {(m["s"], m["n"]): m for m in case["impl"]}
    dev = []
    if {(k, m["l"], m["k"]) for k, m in ref.items()} != {(k, m["l"], m["k"]) for k, m in impl.items()}:
        dev.append("members")
    if any(k in impl and impl[k]["l"] == m["l"] and sorted(set(impl[k]["lab"]) & DECO_U) != sorted(m["dl"]) for k, m in ref.items()):
        dev.append("labels")
    return dev


def _w_corpus(paths):
    from gverif.props import c01_corpus as C

    return [C.sweep_file(p) for p in paths]


def _w_rows(rows):
    from gverif.props import c01_visibility as V

    return [(row, V.evaluate_row(row)) for row in rows]


def _chunks(seq, n):
    for i in range(0, len(seq), n):
        yield seq[i : i + n]


# ---- main side --------------------------------------------------------------------------------------------
def _absorb(run: Run, results, stats, domain):
    for prog, variant, mode, hz, res, stored in results:
        ident = {"kind": "prog", "prog": prog, "variant": variant, "mode": mode, "domain": domain, **(stored or {})}
        run.evaluated()
        if res["machinery"]:
            die("C01: " + res["machinery"])
        run.replayed()
        stats["replayed"] += 1
        stats["replayed-well-formed"] += 1 if res.get("wf") else 0
        stats["replayed-without-hazard"] += 1 if res.get("wf") and not hz else 0
        for h in hz:
            stats["hz:" + h] += 1
        for c in res.get("model_dev", ()):
            stats["model-exhibits:" + c] += 1
        stats["pairs"].update((l[0], l[1]) for l in prog)
        stats["tc-guarded-programs"] += 1 if any(l[1] in ("TC", "tTC", "elifTC") for l in prog) else 0
        if res["nontrivial"]:
            run.nontrivial_case(json.dumps(prog))
        if res["summary"] and len(prog) >= 3 and len({l[0] for l in prog}) >= 3:
            run.sample({"domain": domain, **res["summary"]}, limit=6)
        for sig, what in res["violations"]:
            stats["viol:" + sig["clause"] + ":" + sig["cause"]] += 1
            run.violation(sig, what, ident)
        for d in res["drift"]:
            stats["drift"] += 1
            if stats["drift"] <= 5:
                run.note("model drift: " + d[:400])


def _case_from_state(st: dict) -> dict:
    res = st["res"]
    return {"prog": [[l["k"], l["x"], l["n"], l["d"]] for l in st["prog"]], "outcome": st["outcome"], "wf": res["wf"], "hz": res["hz"], "ref": res["ref"],
            "rimps": res["rimps"], "rexps": res["rexps"], "impl": res["impl"], "iimps": res["iimps"], "iexps": st["exps"], "events": st["events"], "flagok": st["flagok"]}


def corpus_files(tier: str) -> list:
    from gverif.common import REPO

    rnd = random.Random(SEED)
    repo = sorted(glob.glob(os.path.join(REPO, "src", "**", "*.py"), recursive=True)) + sorted(glob.glob(os.path.join(REPO, "tests", "**", "*.py"), recursive=True))
    std = sysconfig.get_paths()["stdlib"]
    lib = sorted(f for f in glob.glob(os.path.join(std, "**", "*.py"), recursive=True) if "site-packages" not in f and "/lib2to3/tests/data" not in f)
    top = [f for f in lib if "/test" not in f and "/idlelib/" not in f]
    rest = [f for f in lib if f not in set(top)]
    n_top, n_rest = (220, 60) if tier == "quick" else (len(top), 500)
    if os.environ.get("C01_ONLY"):
        n_top, n_rest = 20, 5
    return repo + rnd.sample(top, min(n_top, len(top))) + rnd.sample(rest, min(n_rest, len(rest)))


def main(tier: str, replay: str | None = None):
    ensure_repo()
    run = Run("C01", tier)
    run.rule = ("Visitor.tla: every well-formed indented listing of <= MaxLen statements (def/async/decorated def, __init__, class, plain/annotated/instance/"
                "multi-target assignments, imports, __all__, if TYPE_CHECKING/if/elif/else, try/except, with) over names {f,g} per alphabet, rendered in 3 spellings and "
                "visited (griffe.visit; 1 in 7 also griffe.load from disk); Visibility.tla: every row of the decision table built with real objects; corpus: real files. "
                "Non-trivial = program with >= 2 binding statements or a compound statement, visited without machinery error; distinct by abstract program.")
    from collections import Counter

    stats: Counter = Counter()
    stats["pairs"] = set()
    ctx = mp.get_context("fork")
    nproc = max(4, min(12, (os.cpu_count() or 8) - 2))

    if replay:
        with open(replay) as fh:
            rec = json.load(fh)
        print(rec["what"])
        _replay_one(run, rec["case"], stats)
        run.states = run.transitions = 1
        run.finish()

    t0 = time.time()
    from gverif.common import scratch
    from gverif.props import c01_corpus, c01_replay, c01_visibility  # noqa: F401  (loaded before the fork: every chunk runs in a fresh worker)

    c01_replay.griffe()

    plan = PLAN[tier]
    only = os.environ.get("C01_ONLY", "")            # development aid: C01_ONLY=small restricts the run to the defect domains
    if only:
        plan = dict(plan, checks=[("DefectDomains", 4, "2g")])
    with scratch("c01-main-") as tmpdir, ctx.Pool(nproc, maxtasksperchild=1) as pool, ThreadPoolExecutor(max_workers=4 if tier == "quick" else 2) as tpool:
        # -- code -> spec: event traces of real files (does not depend on TLC: start at once) ---------------------
        files = corpus_files(tier)
        corpus_async = [pool.apply_async(_w_corpus, (ch,)) for ch in _chunks(files, 6)]
        # -- spec -> code: TLC enumerates, every printed program goes to the worker pool as soon as it is parsed ----
        pending = []
        seen = set()
        buf = []
        lock = __import__("threading").Lock()

        def flush():
            if buf:
                pending.append(pool.apply_async(_w_replay, (list(buf),)))
                buf.clear()

        def on_case(case):
            with lock:
                key = json.dumps(case["prog"])
                stats["cases:" + case["dom"]] += 1
                if key in seen:
                    stats["duplicates-across-domains"] += 1
                else:
                    seen.add(key)
                    i = len(seen)
                    variants = (0, 1, 2) if case["dom"] in plan["three_spellings"] else ((i + len(case["prog"])) % 3,)
                    c = dict(case)
                    if case.get("mod") == "init":      # the program is a package's __init__.py: only meaningful loaded from disk
                        buf.append((c, variants[0], "loadinit"))
                    else:
                        for v in variants:
                            buf.append((c, v, "visit"))
                        if i % 7 == 0:
                            buf.append((c, (i // 7) % 3, "load"))
                    if len(buf) >= 200:
                        flush()
                case.clear()      # tlc.run keeps every record: drop the payload, the pool has its copy

        jobs = {}
        for domains, workers, heap in plan["checks"][:1]:
            jobs[tpool.submit(tlc.run, "Visitor", "Visitor_domains.cfg", workers=workers, constants={"DOMAINS": domains}, timeout=6000, heap=heap, on_line=on_case)] = ("check", domains, None)
        for invs in plan["strict"]:
            jobs[tpool.submit(tlc.run, "Visitor", "Visitor_defect.cfg", workers=1, constants={"INVS": "\n".join("INVARIANT " + i for i in invs)}, timeout=900, heap="1g", dump_trace=True)] = ("strict", "+".join(invs), invs)
        if plan["coverage"]:
            jobs[tpool.submit(tlc.run, "Visitor", "Visitor_check.cfg", workers=2, constants=dict(LEN=2, DEPTH=1, NAMES='{"f", "g"}', ALPHA="AlphaAll", EMIT="FALSE"), timeout=900, heap="1g", coverage=True)] = ("coverage", "all", None)
        jobs[tpool.submit(tlc.run, "Visibility", "Visibility_check.cfg", workers=1, timeout=600, heap="1g")] = ("vis", "check", None)
        # -- recorded traces -> TLC (VisitorTrace.tla accepts or rejects each one with the acceptor shared with Visitor.tla) --
        corpus_results = [x for a in corpus_async for x in a.get()]
        print(f"  [{time.time() - t0:5.1f}s] corpus sweep done ({len(corpus_results)} files)", flush=True)
        budget = 15000 if tier == "quick" else 600000
        sampled = []
        for res in sorted((r for r in corpus_results if r["status"] == "visited" and r["events"] >= 3), key=lambda r: (r["events"] > 600, r["path"])):
            if budget - res["events"] < 0:
                continue
            budget -= res["events"]
            sampled.append(res)
        trace_file = os.path.join(tmpdir, "traces.ndjson")
        with open(trace_file, "w") as fh:
            for res in sampled:
                fh.write(json.dumps({"id": res["path"], "ev": [{"e": e, "o": o, "p": p, "c": c} for e, o, p, c in res["trace"]]}) + "\n")
        for res in corpus_results:
            res.pop("trace", None)
        jobs[tpool.submit(tlc.run, "VisitorTrace", "VisitorTrace.cfg", workers=1, timeout=3000, heap="2g", env={"C01_TRACES": trace_file})] = ("trace", "corpus", sampled)
        for domains, workers, heap in plan["checks"][1:]:      # the other big enumeration(s) last: at most two TLC processes at a time in the thorough tier
            jobs[tpool.submit(tlc.run, "Visitor", "Visitor_domains.cfg", workers=workers, constants={"DOMAINS": domains}, timeout=6000, heap=heap, on_line=on_case)] = ("check", domains, None)
        rows_async = []
        defect_cases = []
        for fut in as_completed(jobs):
            kind, label, extra = jobs[fut]
            res = fut.result()
            print(f"  [{time.time() - t0:5.1f}s] TLC {kind}:{label} {res.module} states={res.distinct} cases={len(res.cases)} wall={res.wall_s:.1f}s violated={res.violated}", flush=True)
            if kind == "check":
                tlc.must(res, allow_violations=True)
                run.add_tlc(res)
                if res.violated:
                    print(res.tail)
                    die(f"C01: Visitor.tla violates {res.violated} on programs without the named hazards ({label}): the model or the reference is wrong")
                if not res.cases:
                    die(f"C01: {label} produced no case")
                with lock:
                    flush()
                res.cases = []
            elif kind == "coverage":
                tlc.must(res)
                run.add_tlc(res)
                dead = [a for a in ACTIONS if res.coverage.get(a, (0, 0))[1] == 0]
                if dead:
                    die(f"C01: vacuous model: actions never taken in the union alphabet {dead}")
            elif kind == "strict":
                tlc.must(res, allow_violations=True)
                run.add_tlc(res)
                if not res.violated or not res.trace:
                    die(f"C01: with Strict = TRUE the model no longer exhibits any of the known defects behind {label} (violated: {res.violated})")
                defect_cases.append((res.violated[0], CLAUSE_OF.get(res.violated[0]), _case_from_state(res.trace[-1])))
            elif kind == "vis":
                tlc.must(res)
                run.add_tlc(res)
                if len(res.cases) < 1000:
                    die(f"C01: Visibility.tla enumerated only {len(res.cases)} rows")
                for cls in ("empty-all", "no-parent"):      # the rows behind the two fixed deviations are still enumerated
                    if not any(cls in row["class"] for row in res.cases):
                        die(f"C01: Visibility.tla enumerates no row of class {cls}")
                for ch in _chunks(res.cases, 200):
                    rows_async.append(pool.apply_async(_w_rows, (ch,)))
            elif kind == "trace":
                tlc.must(res)
                run.add_tlc(res)
                verdicts = {c["id"]: c for c in res.cases}
                if len(verdicts) != len(extra):
                    die(f"C01: VisitorTrace.tla gave {len(verdicts)} verdicts for {len(extra)} recorded traces")
                for r_ in extra:
                    v = verdicts[r_["path"]]["verdict"]
                    stats["traces-by-tlc:" + ("accepted" if v == "ok" else v)] += 1
                    if (v == "ok") != (not r_["protocol"]) or (v != "ok" and v not in r_["protocol"]):
                        die(f"C01: the acceptor of EventProtocol.tla says {v!r} on the trace of {r_['path']}, the harness's protocol check says {r_['protocol']}")
        # -- collect ---------------------------------------------------------------------------------------------------
        print(f"  [{time.time() - t0:5.1f}s] all TLC jobs done, {len(pending)} replay chunks submitted", flush=True)
        for a in pending:
            _absorb(run, a.get(), stats, "domains")
        print(f"  [{time.time() - t0:5.1f}s] replay done", flush=True)
        # model-predicted defects: TLC's counterexamples, replayed on the real code
        from gverif.props import c01_replay as R

        for inv, clause, case in defect_cases:
            hit = False
            for variant in (0, 1):
                res = R.replay_case(case, variant, "visit")
                if res["machinery"]:
                    die("C01 (counterexample replay): " + res["machinery"])
                _absorb(run, [(case["prog"], variant, "visit", case["hz"], res, {"case": case, "history": []})], stats, "strict:" + inv)
                hit = hit or any(sig["clause"] == clause for sig, _ in res["violations"])
            stats["strict-counterexamples"] += 1
            if clause and not hit:
                run.note(f"model drift: Visitor.tla (Strict) predicts a violation of {inv} on {case['prog']}, the real code does not show it (fixed in the working tree?)")
        _absorb_rows(run, [x for a in rows_async for x in a.get()], stats)
        _absorb_corpus(run, corpus_results, stats, len(files))
        print(f"  [{time.time() - t0:5.1f}s] rows and corpus done", flush=True)
    run.exhaustive = True
    # vacuity on the binding side: every statement form, every hazard class and the crash path were reached by replayed programs
    if len(stats["pairs"]) < (12 if only else 53):
        die(f"C01: the replayed programs use only {len(stats['pairs'])} statement forms: vacuous")
    stats["pairs"] = len(stats["pairs"])
    run.extra["c01"] = {k: v for k, v in sorted(stats.items())}
    for need in ("hz:init-local", "hz:label-inherit", "tc-guarded-programs", "model-exhibits:members", "model-exhibits:labels"):
        if not stats[need]:
            die(f"C01: no replayed program with {need}: vacuous")
    print("C01 stats:", json.dumps(run.extra["c01"]))
    print(f"C01 phases: total {time.time() - t0:.1f}s")
    run.finish()


def _absorb_rows(run: Run, results, stats):
    for row, res in results:
        run.evaluated()
        run.replayed()
        stats["rows"] += 1
        key = {k: row[k] for k in ("public", "kind", "nameclass", "parent", "exports", "imported", "runtime")}
        run.nontrivial_case("row:" + json.dumps(key, sort_keys=True))
        if res.get("machinery"):
            die("C01 (visibility): " + res["machinery"])
        for pred, got in res["real"].items():
            want, model = row["doc"][pred], row["impl"][pred]
            if got != want:
                cause = "+".join(sorted(h for h in row["class"] if (h == "empty-all" and pred == "public") or (h == "no-parent" and pred in ("exported", "wildcard")))) or "none"
                stats[f"viol:vis-{pred}:{cause}"] += 1
                run.violation({"part": "visibility", "clause": "visibility", "pred": pred, "cause": cause},
                              f"is_{pred if pred != 'wildcard' else 'wildcard_exposed'} = {got} but the documented table gives {want} for {key}", {"kind": "row", "row": row})
            elif got != model:
                stats["drift-vis"] += 1
                if stats["drift-vis"] <= 3:
                    run.note(f"model drift (visibility): {pred} real {got} model {model} for {key}")
        for text in res.get("notes", []):
            stats["vis-note:" + text] += 1


def _absorb_corpus(run: Run, results, stats, nfiles):
    for res in results:
        stats["corpus:" + res["status"]] += 1
        if res["status"] != "visited":
            continue
        run.evaluated()
        run.replayed()
        stats["corpus-events"] += res["events"]
        stats["corpus-objects"] += res["objects"]
        if res["events"] > 20:
            run.nontrivial_case("file:" + res["path"])
        for sig, what in res["violations"]:
            stats["viol:corpus-" + sig["clause"] + ":" + sig["cause"]] += 1
            run.violation(sig, what, {"kind": "file", "path": res["path"]})
    if stats["corpus:visited"] < min(100, nfiles // 2):
        die(f"C01: corpus sweep visited only {stats['corpus:visited']} of {nfiles} files")


def _replay_one(run: Run, case: dict, stats):
    from gverif.props import c01_corpus as C
    from gverif.props import c01_replay as R
    from gverif.props import c01_visibility as V

    if case["kind"] == "file":
        _absorb_corpus(run, [C.sweep_file(case["path"])], stats, 0)
    elif case["kind"] == "row":
        _absorb_rows(run, [(case["row"], V.evaluate_row(case["row"]))], stats)
    else:
        # the stored case carries the spec's expected values (reference, Impl state, events) as TLC printed them
        c = case["case"]
        for prog, v, m in case.get("history") or []:
            # the visits that preceded the case in its worker process (only visited: their verdicts were given in their own right)
            R.visit_only(prog, v, m)
        _absorb(run, [(c["prog"], case["variant"], case["mode"], c["hz"], R.replay_case(c, case["variant"], case["mode"]), {"case": c, "history": case.get("history")})], stats, case.get("domain", "replay"))
