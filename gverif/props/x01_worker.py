"""X01 - child process: materialises the world, runs the REAL load_extensions / Extensions on abstract cases read from a
JSON file and writes the projected observations back.  Usage: python -m gverif.props.x01_worker <root> <in.json> <out.json>

Only public observations decide: the exception type / message, what `Extensions.call` makes the loaded extensions do
(`on_node` with a list as node collects the instances in call order; `on_package_loaded` on a freshly visited dataclass
module tells whether and when the built-in dataclasses extension runs), `sys.modules`, `sys.path`, the working directory.
The private `_extensions` list is read only as an optional tap (count of built-in instances -> note, never a verdict).
"""
from __future__ import annotations

import importlib
import json
import os
import sys
from pathlib import Path

from gverif.common import ensure_repo
from gverif.props import x01_world as W

griffe = ensure_repo()


class Inst(griffe.Extension):
    X01 = "inst"

    def on_node(self, *, node, agent, **kwargs):
        node.append(self)

    def on_package_loaded(self, *, pkg, loader, **kwargs):
        self.x01_dc_done = "__init__" in pkg["D"].members


def _direct_classes():
    ns = {"Extension": griffe.Extension}
    out = {}
    for init in W.INIT_SRC:
        exec(compile(W.class_src("A", init), "<x01>", "exec", dont_inherit=True), ns)  # noqa: S102
        out[init] = ns["A"]
    return out


DIRECT = _direct_classes()


def project_container(exts) -> dict:
    """Public projection of an Extensions container: [[cls, opts] ...] with "DC" where the built-in extension runs."""
    sink: list = []
    try:
        exts.call("on_node", node=sink, agent=None)
    except Exception as exc:  # noqa: BLE001
        return {"kind": "ok", "exts": [["garbage", "-"]], "probe": f"{type(exc).__name__}: {exc}"}
    mod = griffe.visit("x01dc", filepath=Path("x01dc.py"), code=W.DATACLASS_SRC)
    for e in sink:
        e.x01_dc_done = None
    try:
        exts.call("on_package_loaded", pkg=mod, loader=None)
    except Exception as exc:  # noqa: BLE001
        return {"kind": "ok", "exts": [["garbage", "-"]], "probe": f"{type(exc).__name__}: {exc}"}
    active = "__init__" in mod["D"].members
    out, emitted = [], False
    for e in sink:
        if getattr(e, "x01_dc_done", None) and not emitted:
            out.append(["DC", "empty"])
            emitted = True
        out.append([getattr(e, "X01", type(e).__name__), "-" if isinstance(e, Inst) else W.opts_shape(getattr(e, "x01_opts", {}))])
    if active and not emitted:
        out.append(["DC", "empty"])
    res = {"kind": "ok", "exts": out, "ids": [id(e) for e in sink]}
    tap = getattr(exts, "_extensions", None)           # optional tap, never decides
    if isinstance(tap, list):
        res["tap_dc"] = sum(1 for e in tap if type(e) is griffe.DataclassesExtension)
        res["tap_len"] = len(tap)
    return res


def run_load(c: dict, root: str, baseline: set) -> dict:
    conc = W.concretise(c, root)
    inst = None
    if c["form"] == "instance":
        inst = value = griffe.DataclassesExtension() if c["init"] == "builtin" else Inst()
    elif c["form"] == "class":
        value = griffe.DataclassesExtension if c["init"] == "builtin" else DIRECT[c["init"]]
    elif c["form"] == "emptydict":
        value = {}
    else:
        value = W.spec_value(c, conc)
    os.chdir(conc["cwd"])
    if conc["victim"]:
        importlib.import_module(conc["victim"])
    before = dict(sys.modules)
    path0, pathcopy, cwd0 = sys.path, list(sys.path), os.getcwd()
    try:
        exts = griffe.load_extensions(value)
    except griffe.ExtensionNotLoadedError as exc:
        real = {"kind": "enle", "msg": W.classify_message(str(exc)), "text": str(exc)[:300]}
    except BaseException as exc:  # noqa: BLE001
        real = {"kind": "raise", "exc": type(exc).__name__, "text": str(exc)[:300]}
    else:
        real = project_container(exts)
        if inst is not None and c["init"] != "builtin":
            real["same_instance"] = real.get("ids") == [id(inst)]
    real["clobbered"] = sorted(k for k, v in before.items() if sys.modules.get(k) is not v)
    real["env_ok"] = sys.path is path0 and list(sys.path) == pathcopy and os.getcwd() == cwd0
    real["spec"] = repr(value)[:200]
    real["cwd"] = os.path.relpath(conc["cwd"], root)
    real["written"], real["name"], real["path"] = conc["text"], conc["name"], conc["path"]
    for k in [k for k in sys.modules if k not in baseline]:
        del sys.modules[k]
    return real


def main(root: str, inp: str, outp: str):
    with open(inp) as fh:
        job = json.load(fh)
    W.build(root, job.get("max_def", 2))
    sys.path.insert(0, os.path.join(root, "site"))
    importlib.invalidate_caches()
    griffe.visit("x01warm", filepath=Path("x01warm.py"), code=W.DATACLASS_SRC)
    griffe.load_extensions()
    baseline = set(sys.modules)
    out = {"load": [], "dispatch": [], "visit": []}
    for c in job.get("load", []):
        out["load"].append(run_load(c, root, baseline))
    if job.get("dispatch"):
        from gverif.props import x01_dispatch  # noqa: PLC0415

        os.chdir(os.path.join(root, "cwd"))
        for h in job["dispatch"]:
            out["dispatch"].append(x01_dispatch.run_history(griffe, h, root))
            for k in [k for k in sys.modules if k not in baseline]:
                del sys.modules[k]
    if job.get("visit"):
        from gverif.props import x01_visit  # noqa: PLC0415

        out["visit"] = [x01_visit.run_case(griffe, c) for c in job["visit"]]
    with open(outp, "w") as fh:
        json.dump(out, fh)


if __name__ == "__main__":
    main(*sys.argv[1:4])
