"""Helpers of the C11 driver: rendering of abstract package versions (spec/DiffTree.tla) to files, loading
with the real loader, projection of the real breakages, the clauses of the property on the real output,
the git repository builder for the command-line clause.

Abstract vocabulary: a version is the record of DiffTree.tla (kind/val per definition id, opt, kbase, imp,
ext, cyc, hasRall/rall, hasMall/mall); paths are tuples of names where the defining module is "M"
(rendered `mod` or `_mod` according to the case's `mpriv`); a breakage is (BreakageKind name, path).
"""
from __future__ import annotations

import json
import os
import re
import subprocess
from pathlib import Path

from gverif.common import PY, child_env, die

IMPORT_ORDER = ["K", "f", "x"]
MALL_ORDER = ["B", "K", "f", "x", "n"]
RALL_ORDER = ["K", "f", "x", "ext", "cyc", "mal"]


def modname(mpriv: bool) -> str:
    return "_mod" if mpriv else "mod"


# ---- probe: does the finder skip cyclic re-exports? (public behaviour only, no private name is read) ----------
CATCH_NOTES: list = []


def catches_cyclic() -> bool:
    """Diff a tiny package holding a public cyclic re-export with itself: TRUE when find_breaking_changes
    returns, FALSE when the cycle escapes as an exception (value of the model constant CatchCyclic)."""
    import griffe  # noqa: PLC0415

    from gverif.common import scratch  # noqa: PLC0415

    files = {"pkg/__init__.py": 'from pkg.mod import cyc\n__all__ = ["cyc"]\n', "pkg/mod.py": "from pkg import cyc\n"}
    with scratch("c11-probe-") as d:
        try:
            pkgs = []
            for sub in ("o", "n"):
                write_files(os.path.join(d, sub), files)
                pkgs.append(griffe.load("pkg", search_paths=[os.path.join(d, sub)], resolve_aliases=True))
        except Exception as exc:  # noqa: BLE001
            die(f"C11: cannot load the probe package with a cyclic re-export ({exc!r})")
        try:
            list(griffe.find_breaking_changes(*pkgs))
        except Exception as exc:  # noqa: BLE001
            if type(exc).__name__ != "CyclicAliasError":
                CATCH_NOTES.append(f"probe of a cyclic re-export raised {type(exc).__name__} (not CyclicAliasError); the model assumes the cycle escapes")
            return False
    return True


def base_rule() -> str:
    """Probe (public API) of the base-class test: does replacing one base by another count as a removal?
    "missing" when `class K(int)` -> `class K(str)` is reported CLASS_REMOVED_BASE, else "shorter"."""
    import griffe  # noqa: PLC0415

    try:
        mods = [griffe.visit("m", filepath=Path("m.py"), code=f"class K({b}):\n    pass\n") for b in ("int", "str")]
        kinds = {b.kind.name for b in griffe.find_breaking_changes(*mods)}
    except Exception as exc:  # noqa: BLE001
        die(f"C11: probing the base-class rule failed ({exc!r})")
    return "missing" if "CLASS_REMOVED_BASE" in kinds else "shorter"


# ---- concretisation -----------------------------------------------------------------------------------------
def _val(v: dict, d: str) -> str:
    return "1" if v["val"][d] == "v1" else "2"


def _member(v: dict, d: str, name: str, method: bool) -> list:
    k = v["kind"][d]
    selfarg = "self" if method else ""
    if k == "function":
        params = [p for p in [selfarg, "a" if d == "f" else ""] if p]
        if d in ("f", "bm"):      # FSig of DiffTree.tla: (a, *, [opt=None,] k=1) - the added parameter goes in front of k
            params += ["*"] + (["opt=None"] if d in v["opt"] else []) + ["k=1"]
        ret = " -> int" if d in v.get("ret", ()) else ""
        return [f"def {name}({', '.join(params)}){ret}: ..."]
    if k == "attribute":
        return [f"{name}: int" if v["val"][d] == "unset" else f"{name} = {_val(v, d)}"]
    return []


SIB = "zapi"


def site_of(v: dict) -> str:
    return v.get("site", "root")


def k_bases(v: dict) -> str:
    bases = (["B"] if v["kbase"] else []) + (["LookupError"] if v.get("kext") else [])
    return f"({', '.join(bases)})" if bases else ""


def render(v: dict, mpriv: bool) -> dict:
    """Files of one version: {relative path: text}. The re-export statements live in pkg/__init__.py
    (site "root") or in the public sibling module pkg/zapi.py (site "sib", pkg/__init__.py empty)."""
    mod = modname(mpriv)
    sib = site_of(v) == "sib"
    init = [f"from pkg.{mod} import {n}" for n in IMPORT_ORDER if n in v["imp"]]
    vend = v.get("vend", ())
    if v["ext"] and "ext" not in vend:
        init.append("from extlib import ext")
    if v["cyc"] and "cyc" not in vend:
        init.append(f"from pkg.{mod} import cyc")
    if v.get("mal"):
        init.append(f"import pkg.{mod} as mal")
    if v["hasRall"]:
        init.append("__all__ = [" + ", ".join(f'"{n}"' for n in RALL_ORDER if n in v["rall"]) + "]")
    init += [f"{n} = 1" for n in ("ext", "cyc") if n in vend]      # the re-export replaced by a local definition
    text = "\n".join(init) + "\n" if init else ""
    files = {"pkg/__init__.py": "", f"pkg/{SIB}.py": text} if sib else {"pkg/__init__.py": text}
    if v["kind"]["M"] == "absent":
        return files
    m = []
    if v["cyc"]:
        m.append(f"from pkg.{SIB} import cyc" if sib else "from pkg import cyc")
    if v["hasMall"]:
        m.append("__all__ = [" + ", ".join(f'"{n}"' for n in MALL_ORDER if n in v["mall"]) + "]")
    for cls, base, members in (("B", "", [("bm", "bm"), ("Bn", "n")]), ("K", k_bases(v), [("km", "km"), ("kp", "_kp"), ("Kn", "n")])):
        k = v["kind"][cls]
        if k == "class":
            body = [ln for d, name in members for ln in _member(v, d, name, True)]
            m.append(f"class {cls}{base}:")
            m += ["    " + ln for ln in (body or ["pass"])]
        elif k == "function":
            m.append(f"def {cls}(): ...")
        elif k == "attribute":
            m.append(f"{cls} = 1")
    for d, name in (("f", "f"), ("x", "x"), ("p", "_p"), ("n", "n")):
        m += _member(v, d, name, False)
    files[f"pkg/{mod}.py"] = "\n".join(m) + "\n"
    return files


def write_files(root: str, files: dict):
    for rel, text in files.items():
        path = os.path.join(root, rel)
        os.makedirs(os.path.dirname(path), exist_ok=True)
        with open(path, "w") as fh:
            fh.write(text)


def check_compiles(files: dict):
    for rel, text in files.items():
        try:
            compile(text, rel, "exec", dont_inherit=True)
        except SyntaxError as exc:
            die(f"C11: renderer produced invalid Python in {rel}: {exc!r}\n{text}")


def expected_members(v: dict) -> dict:
    """Names of the members the loader must find (sanity of the renderer against the model's tree)."""
    present = lambda d: v["kind"][d] != "absent"  # noqa: E731
    vend = v.get("vend", ())
    imports = ([n for n in IMPORT_ORDER if n in v["imp"]] + (["ext"] if v["ext"] and "ext" not in vend else []) + (["cyc"] if v["cyc"] and "cyc" not in vend else [])
               + (["mal"] if v.get("mal") else []) + (["__all__"] if v["hasRall"] else []) + [n for n in ("ext", "cyc") if n in vend])
    sib = site_of(v) == "sib"
    out = {"": ([] if sib else imports) + (["M"] if present("M") else []) + ([SIB] if sib else [])}
    if sib:
        out[SIB] = imports
    if present("M"):
        names = {"B": "B", "K": "K", "f": "f", "x": "x", "p": "_p", "n": "n"}
        out["M"] = (["cyc"] if v["cyc"] else []) + (["__all__"] if v["hasMall"] else []) + [names[d] for d in ("B", "K", "f", "x", "p", "n") if present(d)]
        if v["kind"]["B"] == "class":
            out["M.B"] = [n for d, n in (("bm", "bm"), ("Bn", "n")) if present(d)]
        if v["kind"]["K"] == "class":
            out["M.K"] = [n for d, n in (("km", "km"), ("kp", "_kp"), ("Kn", "n")) if present(d)]
    return out


def load_version(griffe, root: str, v: dict, mpriv: bool):
    files = render(v, mpriv)
    check_compiles(files)
    write_files(root, files)
    pkg = griffe.load("pkg", search_paths=[root], resolve_aliases=True)
    mod = modname(mpriv)
    for where, names in expected_members(v).items():
        obj = pkg if not where else pkg[where.replace("M", mod, 1) if where != SIB else SIB]
        got = list(obj.members)
        want = [mod if (not where and n == "M") else n for n in names]
        if got != want:
            die(f"C11: loaded tree differs from the model's tree at pkg.{where}: members {got}, expected {want}\n{json.dumps(files, indent=1)}")
    return pkg


# ---- the real finder ---------------------------------------------------------------------------------------------
def to_abstract(path: str, mpriv: bool) -> tuple:
    parts = path.split(".")
    if len(parts) > 1 and parts[1] == modname(mpriv):
        parts[1] = "M"
    return tuple(parts)


def real_report(griffe, old_pkg, new_pkg, mpriv: bool, styles) -> tuple:
    """(set of (kind, abstract path), name of the escaped exception or "no", [explain failures])."""
    out = set()
    bad_explain = []
    try:
        breakages = list(griffe.find_breaking_changes(old_pkg, new_pkg))
    except Exception as exc:  # noqa: BLE001
        return out, type(exc).__name__, bad_explain
    for b in breakages:
        out.add((b.kind.name, to_abstract(b.obj.path, mpriv)))
        for style in styles:
            try:
                text = b.explain(style)
                if not isinstance(text, str) or not text:
                    bad_explain.append((b.kind.name, style.value, "empty"))
            except Exception as exc:  # noqa: BLE001
                bad_explain.append((b.kind.name, style.value, type(exc).__name__))
    return out, "no", bad_explain


# ---- the clauses of the property on the real output --------------------------------------------------------------
def describe(case: dict) -> str:
    v = case["old"]
    return (f"pkg/{modname(case['mpriv'])}.py, re-exports in {'pkg/zapi.py' if site_of(v) == 'sib' else 'pkg/__init__.py'}, __all__ site={sorted(v['rall']) if v['hasRall'] else None} mod={sorted(v['mall']) if v['hasMall'] else None}, "
            f"re-exports {sorted(v['imp'])}{' +dangling' if v['ext'] else ''}{' +cyclic' if v['cyc'] else ''}{' +import-as' if v.get('mal') else ''}, K{k_bases(v)}; edits: "
            + (", ".join(f"{e['op']}({e['id']})" for e in case["log"]) or "none"))


def reexport_class(v: dict) -> str:
    pub = v["hasRall"]
    if v["cyc"] and pub:
        return "cyclic-exported"
    if v["ext"] and pub:
        return "dangling-exported"
    if v["cyc"] or v["ext"]:
        return "not-exported"
    return "none"


def via_of(ob: dict) -> str:
    """How the edited object is public: only through a re-export of pkg/__init__, only as a member inherited
    by K from a non-public base, or directly below the defining module."""
    under_m = [p for p in ob["paths"] if len(p) > 1 and p[1] == "M"]
    if not under_m:
        return "reexport"
    if ob["id"] in ("bm", "Bn") and all(len(p) > 2 and p[2] == "K" for p in under_m):
        return "inherited"
    return "direct"


def judge(case: dict, real: set, aborted: str, bad_explain: list) -> tuple[list, bool]:
    """Violations [(sig, what)] of C11 by the real output, and whether it differs from the model's Report (drift)."""
    out = []
    desc = describe(case)
    ops = "+".join(sorted(e["op"] for e in case["log"])) or "identical"
    model = {(k, tuple(p)) for k, p in case["out"]}
    drift = (aborted != case["aborted"]) or (aborted == "no" and real != model)
    # (iv) unresolvable / cyclic re-exports are skipped instead of aborting the comparison
    if aborted != "no":
        out.append(({"clause": "iv-no-abort", "exception": aborted, "reexport": reexport_class(case["old"])},
                    f"find_breaking_changes aborted with {aborted} on {desc}"))
        return out, drift
    shown = sorted((k, ".".join(p)) for k, p in real)
    # (i) identical copy / compatible edits / edits of private objects => nothing reported
    if case["allcompat"] and real:
        out.append(({"clause": "i-compatible-silent", "ops": ops, "kind": shown[0][0]}, f"only compatible or private edits, yet reported {shown} on {desc}"))
    # (ii) every incompatible edit of a publicly reachable object is reported against one of its public paths
    for ob in case["oblig"]:
        if not ob["public"] or ob["masked"]:
            continue
        strict = any((ob["kind"], tuple(p)) in real for p in ob["paths"])
        if strict:
            continue
        lenient = any((ob["kind"], tuple(p)) in real for p in ob["lenient"])
        via = via_of(ob)
        if lenient:
            out.append(({"clause": "ii-public-path", "op": ob["op"], "via": via},
                        f"{ob['op']}({ob['id']}) is reported, but only against a non-public path (public paths {['.'.join(p) for p in ob['paths']]}, reported {shown}) on {desc}"))
        else:
            out.append(({"clause": "ii-reported", "op": ob["op"], "via": via, "base_swap": bool(ob.get("swap"))},
                        f"{ob['op']}({ob['id']}) of a public object is not reported as {ob['kind']} (public paths {['.'.join(p) for p in ob['paths']]}, reported {shown}) on {desc}"))
    # (iii) nothing reported on private or imported-but-not-exported objects
    ok = {tuple(p) for p in case["okpaths"]}
    for k, p in sorted(real):
        if p not in ok:
            out.append(({"clause": "iii-private-silent", "kind": k}, f"{k} reported on {'.'.join(p)}, which is private / imported-but-not-exported, on {desc}"))
    # Breakage.explain(style) never raises
    for kind, style, exc in bad_explain:
        out.append(({"clause": "explain", "style": style, "kind": kind}, f"Breakage.explain({style}) of a {kind} breakage failed with {exc} on {desc}"))
    return out, drift


# ---- command-line clause: git repository, old = tag, new = work tree -----------------------------------------------
def _git(cwd: str, *args):
    proc = subprocess.run(["git", "-c", "user.name=verif", "-c", "user.email=verif@example.invalid", "-c", "commit.gpgsign=false", *args], cwd=cwd, capture_output=True, text=True, check=False)
    if proc.returncode != 0:
        die(f"C11: git {' '.join(args)} failed: {proc.stderr[-500:]}")
    return proc


def cli_check(repo: str, case: dict, mode: str) -> dict:
    """Build the repository (old committed and tagged v1, new in the work tree) and run the check command."""
    mpriv = case["mpriv"]
    write_files(repo, render(case["old"], mpriv))
    _git(repo, "init", "-q", "-b", "main")
    _git(repo, "add", "-A")
    _git(repo, "commit", "-q", "-m", "old")
    _git(repo, "tag", "v1")
    for name in (modname(mpriv), SIB):
        modfile = os.path.join(repo, "pkg", name + ".py")
        if os.path.exists(modfile):
            os.remove(modfile)
    write_files(repo, render(case["new"], mpriv))
    if mode == "cli":
        cmd = [PY, "-m", "griffe", "check", "pkg", "-s", ".", "-a", "v1"]
    else:
        cmd = [PY, "-c", "import sys, griffe; sys.exit(griffe.check('pkg', 'v1', search_paths=['.']))"]
    proc = subprocess.run(cmd, cwd=repo, env=child_env(PYTHONDONTWRITEBYTECODE="1"), capture_output=True, text=True, check=False, timeout=120)
    lines = [ln for ln in proc.stderr.splitlines() if ln.strip()]
    crashed = "Traceback (most recent call last)" in proc.stderr
    exc = "no"
    if crashed:
        names = re.findall(r"^([A-Za-z_][\w.]*(?:Error|Exception))\b", proc.stderr, flags=re.M)
        exc = names[-1].split(".")[-1] if names else "unknown"
    return {"rc": proc.returncode, "crashed": crashed, "exception": exc, "lines": 0 if crashed else len(lines), "stderr": proc.stderr[-600:]}
