"""C07 - method resolution order and inherited members equal CPython's.

TLC: spec/C3.tla.  A case is a class hierarchy (ordered base lists, module layout, member placement);
the spec runs a statement-level transcription of Class._mro / c3linear_merge / inherited_members /
all_members and checks it against the C3 rule of the language reference (PyLin/PyMerge, and declaratively
ExistsExt) and against attribute look-up through the MRO (PyGetattr).  Every final state is printed as a
CASE and bound to the code:
   real Griffe  vs  spec reference (ref, attr)   -> the property on the code        (VIOLATION)
   real Griffe  vs  spec Impl (mro, inh, why)    -> conformance of the model        (drift note)
   real CPython vs  spec reference               -> validity of the reference model (exit 2 when different)
Hierarchies that can reach a cycle cannot be executed by CPython: there the reference stands alone and the
check is "mro() raises ValueError (no loop, no order)".  Forward references are executed by CPython with the
class statements reordered (the MRO depends on the graph only); Griffe sees them in the written order.
"""
from __future__ import annotations

import json
import multiprocessing
import os
import random
import subprocess
import time
from concurrent.futures import ThreadPoolExecutor

from gverif import tlc
from gverif.common import PY, SEED, child_env, die, ensure_repo, scratch
from gverif.harness import Run, matches
from gverif.props import c07_bind as B

# The case spaces (mirror of QuickJobs / ThoroughJobs / SimJobs in spec/C3.tla; used to assert that TLC
# emitted exactly the whole space): name -> (n, maxb, domain, number of member names, number of layouts)
ONE, SPLIT, SPELL, DEEP = ["one"], ["from", "as", "attr", "chain", "chain2"], ["sub", "nest"], ["nest2", "nest2d"]
JOBS = {
    "quick": {"dag5": (5, 3, "dag", 0, ONE), "dag4x": (4, 3, "dag", 0, ONE), "dag4": (4, 3, "dag", 1, ONE), "dag3": (3, 3, "dag", 2, ONE), "free3": (3, 3, "free", 0, ONE),
              "free3m": (3, 2, "free", 1, ONE), "self2": (2, 3, "self", 1, ONE), "split4": (4, 3, "dag", 0, SPLIT), "split3": (3, 3, "dag", 1, SPLIT),
              "splitfree3": (3, 2, "free", 0, SPLIT), "spell4": (4, 3, "dag", 0, SPELL), "spell3": (3, 3, "dag", 1, SPELL),
              "del3": (3, 3, "dag", 1, ONE, True), "ext3": (3, 3, "ext", 1, ONE), "ext4": (4, 2, "ext", 0, ONE), "imp3": (3, 3, "dag", 1, ONE, False, True), "deep3": (3, 3, "dag", 1, DEEP)},
    "thorough": {"dag5": (5, 3, "dag", 1, ONE), "dag4": (4, 3, "dag", 2, ONE), "free3": (3, 3, "free", 1, ONE), "free4": (4, 2, "free", 0, ONE),
                 "self3": (3, 2, "self", 1, ONE), "split4": (4, 3, "dag", 1, SPLIT), "splitfree3": (3, 2, "free", 1, SPLIT),
                 "spell4": (4, 3, "dag", 1, SPELL), "del4": (4, 3, "dag", 1, ONE, True), "ext4": (4, 3, "ext", 0, ONE), "ext3": (3, 3, "ext", 1, ONE), "imp4": (4, 3, "dag", 1, ONE, False, True), "imp3": (3, 3, "dag", 2, ONE, False, True), "deep4": (4, 3, "dag", 1, DEEP)},
}
SIM = (6, 3, "dag", 1, ONE)


def _lists(pool: int, maxb: int, dups: bool) -> int:
    """Number of base lists of length <= maxb over `pool` classes."""
    tot, term = 0, 1
    for k in range(maxb + 1):
        tot += term
        term *= pool if dups else max(pool - k, 0)
    return tot


def expected_hierarchies(job: tuple) -> int:
    n, maxb, dom = job[:3]
    tot = 1
    for c in range(1, n + 1):
        if dom in ("dag", "ext"):  # ext: the pool also holds the marker of an unresolvable base (at most once per list)
            tot *= _lists(c - 1 if dom == "dag" else c, maxb, False)
        else:
            tot *= _lists(n - 1 if dom == "free" else n, maxb, True)
    return tot


def expected_cases(job: tuple) -> int:
    n, nmem, layouts = job[0], job[3], job[4]
    per_layout = sum(1 if lay in ("one", "sub") else n - 1 for lay in layouts)  # split points
    dels = n * nmem if len(job) > 5 and job[5] else 1                             # one `del cls[name]` per class x name
    per_name = 3 if len(job) > 6 and job[6] else 2                               # absent / defined (/ imported) per class x name
    return expected_hierarchies(job) * per_layout * (per_name ** nmem) ** n * dels


# every action of the machine must fire somewhere in a tier (vacuity)
ACTIONS = ["Reference", "Extension", "CallMro", "MroEnter", "MroCycleCheck", "MroRecurse", "MergeStart", "MergeExhausted",
           "MergePick", "MergeFail", "Unwind", "MroFailed", "MroAllDone", "PlaceMembers", "InheritedStart", "InheritedFold",
           "InheritedReturn", "AllMembers", "DelItem"]


# ---------------------------------------------------------------------------------------------------
# worker processes.  The pool is forked *before* TLC's output is parsed (small parent image); cases travel
# to the workers in pickled chunks, so memory stays bounded by one job's case list in the parent.
_GRIFFE = None


def _work(task):
    chunk, agent = task
    griffe = _GRIFFE or ensure_repo()
    out = {"viol": [], "drift": 0, "machinery": [], "n": 0, "nontrivial": [], "kinds": {}, "sample": None}
    with scratch("c07-") as d:
        for idx, case in enumerate(chunk):
            B.normalise(case)
            msg = B.check_reference(case)
            if msg:
                out["machinery"].append(f"{msg}  [case {case_id(case)}]")
                continue
            sub = None
            if agent == "load":
                sub = os.path.join(d, str(idx))
                os.mkdir(sub)
            res = B.check_case(griffe, case, agent, sub)
            out["n"] += 1
            out["drift"] += res["drift"]
            for sig, what in res["viol"]:
                if len(out["viol"]) < 60:
                    out["viol"].append((sig, what, {"case": case, "agent": agent, "sources": res["sources"]}))
                else:
                    out["viol"].append((sig, what, None))
            for c in range(1, case["n"] + 1):
                k = B.class_kind(case, c)
                out["kinds"][k] = out["kinds"].get(k, 0) + 1
            if nontrivial(case):
                out["nontrivial"].append(case_key(case))
            if out["sample"] is None and any(len(b) > 1 for b in case["bases"]) and any(case["has"]):
                out["sample"] = {"case": case_id(case), "sources": res["sources"], "griffe": {c: v and {"mro": v["mro"], "inherited": sorted(v["inh"]) if isinstance(v["inh"], dict) else v["inh"]} for c, v in res.get("real", {}).get("classes", {}).items()}}
    return out


def case_id(case: dict) -> dict:
    return {k: case[k] for k in ("n", "domain", "bases", "layout", "cut", "has", "kind", "delop") if k in case}


def case_key(case: dict) -> str:
    d = case.get("delop") or {}
    return json.dumps([case["domain"], case["bases"], case["layout"], case["cut"], case["has"], d.get("cls", 0), d.get("name", ""), case.get("kind")])


def nontrivial(case: dict) -> bool:
    """The C3 merge has something to decide: a class with >= 2 bases, or an uncomputable class."""
    return any(len(b) > 1 for b in case["bases"]) or not all(r["ok"] for r in case["ref"])


def replay_cases(run: Run, pool, cases: list, agent: str = "visit") -> int:
    """Bind every case to the real code (in the worker pool when there is one); returns the drift count."""
    if not cases:
        return 0
    step = 500
    tasks = [(cases[lo:lo + step], agent) for lo in range(0, len(cases), step)]
    outs = map(_work, tasks) if pool is None or len(cases) < 300 else pool.imap_unordered(_work, tasks)
    drift = 0
    kinds = run.extra.setdefault("class_kinds_replayed", {})
    for out in outs:
        if out["machinery"]:
            die("C07: the spec's CPython reference disagrees with CPython: " + out["machinery"][0])
        run.evaluated(out["n"])
        run.replayed(out["n"])
        drift += out["drift"]
        for key in out["nontrivial"]:
            run.nontrivial_case(key)
        for k, v in out["kinds"].items():
            kinds[k] = kinds.get(k, 0) + v
        if out["sample"]:
            run.sample(out["sample"])
        for sig, what, case in out["viol"]:
            if case is None:  # detail capped in the worker (its siblings carry replayable cases): count only
                if not any(e.get("status") == "known" and matches(e, sig) for e in run.findings):
                    run.violations.append(None)
                continue
            run.violation(sig, what, case)
    return drift


def inspect_cases(run: Run, cases: list, children: int = 4) -> int:
    """force_inspection needs real imports: child processes (gverif.props.c07_inspect)."""
    drift = 0
    with scratch("c07i-") as d:
        procs = []
        size = (len(cases) + children - 1) // children
        for j in range(children):
            part = cases[j * size:(j + 1) * size]
            if not part:
                continue
            sub = os.path.join(d, f"p{j}")
            os.mkdir(sub)
            fin, fout = os.path.join(d, f"in{j}.json"), os.path.join(d, f"out{j}.json")
            with open(fin, "w") as fh:
                json.dump(part, fh)
            env = child_env()
            env["PYTHONDONTWRITEBYTECODE"] = "1"
            procs.append((subprocess.Popen([PY, "-m", "gverif.props.c07_inspect", fin, fout, sub], env=env, stdout=subprocess.PIPE, stderr=subprocess.STDOUT, text=True), part, fout))
        for proc, part, fout in procs:
            txt, _ = proc.communicate(timeout=3000)
            if proc.returncode != 0 or not os.path.exists(fout):
                die(f"C07: inspection child failed rc={proc.returncode}: {txt[-800:]}")
            with open(fout) as fh:
                data = json.load(fh)
            if data["machinery"]:
                die("C07: reference disagrees with the imported classes: " + data["machinery"][0])
            for r in data["results"]:
                case = part[r["i"]]
                run.evaluated()
                run.replayed()
                drift += r["drift"]
                for sig, what in r["viol"]:
                    run.violation(sig, what, {"case": case, "agent": "inspect", "sources": B.render(case, f"h{r['i']}_", guarded=True)})
    return drift


def one_per_hierarchy(cases: list, rnd: random.Random, per: int = 1) -> list:
    groups: dict = {}
    for c in cases:
        groups.setdefault(json.dumps([c["bases"], c["layout"], c["cut"]]), []).append(c)
    out = []
    for key in sorted(groups):
        g = groups[key]
        out += rnd.sample(g, min(per, len(g)))
    return out


def do_replay(run: Run, griffe, path: str):
    with open(path) as fh:
        rec = json.load(fh)
    print(rec["what"])
    stored = rec["case"]
    case, agent = B.normalise(stored["case"]), stored.get("agent", "visit")
    msg = B.check_reference(case)
    if msg:
        die("C07: the stored case's reference disagrees with CPython: " + msg)
    for name, src in B.render(case, guarded=(agent == "inspect")).items():
        print(f"# ---- {name}.py\n{src}")
    if agent == "inspect":
        inspect_cases(run, [case], children=1)
    else:
        replay_cases(run, None, [case], agent)
    run.states = run.transitions = 1
    run.finish()


def tlc_job(jobs_name: str, workers: int, **kw):
    return tlc.run("C3", "C3_jobs.cfg", workers=workers, constants={"JOBS": jobs_name}, timeout=3000, heap="6g", **kw)


def take(run: Run, res, jobs: dict, fired: dict) -> dict:
    """Check a finished TLC run and split its cases by job."""
    if res.violated:
        print(res.tail)
        die(f"C07: C3.tla violates {res.violated}: the transcription of the unchanged code disagrees with the reference on the model - "
            "reproduce on the real code before anything else (the replay decides nothing until this is understood)")
    tlc.must(res)
    run.add_tlc(res)
    by_job: dict = {name: [] for name in jobs}
    for c in res.cases:
        by_job[c["job"]].append(c)
        unfired = set(c.pop("unfired"))
        for a in ACTIONS:
            if a not in unfired:
                fired[a] = fired.get(a, 0) + 1
    res.cases = []
    for name, job in jobs.items():
        if len(by_job[name]) != expected_cases(job):
            die(f"C07: job {name}: TLC emitted {len(by_job[name])} cases, the case space has {expected_cases(job)}")
    return by_job


def main(tier: str, replay: str | None = None):
    global _GRIFFE
    griffe = _GRIFFE = ensure_repo()
    run = Run("C07", tier)
    run.rule = ("C3.tla: every hierarchy of N classes with <= MaxBases ordered bases each (dag: bases among earlier classes; free: among the other "
                "classes with duplicates -> cycles, forward references; self: also itself), x module layouts (one module; two modules with the bases reached "
                "by from-import / renamed import / module attribute / one or two re-exporting modules, every split point), x every placement of the member names "
                "over the classes. Non-trivial = the hierarchy has a class with >= 2 bases or a class CPython refuses / a cycle; distinct by (domain, bases, layout, cut, placement).")
    if replay:
        do_replay(run, griffe, replay)
    rnd = random.Random(SEED)
    jobs = JOBS[tier]
    pool = multiprocessing.get_context("fork").Pool(6 if tier == "quick" else 10)
    try:
        _run_tier(run, tier, jobs, pool, rnd)
    finally:
        pool.terminate()


def _run_tier(run: Run, tier: str, jobs: dict, pool, rnd):
    t0 = time.time()
    fired: dict = {}
    drift = 0
    split: list = []
    run.exhaustive = True
    replay_s = 0.0
    if tier == "quick":
        by_job = take(run, tlc.run("C3", "C3_quick.cfg", workers=6, timeout=3000, heap="6g"), jobs, fired)
        run.extra["tlc_wall_s"] = round(time.time() - t0, 1)
        t1 = time.time()
        for name in jobs:
            drift += replay_cases(run, pool, by_job[name], "visit")
        # the loader path (files on disk, GriffeLoader.load + resolve_aliases) on the two-module layouts
        split = rnd.sample(one_per_hierarchy(by_job["split4"] + by_job["splitfree3"] + by_job["split3"], rnd), 1500)
        drift += replay_cases(run, pool, split, "load")
        replay_s = time.time() - t1
    else:
        insp: list = []
        with ThreadPoolExecutor(max_workers=2) as tp:
            fsim = tp.submit(tlc.run, "C3", "C3_jobs.cfg", workers=2, constants={"JOBS": "SimJobs"}, simulate="num=6000", depth=4000, seed=SEED + 7, timeout=3000, heap="6g")
            order = ["dag5", "dag4", "free3", "free4", "self3", "split4", "splitfree3", "spell4", "del4", "ext4", "ext3", "imp4", "imp3", "deep4"]
            nxt = tp.submit(tlc_job, "T_" + order[0], 8)
            for i, name in enumerate(order):
                res = nxt.result()
                if i + 1 < len(order):  # TLC explores the next job while this one is replayed
                    nxt = tp.submit(tlc_job, "T_" + order[i + 1], 6)
                cases = take(run, res, {name: jobs[name]}, fired)[name]
                t1 = time.time()
                drift += replay_cases(run, pool, cases, "visit")
                if name in ("split4", "splitfree3"):
                    part = one_per_hierarchy(cases, rnd)
                    drift += replay_cases(run, pool, part, "load")
                    split += part
                replay_s += time.time() - t1
                if name == "dag5":
                    insp += one_per_hierarchy(cases, rnd, per=2)
                if name == "split4":
                    insp += one_per_hierarchy(cases, rnd)
                del cases
            res = fsim.result()
        if res.errors or res.violated:
            print(res.tail)
            die(f"C07: simulation of N=6 failed: errors={res.errors[:2]} violated={res.violated}")
        run.add_tlc(res)
        seen, uniq = set(), []
        for c in res.cases:
            c.pop("unfired", None)
            k = case_key(c)
            if k not in seen:
                seen.add(k)
                uniq.append(c)
        res.cases = []
        run.note(f"N=6 (dag, <= 3 bases): {len(uniq)} sampled hierarchies+placements of {expected_hierarchies(SIM)} hierarchies (TLC -simulate, seed {SEED + 7})")
        run.exhaustive = False  # the N=6 part is sampled; everything else is exhaustive within its bounds
        t1 = time.time()
        drift += replay_cases(run, pool, uniq, "visit")
        # dynamic analysis: every dag hierarchy of N=5 (two placements each), the two-module layouts of N=4, part of the N=6 sample
        insp += uniq[:1500]
        drift += inspect_cases(run, insp, children=6)
        replay_s += time.time() - t1
        run.extra["inspected_cases"] = len(insp)
        run.extra["tlc_wall_s"] = round(time.time() - t0 - replay_s, 1)
    never = [a for a in ACTIONS if not fired.get(a)]
    if never:
        die(f"C07: actions never taken: {never} (vacuous)")
    run.extra["cases_in_which_action_fired"] = {a: fired[a] for a in ACTIONS}
    run.extra["loader_cases"] = len(split)
    run.extra["replay_wall_s"] = round(replay_s, 1)
    if drift:
        run.note(f"{drift} observation(s) where the real code differs from the model's Impl although it satisfies the reference (model drift)")
    run.extra["drift"] = drift
    run.finish()
