"""Helpers shared by the C05 and C06 drivers (spec/PkgUniverse.tla, PyImport.tla, Alias.tla, Loader.tla).

* `render_program`  abstract package program (TLC's `prog`) -> {relative file path: source}
* `Tap`             wrappers installed in the harness process around the loader / alias functions that
                    are frames of Loader.tla (trace validation: the recorded call sequence must be the
                    sequence of frame pushes of the spec's behaviour)
* `project`         real Griffe tree -> the vocabulary of Loader.tla (`ProjS`)
* `ORACLE_SRC`      the CPython oracle (imports every module of the package in a fresh interpreter state
                    and dumps each namespace as name -> identity of the defining object)
"""
from __future__ import annotations

import json
import os

PKG_MODULES = {"p": "p/__init__.py", "p.a": "p/a.py", "p.b": "p/b.py", "p.s": "p/s/__init__.py", "p.s.c": "p/s/c.py", "p.s.t": "p/s/t/__init__.py", "q": "q/__init__.py", "r": "r/__init__.py"}
IS_PKG = {"p", "p.s", "p.s.t", "q", "r"}
NIL = {"m": "", "n": "", "l": 0}


def _relative(cur: str, target: str) -> str | None:
    """Spelling of module path `target` relative to module `cur` (None when it cannot be spelled relatively)."""
    base = cur.split(".") if cur in IS_PKG else cur.split(".")[:-1]
    tgt = target.split(".")
    common = 0
    while common < min(len(base), len(tgt)) and base[common] == tgt[common]:
        common += 1
    if common == 0:
        return None
    dots = len(base) - common + 1
    return "." * dots + ".".join(tgt[common:])


def _inc(inc: str) -> str:
    """Spelling of the spliced list: a local name, or the attribute form "@a" -> `a.__all__`."""
    return inc[1:] + ".__all__" if inc.startswith("@") else inc


def _export_item(e) -> dict:
    if isinstance(e, str):
        return {"s": e, "e": False}
    par = getattr(e, "parent", None)
    if getattr(e, "name", None) == "__all__" and par is not None and hasattr(par, "name") and not hasattr(par, "members"):
        return {"s": "@" + par.name, "e": True}          # unexpanded `b.__all__`
    return {"s": getattr(e, "name", str(e)), "e": True}


def render_stmt(cur: str, s: dict) -> str:
    op = s["op"]
    if op == "def":
        # one line; a docstring and a signature so that "a resolved alias presents its target's docstring / signature" is not vacuous
        return f"def {s['n']}(a, b=1): 'doc of {cur}.{s['n']}'"
    if op in ("from", "star"):
        src = s["m"]
        if s["rel"]:
            rel = _relative(cur, src)
            if rel is None:
                raise ValueError(f"cannot spell {src} relative to {cur}")
            src = rel
        if op == "star":
            return f"from {src} import *"
        if s["rel"] and src.strip(".") == "":
            pass  # `from . import n`
        return f"from {src} import {s['n']}" + (f" as {s['as']}" if s["as"] else "")
    if op == "import":
        return f"import {s['m']}" + (f" as {s['as']}" if s["as"] else "")
    if op == "all":
        items = [repr(i) for i in s["items"]] + ([f"*{_inc(s['inc'])}"] if s["inc"] else [])
        return "__all__ = [" + ", ".join(items) + "]"
    if op == "aug":
        if s["inc"] and not s["items"]:
            return f"__all__ += {_inc(s['inc'])}"
        items = [repr(i) for i in s["items"]] + ([f"*{_inc(s['inc'])}"] if s["inc"] else [])
        return "__all__ += [" + ", ".join(items) + "]"
    raise ValueError(op)


def render_program(prog: list) -> dict:
    """prog: [{m, stmts}] for every module that exists on disk -> {relative path: source}; statement k is line k."""
    files = {}
    for ent in prog:
        files[PKG_MODULES[ent["m"]]] = "".join(render_stmt(ent["m"], s) + "\n" for s in ent["stmts"])
    return files


def write_package(root: str, files: dict):
    # parents before children, files in sorted order: the finder's os.walk sees a deterministic tree
    for rel in sorted(files):
        path = os.path.join(root, rel)
        os.makedirs(os.path.dirname(path), exist_ok=True)
        with open(path, "w") as fh:
            fh.write(files[rel])


def prog_text(prog: list) -> str:
    return " | ".join(f"{e['m']}: " + "; ".join(render_stmt(e["m"], s) for s in e["stmts"]) for e in prog if e["stmts"])


# ---------------------------------------------------------------------------------------------------------
# taps (trace validation)
# ---------------------------------------------------------------------------------------------------------
class Tap:
    """Record one event per call of the (public) functions that are frames of Loader.tla, in the harness process.

    Every tap is optional: a function that does not exist (renamed / restructured code) is listed in `missing`, the
    trace comparison then ignores that kind of event - the verdict never depends on a tap."""

    def __init__(self, griffe):
        import _griffe.loader as L
        import _griffe.models as M

        self.events: list = []
        self.missing: list = []
        self._saved = []
        ev = self.events

        def wrap(cls, name, tag, key):
            orig = getattr(cls, name, None)
            if orig is None or not callable(orig):
                self.missing.append(tag)
                return

            def wrapper(self_, *a, **kw):
                try:
                    ev.append([tag, key(self_, a, kw)])
                except Exception as exc:  # noqa: BLE001
                    ev.append([tag, ["<" + type(exc).__name__ + ">"]])
                return orig(self_, *a, **kw)

            wrapper.__wrapped__ = orig
            setattr(cls, name, wrapper)
            self._saved.append((cls, name, orig))

        def objpath(_self, a, kw):
            o = a[0] if a else kw.get("obj", kw.get("module"))
            return o.path.split(".")

        loader_cls = getattr(L, "GriffeLoader", None) or griffe.GriffeLoader
        alias_cls = getattr(M, "Alias", None) or griffe.Alias
        wrap(loader_cls, "load", "LD", lambda s, a, kw: [str(a[0])])
        wrap(loader_cls, "resolve_aliases", "RA", lambda s, a, kw: [""])
        wrap(loader_cls, "expand_exports", "EE", objpath)
        wrap(loader_cls, "expand_wildcards", "EW", objpath)
        wrap(loader_cls, "resolve_module_aliases", "RM", objpath)
        wrap(alias_cls, "resolve_target", "RT", lambda s, a, kw: s.path.split("."))

    def close(self):
        for cls, name, orig in reversed(self._saved):
            setattr(cls, name, orig)
        self._saved.clear()


def same_trace(spec_events: list, real_events: list, missing: list) -> bool:
    """Recorded call sequence = the spec's frame pushes, ignoring the kinds of event that could not be tapped."""
    st = [[e[0], e[1] if e[1] else [""]] for e in spec_events if e[0] not in missing]
    return st == [[e[0], e[1]] for e in real_events]


# ---------------------------------------------------------------------------------------------------------
# projection of the real tree onto Loader.tla's vocabulary
# ---------------------------------------------------------------------------------------------------------
_PROG: dict = {}        # module -> statements of the case being replayed (set by the drivers: set_program)


def set_program(prog: list):
    _PROG.clear()
    _PROG.update({e["m"]: e["stmts"] for e in prog})


def bound_target(alias):
    """The object an alias is currently bound to, None when it is unresolved - public API only (`resolved`, and `target`,
    which has no side effect on a resolved alias)."""
    try:
        return alias.target if alias.resolved else None
    except Exception:  # noqa: BLE001
        return None


def is_expanded(alias) -> bool:
    """Was this member alias built by expand_wildcards?  Its line is the line of a `from m import *` statement of its module
    (the visitor's own alias on that line is the pseudo member "m/*")."""
    par = alias.parent
    if par is None or par.is_alias:
        return False
    stmts = _PROG.get(par.path, [])
    ln = alias.alias_lineno or 0
    return 1 <= ln <= len(stmts) and stmts[ln - 1]["op"] == "star" and not alias.name.endswith("/*")


def passed_flag(alias):
    """Alias._passed_through when the implementation has such an attribute, else None (the clause is then skipped)."""
    v = getattr(alias, "_passed_through", None)
    return v if isinstance(v, bool) else None


def oid(obj) -> dict:
    """Identity of a real object in the spec's vocabulary (PkgUniverse.Id)."""
    if obj is None:
        return dict(NIL)
    if obj.is_alias:
        par = obj.parent
        if par is None:
            return {"m": "?", "n": obj.name, "l": obj.alias_lineno or 0}
        if par.is_alias:
            return {"m": "~", "n": obj.name, "l": 0}
        return {"m": par.path, "n": obj.name, "l": (obj.alias_lineno or 0) + (100 if is_expanded(obj) else 0)}
    if obj.kind.value == "module":
        return {"m": obj.path, "n": "", "l": 0}
    par = obj.parent
    return {"m": par.path if par is not None else "?", "n": obj.name, "l": obj.lineno or 0}


def chain_final(obj, limit: int = 12):
    """Final target along already-bound links only (no side effect), None when unbound / looping (spec: FinalOf)."""
    seen = 0
    while obj is not None and obj.is_alias:
        obj = bound_target(obj)
        seen += 1
        if seen > limit:
            return None
    return obj


def project(griffe, collection, present: list) -> list:
    """[ {m, has_all, exports, members:[{n,o,k,tp,tgt,fin}]} ] for every loaded module, in walk order (spec: ProjS)."""
    out = []
    for m in present:
        top = m.split(".")[0]
        if top not in collection.members:
            continue
        mod = collection.members[top]
        ok = True
        for part in m.split(".")[1:]:
            nxt = mod.members.get(part)
            if nxt is None or nxt.is_alias or nxt.kind.value != "module":
                ok = False
                break
            mod = nxt
        if not ok:
            out.append({"m": m, "missing": True, "has_all": False, "exports": [], "members": []})
            continue
        members = []
        for n, mem in mod.members.items():
            if mem.is_alias:
                k = "alias"
                tp = mem.target_path.split(".")
                tgt = oid(bound_target(mem))
            else:
                k = {"module": "mod", "function": "def", "attribute": "attr" if n == "__all__" else "def"}.get(mem.kind.value, mem.kind.value)
                tp = []
                tgt = dict(NIL)
            members.append({"n": n, "o": oid(mem), "k": k, "tp": tp, "tgt": tgt, "fin": oid(chain_final(mem))})
        ex = mod.exports
        exports = [] if ex is None else [_export_item(e) for e in ex]
        out.append({"m": m, "has_all": ex is not None, "exports": exports, "members": members})
    return out


def _navigate(collection, m: str):
    top = m.split(".")[0]
    if top not in collection.members:
        return None
    mod = collection.members[top]
    for part in m.split(".")[1:]:
        nxt = mod.members.get(part)
        if nxt is None or nxt.is_alias or nxt.kind.value != "module":
            return None
        mod = nxt
    return mod


def outcome(griffe, fn) -> str:
    """Outcome class of one accessor call (spec: "ok" | "ARE" | "CYC"; anything else must never happen)."""
    try:
        fn()
    except griffe.AliasResolutionError:
        return "ARE"
    except griffe.CyclicAliasError:
        return "CYC"
    except RecursionError:
        return "OTHER:RecursionError"
    except Exception as exc:  # noqa: BLE001
        return "OTHER:" + type(exc).__name__
    return "ok"


def probe_all(griffe, collection, present: list) -> list:
    """Dereference every member alias the way Loader.tla's probe phase does: final_target, then members."""
    out = []
    for m in present:
        mod = _navigate(collection, m)
        if mod is None:
            continue
        for n, mem in list(mod.members.items()):
            if mem.is_alias:
                ft = outcome(griffe, lambda mem=mem: mem.final_target)
                mb = outcome(griffe, lambda mem=mem: mem.members)
                out.append({"a": [*mod.path.split("."), n], "out": [ft, mb]})
    return out


def norm_impl(impl: list) -> list:
    """Spec projection -> comparable form (drop fields the real projection does not have)."""
    out = []
    for mod in impl:
        out.append({"m": mod["m"], "has_all": mod["has_all"], "exports": mod["exports"],
                    "members": [{"n": e["n"], "o": e["o"], "k": e["k"], "tp": e["tp"], "tgt": e["tgt"], "fin": e["fin"]} for e in mod["members"]]})
    return out


def first_diff(spec: list, real: list) -> str:
    smap = {m["m"]: m for m in spec}
    rmap = {m["m"]: m for m in real}
    for m in smap:
        if m not in rmap:
            return f"module {m}: absent from the real tree"
        a, b = smap[m], rmap[m]
        if b.get("missing"):
            return f"module {m}: not reachable in the real tree"
        if [e["n"] for e in a["members"]] != [e["n"] for e in b["members"]]:
            return f"{m}: member names/order spec {[e['n'] for e in a['members']]} real {[e['n'] for e in b['members']]}"
        for x, y in zip(a["members"], b["members"]):
            for f in ("k", "o", "tp", "tgt", "fin"):
                if x[f] != y[f]:
                    return f"{m}.{x['n']}: {f} spec {json.dumps(x[f])} real {json.dumps(y[f])}"
        if a["has_all"] != b["has_all"] or a["exports"] != b["exports"]:
            return f"{m}: exports spec {a['has_all']}/{a['exports']} real {b['has_all']}/{b['exports']}"
    for m in rmap:
        if m not in smap:
            return f"module {m}: only in the real tree"
    return ""


# ---------------------------------------------------------------------------------------------------------
# the CPython oracle: runs in a child interpreter, one line of JSON per package directory read from stdin
# ---------------------------------------------------------------------------------------------------------
ORACLE_SRC = r'''
import sys, json, importlib, types
sys.dont_write_bytecode = True
TOPS = ("p", "q", "r")
def val(v):
    if isinstance(v, types.ModuleType): return {"k": "mod", "id": {"m": v.__name__, "n": "", "l": 0}}
    if isinstance(v, types.FunctionType): return {"k": "def", "id": {"m": v.__module__, "n": v.__name__, "l": v.__code__.co_firstlineno}}
    if isinstance(v, list): return {"k": "list", "pyid": id(v), "items": [str(i) for i in v]}
    return {"k": "other", "repr": repr(v)[:80]}
for line in sys.stdin:
    req = json.loads(line)
    root, mods = req["root"], req["mods"]
    for name in [n for n in sys.modules if n.split(".")[0] in TOPS]:
        del sys.modules[name]
    importlib.invalidate_caches()
    sys.path.insert(0, root)
    ns, err = {}, {}
    keep = []
    try:
        for m in mods:
            try:
                importlib.import_module(m)
            except BaseException as e:
                err[m] = type(e).__name__
                break
        for m in mods:
            mod = sys.modules.get(m)
            if mod is not None:
                keep.append(mod)
                ns[m] = {k: val(v) for k, v in list(vars(mod).items()) if not (k.startswith("__") and k.endswith("__") and k != "__all__")}
    finally:
        sys.path.remove(root)
    sys.stdout.write(json.dumps({"ns": ns, "err": err}) + "\n")
    sys.stdout.flush()
'''


class Oracle:
    """A persistent child CPython that imports generated packages (never the harness process itself)."""

    def __init__(self):
        import subprocess

        from gverif.common import PY

        env = {k: v for k, v in os.environ.items() if k not in ("PYTHONPATH",)}
        env["PYTHONDONTWRITEBYTECODE"] = "1"
        env["PYTHONHASHSEED"] = "0"
        self.proc = subprocess.Popen([PY, "-S", "-c", ORACLE_SRC], stdin=subprocess.PIPE, stdout=subprocess.PIPE, text=True, env=env)

    def ask(self, root: str, mods: list) -> dict:
        self.proc.stdin.write(json.dumps({"root": root, "mods": mods}) + "\n")
        self.proc.stdin.flush()
        line = self.proc.stdout.readline()
        if not line:
            from gverif.common import die

            die("CPython oracle died")
        return json.loads(line)

    def close(self):
        try:
            self.proc.stdin.close()
            self.proc.wait(timeout=10)
        except Exception:  # noqa: BLE001
            self.proc.kill()
