"""C09 - full JSON dumps conform to the published schema (spec/Serde.tla + spec/SerdeSchema.tla + generated
spec/Gen_Schema.tla).

At check time docs/schema.json is compiled into Gen_Schema.tla (one normal-form record per schema node: admitted
types incl. null, const/enum, allowed and required keys, additionalProperties, items, oneOf, allOf, if/then,
$ref).  TLC evaluates SchemaErrs(Encode(d, TRUE)) for every shape descriptor that can be loaded from files on disk
(static, inspected with/without sources, namespace package; every optional field combination, every expression
class, parsed docstring sections) and checks  CleanSchema(d) => no error  (invariant Clean_SchemaConforms).
Binding, per descriptor (same concretised packages as C08):
   real vs property   jsonschema (Draft 7) on the real full dump of the package, without and with alias
                      resolution                                     -> VIOLATION / KNOWN-FINDING keyed (ctx, key, rule, got)
   real vs model      abstract JSON of the real dump = Encode(d, TRUE); jsonschema errors on it = SchemaErrs  -> drift
                      note; same abstract document but different validity verdict -> exit 2
   generator          Probe runs: TLC mutates documents (drop / re-type / add one key at one level); each mutated
                      abstract document is concretised and given to jsonschema; a different verdict -> exit 2
"""
from __future__ import annotations

import collections
import concurrent.futures as cf
import json
import multiprocessing
import os
import time

from gverif import tlc
from gverif.common import die, ensure_repo, scratch
from gverif.harness import Run
from gverif.props import c08_pkg as P
from gverif.props import c09_schema as CS
from gverif.props.c08 import ALL_SLOTS, canon

QUICK_SLOTS = '{"class.bases", "function.returns", "attribute.value"}'
DISK_ORIGINS = '{"static", "inspect_src", "inspect_nosrc", "namespace"}'


def jobs(tier: str) -> list:
    """(label, constants, emits, expect_violation, probe)"""
    base = {"MAXSPINE": 0, "FULLDEPTH": 0, "SLOTSET": "{}", "SPINESLOTS": "{}", "PROBE": "FALSE", "SDOMAIN": "all", "EMIT": "TRUE",
            "DOCORIGINS": "{}", "LATTICE": "small", "ORIGINS": '{"static"}', "INVARIANTS": "INVARIANT Clean_SchemaConforms"}
    lattice = "small" if tier == "quick" else "large"
    docorg = '{"static", "inspect_nosrc"}' if tier == "quick" else '{"static", "inspect_src", "inspect_nosrc"}'
    # the three parts in one run: object lattice x on-disk origins; every expression class in some slot (an expression
    # is any JSON object for the schema); every docstring section kind
    out = [
        ("all-parts/all", dict(base, PARTS='{"shape", "expr", "doc"}', ORIGINS=DISK_ORIGINS, DOCORIGINS=docorg, LATTICE=lattice,
                               MAXSPINE=1 if tier == "quick" else 2, FULLDEPTH=1, SLOTSET=QUICK_SLOTS if tier == "quick" else ALL_SLOTS,
                               SPINESLOTS=ALL_SLOTS), True, False, False),
        ("probes", dict(base, PARTS='{"shape", "doc"}', DOCORIGINS='{"static"}', PROBE="TRUE", INVARIANTS=""), True, False, True),
        ("shape/defect", dict(base, PARTS='{"shape"}', ORIGINS='{"inspect_nosrc", "namespace"}', SDOMAIN="defect", EMIT="FALSE",
                              INVARIANTS="INVARIANT SchemaConforms\nINVARIANT FullDumpExists"), False, True, False),
    ]
    if tier == "thorough":
        out.append(("shape/clean", dict(base, PARTS='{"shape", "doc"}', ORIGINS=DISK_ORIGINS, DOCORIGINS=docorg, LATTICE=lattice, SDOMAIN="clean",
                                        EMIT="FALSE", INVARIANTS="INVARIANT SchemaConforms\nINVARIANT FullDumpExists"), False, False, False))
        out.append(("shape/characterisation", dict(base, PARTS='{"shape", "doc"}', ORIGINS=DISK_ORIGINS, DOCORIGINS=docorg, LATTICE=lattice,
                                                   EMIT="FALSE", INVARIANTS="INVARIANT SchemaCharacterisation"), False, False, False))
    return out


def run_tlc(job, workers):
    label, consts, _emits, _exp, _probe = job
    return job, tlc.run("SerdeSchema", "SerdeSchema.cfg", workers=workers, constants=consts, timeout=1700, heap="6g")


def judge(run: Run, case: dict, res: dict, stats):
    cid = P.case_id(case)
    rec = {"case": cid, "files": res.get("layout", {}).get("files"), "tlc_case": {k: case[k] for k in case if k not in ("full", "doc2")}}
    if res["error"]:
        die(f"C09: concretiser/harness failure on {cid}:\n{res['error']}")
    if res.get("runtime") is not None and case["kind"] != "root" and res["runtime"] != (case.get("guard", "none") in ("none", "stubsig")):
        die(f"C09: concretisation of {cid}: runtime={res['runtime']} but the descriptor's guard is {case.get('guard')}")
    dref = res.get("docref")
    if dref:
        if not dref["loaded_ok"]:
            die(f"C09: the docstring of {cid} was loaded as {dref['got']!r}, inspect.cleandoc says {dref['want']!r}")
        mj = case["full"]
        for nm in (res["layout"]["names"] if not case["raised"] else ()):
            mj = mj["f"]["members"]["f"][nm if nm in mj["f"]["members"]["f"] else case["mname"]]
        if not case["raised"] and (mj["f"]["docstring"]["f"]["value"]["v"] == "fix") != dref["fixpoint"]:
            die(f"C09: Serde!CleanedOnce({case['dtext']}) disagrees with inspect.cleandoc on {dref['want']!r}")
    run.replayed()
    run.evaluated()
    run.nontrivial_case(json.dumps(cid, sort_keys=True))
    sig0 = {"part": case["part"], "origin": case["origin"], "kind": case["kind"]}
    r = res["enc"]["full"]
    if not r["ok"]:
        # no full dump at all (C08's encode-total defect); for C09: nothing to validate
        shape = "namespace-cwd-elsewhere" if case["origin"] == "namespace" and not case["cwdrel"] else "unpredicted"
        run.violation(dict(sig0, clause="full-dump", shape=shape if case["raised"] else "unpredicted", exc=r["exc"]),
                      f"as_json(full=True) raised {r['exc']}: {r['msg']} on {cid}", rec)
        stats["full-dump-raises"] += 1
        if not case["raised"]:
            run.note(f"model drift on {cid}: real as_json(full=True) raises, the model's does not")
        return
    if case["raised"]:
        run.note(f"model drift on {cid}: the model's Encode(d, TRUE) raises, the real one does not")
        return
    sch = res["schema"]
    # ---- the property on the real dump(s) ------------------------------------------------------------
    seen = set()
    for which in ("whole", "whole_resolved"):
        for err in sch.get(which, []):
            err = tuple(err)
            if err in seen:
                continue
            seen.add(err)
            run.violation(dict(sig0, clause="schema", ctx=err[0], key=err[1], rule=err[2], got=err[3]),
                          f"full dump{' (aliases resolved)' if which == 'whole_resolved' else ''} of {cid} is invalid: {err[0] or 'root'}.{err[1]}: {err[2]} ({err[3]})", rec)
            stats["schema-error"] += 1
    if not seen:
        stats["schema-valid"] += 1
    # ---- conformance with the model --------------------------------------------------------------------
    a, b = canon(case["full"]), canon(r["alpha"])
    real_chain = {tuple(e) for e in sch["errors_chain"]}
    model = CS.model_errors(case["errs"])
    if a != b:
        stats["drift"] += 1
        if stats["drift"] <= 5:
            run.note(f"model drift on {cid}: {P._first_diff(a, b)}")
    elif bool(real_chain) != bool(model):
        die(f"C09: same abstract document, different verdicts on {cid}: jsonschema {sorted(real_chain)} vs SerdeSchema!Errs {sorted(model)}")
    elif real_chain != model:
        stats["detail-drift"] += 1
        if stats["detail-drift"] <= 3:
            run.note(f"error details differ on {cid}: jsonschema {sorted(real_chain)} vs model {sorted(model)}")
    if sch.get("keys_same_resolved") is False:
        run.note(f"alias resolution changed the shape of the dump on {cid}")


def check_probes(run: Run, cases: list, schema: dict, stats):
    for x in cases:
        if x["raised"]:
            continue
        doc = CS.concretise(x["doc2"])
        real = CS.real_errors(doc, schema)
        model = CS.model_errors(x["errs"])
        run.evaluated()
        stats["probes"] += 1
        stats["probes-invalid" if model else "probes-valid"] += 1
        if bool(real) != bool(model):
            die(f"C09: generated schema constants disagree with jsonschema on the synthetic document of {P.case_id(x)} mutated by {x['mut']}:\n"
                f" jsonschema: {sorted(real)}\n Gen_Schema/Errs: {sorted(model)}\n document: {json.dumps(doc)[:1500]}")
        if {e[:3] for e in real} != {e[:3] for e in model}:
            stats["probe-detail-drift"] += 1


def main(tier: str, replay: str | None = None):
    ensure_repo()
    run = Run("C09", tier)
    run.rule = ("SerdeSchema.tla: every Serde.tla descriptor loadable from files on disk (shape lattice, every expression class in every "
                "slot, every docstring section kind), distinct by descriptor; plus mutated documents for the generator validation.")
    schema = CS.write_gen_schema()
    stats: collections.Counter = collections.Counter()
    ncpu = os.cpu_count() or 4
    nproc = max(2, min(12, ncpu - 2))
    ctx = multiprocessing.get_context("fork")
    t0 = time.time()
    all_jobs = jobs(tier)
    if replay:
        with open(replay) as fh:
            stored = json.load(fh)
        print(stored["what"])
        tc = stored["case"]["tlc_case"]
        job = jobs("quick")[0]
        consts = dict(job[1], PARTS='{"' + tc["part"] + '"}', SLOTSET=ALL_SLOTS)
        if tc["part"] == "shape":
            consts.update(LATTICE="large", ORIGINS='{"' + tc["origin"] + '"}')
        elif tc["part"] == "doc":
            consts.update(DOCORIGINS='{"' + tc["origin"] + '"}')
        _j, res = run_tlc((job[0], consts, True, False, False), 8)
        tlc.must(res, allow_violations=True)
        run.add_tlc(res)
        want = P.case_id(tc)
        cases = [c for c in res.cases if P.case_id(c) == want]
        if not cases:
            die(f"C09 replay: descriptor {want} is not in the enumerated space")
        with scratch("c09-") as base:
            for i, c in enumerate(cases, 1):
                judge(run, c, P.evaluate(c, i, base, schema, want_c08=False, want_c09=True), stats)
        run.finish()
    results = []
    par = 3
    wk = max(2, (ncpu - 2) // par)
    with cf.ThreadPoolExecutor(max_workers=par) as tp:
        for job, res in tp.map(lambda j: run_tlc(j, wk), all_jobs):
            results.append((job, res))
    replayable, probes = [], []
    for job, res in results:
        label, _c, emits, expect_violation, probe = job
        run.add_tlc(res)
        if expect_violation:
            tlc.must(res, allow_violations=True)
            if not res.violated:
                # (this depends on the repository's schema file, not only on the model: a repaired schema ends up here)
                run.note(f"the defect domain {label} violates nothing: docs/schema.json admits every shape outside CleanSchema (schema repaired?)")
            run.extra.setdefault("defect_domain_violates", {})[label] = res.violated
            continue
        if label.endswith("/characterisation"):
            tlc.must(res, allow_violations=True)
            if res.violated:
                run.note("SchemaCharacterisation is violated: docs/schema.json admits/rejects other shapes than CleanSchema describes (schema changed?)")
            continue
        if res.violated:
            # the schema rejects a shape of the clean domain: the replay below shows it on the real code
            tlc.must(res, allow_violations=True)
            run.note(f"TLC: {res.violated} violated in {label}: the published schema rejects clean shapes; see the replay verdicts")
            # TLC stops at the first violation: enumerate the whole space again without the invariant, so that every
            # descriptor is replayed and the real code decides
            _j, res = run_tlc((label, dict(job[1], INVARIANTS=""), True, False, False), wk * par)
            tlc.must(res)
            run.add_tlc(res)
        else:
            tlc.must(res)
        if emits and not res.cases:
            die(f"C09: {label} emitted no case")
        (probes if probe else replayable).append((label, res.cases))
    run.extra["tlc_wall_s"] = round(time.time() - t0, 1)
    run.exhaustive = True
    counts = {}
    idx = 1
    with scratch("c09-") as base, cf.ProcessPoolExecutor(max_workers=nproc, mp_context=ctx) as pool:
        for label, cases in replayable:
            counts[label] = len(cases)
            numbered = list(enumerate(cases, start=idx))
            idx += len(cases)
            by_idx = dict(numbered)
            flags = {"want_c08": False, "want_c09": True, "want_dump": False}
            chunks = [(numbered[i:i + 40], base, schema, flags) for i in range(0, len(numbered), 40)]
            for out in pool.map(P.evaluate_chunk, chunks):
                for res in out:
                    case = by_idx[res["idx"]]
                    judge(run, case, res, stats)
                    if res["error"] is None:
                        run.sample({"case": P.case_id(case), "files": res["layout"]["files"], "errors": res.get("schema", {}).get("whole")})
            # the model's own verdicts: defects exhibited exactly outside CleanSchema (informative, see design.d/C09.md)
            off = [P.case_id(c) for c in cases if not c["raised"] and (not c["errs"]) != c["cleanschema"]]
            if off:
                run.note(f"{label}: {len(off)} descriptor(s) where SchemaErrs = {{}} is not equivalent to CleanSchema, e.g. {off[0]}")
    for label, cases in probes:
        counts[label] = len(cases)
        check_probes(run, cases, schema, stats)
    need = ["schema-valid", "probes-valid", "probes-invalid"]
    missing = [k for k in need if not stats[k]]
    if missing:
        die(f"C09: vacuous run, never observed: {missing}")
    run.extra["cases_per_part"] = counts
    run.extra["observations"] = dict(stats)
    run.extra["schema_file"] = CS.schema_path()
    run.finish()
