"""Shared by the C12 / C13 drivers: real parents, snapshots (unmodified clause), wall-clock guard,
exception signatures, lazy-option fillings, text normalisation and the generic replay of one abstract
case (spec/Doc*.tla CASE record) on the real parser.

Vocabulary of a CASE record (see the Doc*.tla modules):
  lines    list of line-class records            opts   {option: "T" | "F" | "U"(nread)}
  pcand    candidate parent kinds                excl   [[option, parent kind], ...] must not hold together
  outcome  "done" | "crashed"                    crash  {exc, at}
  sections list of {kind, title, hdr, tl, items[{first, body, name, ann, dflt}], subs[{kind, tl}]}
"""
from __future__ import annotations

import inspect
import random
import re
import signal
import traceback
from pathlib import Path

PARENT_SOURCE = '''
"""Module m."""
from typing import Iterator, Generator

xa: int = 0


class K:
    """Class K."""

    ka: int = 0

    def __init__(self, a: int = 1, *args: str, **kwargs: bool) -> None:
        """Init."""

    @property
    def p(self) -> str:
        """Prop."""
        return ""

    @property
    def pt(self) -> tuple[int, str]:
        """Prop returning a pair."""


def f(a: int = 1, b=2, *args: str, **kwargs: bool) -> int:
    """Function."""
    return 0


def t() -> tuple[int, str]:
    """Returns a pair."""


def g() -> Generator[tuple[int, str], tuple[int, str], tuple[int, str]]:
    """Generator of pairs."""


def t0() -> tuple[()]:
    """Returns the empty tuple."""


def g1() -> Generator[int]:
    """Generator annotation with one type argument."""


def g2() -> Generator[int, None]:
    """Generator annotation with two type arguments."""


def it() -> Iterator[int]:
    """Iterator."""
'''

PARENT_PATH = {"module": None, "class": "K", "function": "f", "init": "K.__init__", "property": "K.p", "tuplefn": "t", "genfn": "g",
               # return annotation EXPRESSIONS with fewer elements than a docstring may document items / than the readers index
               "tupleprop": "K.pt", "tuple0fn": "t0", "gen1fn": "g1", "gen2fn": "g2", "iterfn": "it"}
# "aliasmod": a module in which every name the concretisers document (n0.., x, y) is imported from a package that is
# not loaded: looking such a member up gives an alias that cannot be resolved
ALIAS_SOURCE = '"""Module am."""\nfrom ext import ' + ", ".join([f"n{i}" for i in range(80)] + ["x", "y"]) + "\n"


class Parents:
    """Real Griffe objects for the abstract parent kinds + a cheap deep projection (unmodified clause)."""

    def __init__(self, griffe, source: str = PARENT_SOURCE, paths: dict | None = None):
        self.griffe = griffe
        self.source = source
        self.paths = dict(paths or PARENT_PATH)
        self.build()

    def build(self):
        self.mod = self.griffe.visit("m", filepath=Path("m.py"), code=self.source)
        self.amod = self.griffe.visit("am", filepath=Path("am.py"), code=ALIAS_SOURCE)
        # a hand-built, detached object: a function named __init__ that has no parent at all
        g = self.griffe
        # a function of a NAMESPACE package (filepath is a list) no portion of which lies below the current directory:
        # relative_filepath raises ValueError, which every parser warning has to survive
        nspkg = g.Module("nsp", filepath=[Path("/nonexistent-gverif/nsp")])
        self.nsfunc = g.Function("f", parameters=g.Parameters(g.Parameter("a", annotation="int", default="1")), returns="int")
        nspkg.set_member("f", self.nsfunc)
        self.detached = g.Function("__init__", parameters=g.Parameters(g.Parameter("self"), g.Parameter("a", annotation="int", default="1")), returns="None")
        self.baseline = self.project()

    def get(self, kind: str):
        if kind == "none":
            return None
        if kind == "aliasmod":
            return self.amod
        if kind == "detachedinit":
            return self.detached
        if kind == "nsfunc":
            return self.nsfunc
        path = self.paths[kind]
        return self.mod if path is None else self.mod[path]

    def project(self):
        out = []

        def walk(o):
            doc = o.docstring
            out.append((
                o.path, o.kind.value, tuple(sorted(o.labels)), tuple(o.members),
                None if doc is None else (doc.value, doc.lineno, doc.endlineno, id(doc.parent) == id(o), doc.parser, tuple(sorted(doc.parser_options.items()))),
                id(o.parent) if o.parent is not None else None,
                str(getattr(o, "annotation", None)), str(getattr(o, "returns", None)),
                tuple((p.name, str(p.annotation), str(p.default), str(p.kind)) for p in getattr(o, "parameters", ())) if o.kind.value == "function" else (),
                str(getattr(o, "value", None)), o.lineno, o.endlineno, tuple(sorted(getattr(o, "imports", {}).items())),
                tuple(sorted(getattr(o, "aliases", {}))),
            ))
            for m in o.members.values():
                if not m.is_alias:
                    walk(m)

        walk(self.mod)
        walk(self.amod)
        out.append(tuple((n, m.target_path, m._target is None) for n, m in self.amod.members.items() if m.is_alias))
        n = self.nsfunc
        out.append((n.path, [str(x) for x in n.parent.filepath], tuple(n.parent.members), tuple((q.name, str(q.annotation), str(q.default)) for q in n.parameters), n.docstring is None))
        d = self.detached
        out.append((d.name, d.parent is None, tuple((q.name, str(q.annotation), str(q.default)) for q in d.parameters), str(d.returns), tuple(d.members), d.docstring is None))
        return tuple(out)

    def changed(self) -> bool:
        return self.project() != self.baseline


def docstring_snapshot(d):
    return {k: (id(v) if k == "parent" else (dict(v) if isinstance(v, dict) else v)) for k, v in d.__dict__.items()}


class Timeout(Exception):
    pass


def _on_alarm(signum, frame):  # noqa: ARG001
    raise Timeout


def guarded(fn, seconds: float = 5.0):
    """Run fn() under a wall-clock guard (termination clause).  Returns (result, exception)."""
    old = signal.signal(signal.SIGALRM, _on_alarm)
    signal.setitimer(signal.ITIMER_REAL, seconds)
    try:
        return fn(), None
    except Timeout as exc:
        return None, exc
    except Exception as exc:  # noqa: BLE001
        return None, exc
    finally:
        signal.setitimer(signal.ITIMER_REAL, 0)
        signal.signal(signal.SIGALRM, old)


class StepLimit(Exception):
    pass


def step_bounded(fn, max_lines: int = 400_000):
    """Run fn() counting executed lines (sys.settrace); deterministic, independent of the machine's load.

    Returns (result, exception); exception is StepLimit when the budget is exhausted.  A parse of a docstring of a few
    dozen lines executes a few thousand lines: exhausting the budget means the parser does not terminate."""
    import sys  # noqa: PLC0415

    count = [0]

    def tracer(frame, event, arg):  # noqa: ARG001
        if event == "line":
            count[0] += 1
            if count[0] > max_lines:
                raise StepLimit
        return tracer

    old = sys.gettrace()
    sys.settrace(tracer)
    try:
        return fn(), None
    except StepLimit as exc:
        return None, exc
    except Exception as exc:  # noqa: BLE001
        return None, exc
    finally:
        sys.settrace(old)


def guarded_confirmed(fn, seconds: float = 5.0):
    """guarded(), but a wall-clock timeout is only a tripwire (the machine may be busy): non-termination is confirmed
    with a deterministic step budget before it is reported as Timeout."""
    res, exc = guarded(fn, seconds)
    if isinstance(exc, Timeout):
        res, exc = step_bounded(fn)
        if isinstance(exc, StepLimit):
            exc = Timeout()
    return res, exc


def exc_frames(exc: BaseException) -> str:
    """Abstract location of an exception: functions of _griffe/docstrings on the stack + the raising function."""
    tb = traceback.extract_tb(exc.__traceback__)
    doc = [f.name for f in tb if "/_griffe/docstrings/" in f.filename.replace("\\", "/")]
    return ">".join(doc) + "|" + (tb[-1].name if tb else "?")


DEFAULTS = {
    "google": {"ignore_init_summary": False, "trim_doctest_flags": True, "returns_multiple_items": True, "returns_named_value": True,
               "returns_type_in_property_summary": False, "receives_multiple_items": True, "receives_named_value": True, "warn_unknown_params": True},
    "numpy": {"ignore_init_summary": False, "trim_doctest_flags": True, "warn_unknown_params": True},
    "sphinx": {"warn_unknown_params": True},
}


def option_fills(style: str, opts: dict, excl: list, parent: str, which: int, rnd: random.Random) -> dict:
    """A full option assignment consistent with the lazy path of the case, for one parent candidate.

    which: 0 -> unread options at their defaults, 1 -> unread options flipped, 2 -> seeded random."""
    out = {}
    forced_false = {o for o, p in excl if p == parent}
    for o, dflt in DEFAULTS[style].items():
        v = opts.get(o, "U")
        if v == "T":
            out[o] = True
        elif v == "F":
            out[o] = False
        elif o in forced_false:
            out[o] = False
        elif which == 0:
            out[o] = dflt
        elif which == 1:
            out[o] = not dflt
        else:
            out[o] = rnd.random() < 0.5
    return out


def path_consistent(opts_full: dict, excl: list, parent: str) -> bool:
    return not any(p == parent and opts_full.get(o) for o, p in excl)


_RE_FLAGS = re.compile(r"(\s*#\s*doctest:.+)$")
_RE_BLANKLINE = re.compile(r"^\s*<BLANKLINE>\s*$")


def norm_lines(text: str | None) -> list:
    """Lines of a text, each stripped, doctest decoration removed, trailing blank lines dropped."""
    if text is None:
        return []
    out = [_RE_BLANKLINE.sub("", _RE_FLAGS.sub("", ln)).strip() for ln in text.split("\n")]
    while out and not out[-1]:
        out.pop()
    return out


def norm_list(lines: list) -> list:
    return norm_lines("\n".join(lines))


def blank_normalised(text: str) -> str:
    """The plain-text clause compares 'whitespace on otherwise blank lines aside'."""
    return "\n".join(ln if ln.strip() else "" for ln in text.split("\n"))


LIST_KINDS = {
    "parameters": "DocstringParameter", "other parameters": "DocstringParameter", "raises": "DocstringRaise", "warns": "DocstringWarn",
    "returns": "DocstringReturn", "yields": "DocstringYield", "receives": "DocstringReceive", "attributes": "DocstringAttribute",
    "functions": "DocstringFunction", "classes": "DocstringClass", "modules": "DocstringModule",
}


def well_formed(griffe, sections) -> str | None:
    """C12 'returns a list of well-formed sections', evaluated on the real objects.  None = fine."""
    if not isinstance(sections, list):
        return f"result is {type(sections).__name__}, not a list"
    for s in sections:
        if not isinstance(s, griffe.DocstringSection):
            return f"{type(s).__name__} is not a DocstringSection"
        if not isinstance(s.kind, griffe.DocstringSectionKind):
            return f"kind {s.kind!r} not in DocstringSectionKind"
        if s.title is not None and not isinstance(s.title, str):
            return f"title {s.title!r}"
        kind = s.kind.value
        if kind == "text":
            if not isinstance(s.value, str):
                return f"text value {type(s.value).__name__}"
        elif kind in LIST_KINDS:
            cls = getattr(griffe, LIST_KINDS[kind])
            if not isinstance(s.value, list) or not s.value:
                return f"{kind} value {s.value!r}"
            for el in s.value:
                if not isinstance(el, cls):
                    return f"{kind} element {type(el).__name__}"
                if not isinstance(el.description, str):
                    return f"{kind} description {el.description!r}"
                if hasattr(el, "name") and not isinstance(el.name, str):
                    return f"{kind} name {el.name!r}"
        elif kind == "examples":
            if not isinstance(s.value, list) or not all(isinstance(x, tuple) and len(x) == 2 and isinstance(x[1], str) and x[0] in (griffe.DocstringSectionKind.text, griffe.DocstringSectionKind.examples) for x in s.value):
                return f"examples value {s.value!r}"
        elif kind == "admonition":
            if not isinstance(s.value, griffe.DocstringAdmonition) or not isinstance(s.value.description, str):
                return f"admonition value {s.value!r}"
        elif kind == "deprecated":
            if not isinstance(s.value, griffe.DocstringDeprecated) or not isinstance(s.value.description, str):
                return f"deprecated value {s.value!r}"
        else:
            return f"unexpected kind {kind}"
        try:
            s.as_dict()
        except Exception as exc:  # noqa: BLE001
            return f"as_dict raised {exc!r}"
    return None


SHARED_OPTIONS = {"warn_unknown_params": True}      # accepted by the three parsers; the loaders hand ONE options dict to every docstring


def flat(sections) -> list:
    """Deep, comparable projection of a parse result (history clause: a second parse must return the same)."""
    out = []
    for s in sections:
        v = s.value
        if isinstance(v, list):
            v = [tuple(sorted((k, str(x)) for k, x in el.as_dict().items())) if hasattr(el, "as_dict") else (str(el[0]), el[1]) for el in v]
        elif hasattr(v, "as_dict"):
            v = tuple(sorted((k, str(x)) for k, x in v.as_dict().items()))
        out.append((s.kind.value, s.title, v))
    return out


def real_parse(griffe, parents: Parents, style: str, text: str, parent_kind: str, options: dict, timeout: float = 5.0, history: int = 0):
    """One guarded parse of the real code with every C12 clause that needs no model evaluated.

    The docstring is created the way the loaders create it: with a parser_options dict shared with other docstrings.
    history >= 1: the same docstring is parsed a second time with the same options; history >= 2: and then once without options,
    against a fresh docstring parsed with the configured options - results must not depend on what was parsed before.

    Returns dict(exc, frames, sections, modified, unstable, docstring)."""
    parent = parents.get(parent_kind)
    shared = dict(SHARED_OPTIONS)
    # configured with another style than the one it is parsed with: parse(style, ...) must not touch the configuration
    configured = "sphinx" if style != "sphinx" else "google"
    # the source whose cleaned value is `text`: the text itself, or - when its first line is the only unindented one / is indented -
    # the text after a line break (cleandoc then removes the common indentation of ALL lines and drops the empty first line)
    source = text if inspect.cleandoc(text.rstrip()) == text else "\n" + text
    d = griffe.Docstring(source, lineno=1, endlineno=1 + source.count("\n"), parent=parent, parser=configured, parser_options=shared)
    out = {"exc": None, "excobj": None, "frames": None, "sections": None, "modified": None, "unstable": d.value != text, "value": d.value}
    before_parent_ok = True
    before = docstring_snapshot(d)
    res, exc = guarded_confirmed(lambda: d.parse(style, **options), timeout)
    if exc is not None:
        out["exc"] = "Timeout" if isinstance(exc, Timeout) else type(exc).__name__
        out["frames"] = exc_frames(exc) if not isinstance(exc, Timeout) else "timeout"
        out["message"] = str(exc)[:200]
        out["excobj"] = exc
    else:
        out["sections"] = res
    after = docstring_snapshot(d)
    if after != before:
        out["modified"] = f"docstring attributes changed: {sorted(k for k in set(before) | set(after) if before.get(k) != after.get(k))}"
    elif shared != SHARED_OPTIONS or d.parser_options is not shared:
        out["modified"] = f"the options dict shared between docstrings changed: {shared}"
    elif history and exc is None:
        again, exc2 = guarded_confirmed(lambda: d.parse(style, **options), timeout)
        if exc2 is not None or flat(again) != flat(res):
            got = repr(exc2) if exc2 is not None else [s.kind.value for s in again]
            out["modified"] = f"a second parse of the same docstring with the same options returned {got}, not what the first returned"
        elif history > 1:
            plain, exc3 = guarded_confirmed(lambda: d.parse(style), timeout)
            fresh = griffe.Docstring(source, lineno=1, endlineno=1 + text.count("\n"), parent=parent, parser=configured, parser_options=dict(SHARED_OPTIONS))
            ref, exc4 = guarded_confirmed(lambda: fresh.parse(style), timeout)
            if (exc3 is None) != (exc4 is None) or (exc3 is None and flat(plain) != flat(ref)):
                out["modified"] = "parse() with the configured options depends on the options of an earlier parse(**options) of the same docstring"
        if docstring_snapshot(d) != before or shared != SHARED_OPTIONS:
            out["modified"] = out["modified"] or "docstring attributes / shared options changed by a later parse"
    elif parent is not None and parents.changed():
        out["modified"] = "parent object tree changed"
        parents.build()
    return out
