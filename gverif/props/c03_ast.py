"""C03 helpers: abstract trees of spec/ExprBuild.tla -> real `ast` nodes / source text, token concretisation.

An abstract node is {"t": type, "op": operator or variant, "kids": [...], "ps": [lambda parameters]}.
`to_ast` builds the corresponding `ast` node directly (so that `ast.unparse` gives a *correct* source by
construction: CPython decides where parentheses go, not this module).
"""
from __future__ import annotations

import ast

BINOPS = {"|": ast.BitOr, "^": ast.BitXor, "&": ast.BitAnd, "<<": ast.LShift, ">>": ast.RShift, "+": ast.Add, "-": ast.Sub,
          "*": ast.Mult, "/": ast.Div, "//": ast.FloorDiv, "%": ast.Mod, "@": ast.MatMult, "**": ast.Pow}
UNOPS = {"not": ast.Not, "-": ast.USub, "+": ast.UAdd, "~": ast.Invert}
BOOLOPS = {"and": ast.And, "or": ast.Or}
CMPOPS = {"<": ast.Lt, "<=": ast.LtE, ">": ast.Gt, ">=": ast.GtE, "==": ast.Eq, "!=": ast.NotEq, "is": ast.Is, "is not": ast.IsNot,
          "in": ast.In, "not in": ast.NotIn}
# operators sharing a precedence class with the representative used by the spec
BIN_CLASS = {"|": ["|"], "^": ["^"], "&": ["&"], "<<": ["<<", ">>"], "+": ["+", "-"], "*": ["*", "/", "//", "%", "@"], "**": ["**"]}

# concrete values of the abstract constants (repr() of each is canonical, so literal spelling plays no role)
CONST = {"int": 1, "float": 1.5, "none": None, "ellipsis": ..., "bytes": b"x", "strbad": "not valid!",
         "ftxt": "lit: ", "fquote": "it's: ", "fbrace": "{x}: ", "fspec": ">"}
CONV = {"": -1, "r": ord("r"), "s": ord("s"), "a": ord("a")}
KIND = {"pos": "posonlyargs", "arg": "args", "kwo": "kwonlyargs"}


def to_ast(n: dict, ctx=None) -> ast.AST:
    """Abstract node -> ast node (Load context everywhere except comprehension / named-expr targets)."""
    ctx = ctx or ast.Load()
    t, op, kids = n["t"], n["op"], n["kids"]
    k = lambda i, c=None: to_ast(kids[i], c)  # noqa: E731
    if t == "Name":
        return ast.Name(id=op, ctx=ctx)
    if t == "Const":
        if op == "str":
            return ast.Constant(value=ast.unparse(to_ast(kids[0])))
        return ast.Constant(value=CONST[op])
    if t == "Attribute":
        return ast.Attribute(value=k(0), attr=op, ctx=ctx)
    if t == "BinOp":
        return ast.BinOp(left=k(0), op=BINOPS[op](), right=k(1))
    if t == "BoolOp":
        return ast.BoolOp(op=BOOLOPS[op](), values=[to_ast(x) for x in kids])
    if t == "UnaryOp":
        return ast.UnaryOp(op=UNOPS[op](), operand=k(0))
    if t == "Call":
        args = [to_ast(x) for x in kids[1:] if x["t"] != "keyword"]
        kws = [ast.keyword(arg=None if x["op"] == "**" else x["op"], value=to_ast(x["kids"][0])) for x in kids[1:] if x["t"] == "keyword"]
        return ast.Call(func=k(0), args=args, keywords=kws)
    if t == "Compare":
        ops = n.get("ops") or [op] * (len(kids) - 1)
        return ast.Compare(left=k(0), ops=[CMPOPS[o]() for o in ops], comparators=[to_ast(x) for x in kids[1:]])
    if t == "comprehension":
        return ast.comprehension(target=k(0, ast.Store()), iter=k(1), ifs=[to_ast(x) for x in kids[2:]], is_async=int(op == "async"))
    if t == "Dict":
        keys = [None if kids[i]["t"] == "NoKey" else to_ast(kids[i]) for i in range(0, len(kids), 2)]
        return ast.Dict(keys=keys, values=[to_ast(kids[i]) for i in range(1, len(kids), 2)])
    if t == "DictComp":
        return ast.DictComp(key=k(0), value=k(1), generators=[to_ast(x) for x in kids[2:]])
    if t in ("GeneratorExp", "ListComp", "SetComp"):
        return getattr(ast, t)(elt=k(0), generators=[to_ast(x) for x in kids[1:]])
    if t == "IfExp":
        return ast.IfExp(body=k(0), test=k(1), orelse=k(2))
    if t == "JoinedStr":
        return ast.JoinedStr(values=[to_ast(x) for x in kids])
    if t == "FormattedValue":
        return ast.FormattedValue(value=k(0), conversion=CONV[op], format_spec=k(1) if len(kids) == 2 else None)
    if t == "Lambda":
        a = ast.arguments(posonlyargs=[], args=[], vararg=None, kwonlyargs=[], kw_defaults=[], kwarg=None, defaults=[])
        for p in n["ps"]:
            arg = ast.arg(arg=p["name"], annotation=None)
            d = to_ast(kids[p["d"] - 1]) if p["d"] else None
            if p["kind"] == "var":
                a.vararg = arg
            elif p["kind"] == "varkw":
                a.kwarg = arg
            elif p["kind"] == "kwo":
                a.kwonlyargs.append(arg)
                a.kw_defaults.append(d)
            else:
                getattr(a, KIND[p["kind"]]).append(arg)
                if d is not None:
                    a.defaults.append(d)
        return ast.Lambda(args=a, body=k(0))
    if t in ("List", "Tuple"):
        return getattr(ast, t)(elts=[to_ast(x, ctx) for x in kids], ctx=ctx)
    if t == "Set":
        return ast.Set(elts=[to_ast(x) for x in kids])
    if t == "NamedExpr":
        return ast.NamedExpr(target=k(0, ast.Store()), value=k(1))
    if t == "Slice":
        it = iter(kids)
        return ast.Slice(lower=to_ast(next(it)) if "l" in op else None, upper=to_ast(next(it)) if "u" in op else None,
                         step=to_ast(next(it)) if "s" in op else None)
    if t == "Starred":
        return ast.Starred(value=k(0, ctx), ctx=ctx)
    if t == "Subscript":
        return ast.Subscript(value=k(0), slice=k(1), ctx=ctx)
    if t == "Yield":
        return ast.Yield(value=k(0) if kids else None)
    if t == "YieldFrom":
        return ast.YieldFrom(value=k(0))
    raise ValueError(f"unknown abstract node type {t}")


def map_ops(n: dict, binmap: dict, cmpbase: int) -> dict:
    """The same abstract tree with every binary operator replaced by another one of its precedence class and
    the j-th operator of every comparison chain replaced by comparison operator number cmpbase + j."""
    out = dict(n, kids=[map_ops(x, binmap, cmpbase) for x in n["kids"]])
    if n["t"] == "BinOp":
        out["op"] = binmap.get(n["op"], n["op"])
    elif n["t"] == "Compare":
        names = list(CMPOPS)
        out["ops"] = [names[(cmpbase + j) % len(names)] for j in range(len(n["kids"]) - 1)]
    return out


def compare_ops_in_order(n: dict, skip_spec: bool) -> list:
    """Concrete comparison operators of a map_ops()-ed tree in rendering order."""
    if n["t"] == "Const":
        return []          # an un-parsed string renders as one literal
    kids = n["kids"]
    if n["t"] == "Compare":
        out = compare_ops_in_order(kids[0], skip_spec)
        for o, x in zip(n["ops"], kids[1:]):
            out += [o] + compare_ops_in_order(x, skip_spec)
        return out
    if n["t"] == "Lambda":
        kids = kids[1:] + kids[:1]
    elif n["t"] == "FormattedValue" and skip_spec:
        kids = kids[:1]
    out = []
    for x in kids:
        out += compare_ops_in_order(x, skip_spec)
    return out


def map_tokens(tokens: list, binmap: dict, cmpops: list) -> list:
    """Operator tokens of a spec rendering follow the same substitution (operators are `" ", op, " "` triples;
    the spec writes every comparison operator as "<")."""
    out = [list(t) for t in tokens]
    cmpops = list(cmpops)
    for i in range(1, len(out) - 1):
        if out[i][0] == "s" and out[i - 1] == ["s", " "] and out[i + 1] == ["s", " "]:
            if out[i][1] in binmap:
                out[i][1] = binmap[out[i][1]]
            elif out[i][1] == "<":
                out[i][1] = cmpops.pop(0)
    if cmpops:
        raise ValueError("comparison operators of the tree and of the rendering do not line up")
    return out


def strings_in_order(n: dict, skip_spec: bool) -> list:
    """Contents of the (un-parsed) 'str' constants in rendering order (lambda defaults come before the body)."""
    if n["t"] == "Const":
        return [ast.unparse(to_ast(n["kids"][0]))] if n["op"] == "str" else []
    kids = n["kids"]
    if n["t"] == "Lambda":
        kids = kids[1:] + kids[:1]
    elif n["t"] == "FormattedValue" and skip_spec:
        kids = kids[:1]
    out = []
    for x in kids:
        out += strings_in_order(x, skip_spec)
    return out


def fstring_text(kind: str, escaped: bool) -> str:
    s = CONST[kind]
    if escaped:
        s = s.replace("{", "{{").replace("}", "}}").replace("'", "\\'")
    return s


def concretise(tokens: list, strings: list) -> list:
    """Spec items -> list of pieces: str for text, ("n", id) for an ExprName element; group parens keep a mark."""
    strings = list(strings)
    out = []
    for kind, val in tokens:
        if kind == "n":
            out.append(("n", val))
        elif kind in ("s", "g"):
            out.append(val)
        elif kind == "c":
            out.append("..." if val == "ellipsis" else repr(CONST[val]))
        elif kind == "q":
            out.append(repr(strings.pop(0)) if val == "str" else repr(CONST[val]))
        elif kind == "t":
            out.append(fstring_text(val, escaped=False))
        elif kind == "tq":
            out.append(fstring_text(val, escaped=True))
        else:
            raise ValueError(f"unknown token kind {kind}")
    return out


def merged(pieces: list) -> list:
    """Adjacent text pieces merged (piece boundaries inside plain text are not part of the property)."""
    out: list = []
    for p in pieces:
        if isinstance(p, str) and out and isinstance(out[-1], str):
            out[-1] += p
        elif p != "":
            out.append(p)
    return out


def text(pieces: list) -> str:
    return "".join(p if isinstance(p, str) else p[1] for p in pieces)


def group_pairs(tokens: list) -> list:
    """Index pairs of matching grouping parentheses of a spec rendering."""
    stack, pairs = [], []
    for i, (kind, val) in enumerate(tokens):
        if kind == "g" and val != " ":
            if val == "(":
                stack.append(i)
            else:
                pairs.append((stack.pop(), i))
    return pairs


WRAP = {
    "value": ("v = ", "", lambda m: m.body[0].value),
    "annotation": ("v: ", "", lambda m: m.body[0].annotation),
    "default": ("def f(p=", "): pass", lambda m: m.body[0].args.defaults[0]),
    "returns": ("def f() -> ", ": pass", lambda m: m.body[0].returns),
    "decorator": ("@", "\ndef f(): pass", lambda m: m.body[0].decorator_list[0]),
    "base": ("class C(", "): pass", lambda m: m.body[0].bases[0]),
}


def parse_in(ctx: str, s: str):
    """Parse `s` at the syntactic position the expression was stored from; None on SyntaxError."""
    pre, post, pick = WRAP[ctx]
    try:
        return pick(ast.parse(pre + s + post))
    except (SyntaxError, IndexError, AttributeError, ValueError):
        return None


def dump(node) -> str:
    return ast.dump(node) if node is not None else "<SyntaxError>"
