"""C15 - static loading never executes analysed code; interpreter state is restored (spec/LoadProtocol.tla).

TLC decides the clauses of the property on the model (NoExecutionWhenStatic, CompiledSkippedWhenStatic,
PathRestoredAtEnd, Balanced, ... see LoadProtocol.tla) for every (options, module table, fault plan) of
the domains below, exhaustively.  Binding, both directions:

  * replay  (spec -> code): every case TLC enumerates is turned into a package on disk whose every module
    body appends its name to a sentinel file and whose faulty modules raise / sys.exit / import a missing
    dependency (gverif/props/c15_pkg.py); griffe.load runs on it in a worker process with bytecode writing
    enabled - in a forked, pristine child per case when inspection is possible, batched in-process when
    it is not (gverif/props/c15_child.py); the clauses of the property are evaluated on the real
    observations (sentinel, sys.modules delta, sys.path identity and content, __pycache__, exception
    class, recorded import steps) -> VIOLATION; the real terminal state is compared with the spec's
    terminal state(s) of the same case -> drift note.
  * trace validation (code -> spec): the events recorded by the taps are written as ndjson and
    Trace_LoadProtocol.tla (LoadProtocol's own actions + "the published event is the logged one") must
    accept every trace; a rejected trace on which the clauses hold is model drift (note), one on which a
    clause fails is already a VIOLATION.  Self-tests: a corrupted trace must be rejected at the corrupted
    event, every seeded defect of the model (cfg.bug, LoadProtocol_bugs.cfg) must violate its Catch... invariant in TLC.
"""
from __future__ import annotations

import copy
import json
import os
import random
import subprocess
import time
from concurrent.futures import ThreadPoolExecutor

from gverif import tlc
from gverif.common import PY, SEED, child_env, die, ensure_repo, scratch
from gverif.harness import Run
from gverif.props.c15_pkg import SO_VARIANTS, XC_VARIANTS, build_ext

PROP = "C15"
F4 = ["none", "raises", "exit", "missingdep"]
K4 = ["py", "pyi", "so", "missing"]
K5 = ["py", "pyi", "so", "xc", "missing"]          # xc = compiled for the finder, not importable here (.pyd, tagged .pyd, .pyo)
COMPILED = ("so", "sofile", "xc")
AF4 = ["--", "a-", "-f", "af"]
TOPS6 = ["py", "pyi", "so", "ns", "sofile", "missing"]


def tset(xs) -> str:
    return "{" + ", ".join(("TRUE" if x else "FALSE") if isinstance(x, bool) else f'"{x}"' for x in xs) + "}"


def dom(**kw) -> dict:
    base = dict(ALLOWFORCE=AF4, RESOLVES=["off"], STUBMODES=["none"], LAYOUTS=["flat", "chain"], TOPS=TOPS6, KIDSA=K4, KIDSB=K4,
                TOPFAULTS=F4, KIDFAULTS=F4, EXTFAULTS=["none"], EXTSTYLES=["none"], EXTPRIVATES=[False], EXTKINDS=["missing"], PATHMUTS=["none"], SUBMODS=[True], OBJSPECS=["name"], ENTRIES=["load"], ONPATHS=[False], WALKS=["none"])
    base.update(kw)
    return base


# The case space is the union of these domains (each one exhaustive in its own dimensions).
DOMAINS = {
    "quick": {
        # agent ladder x module tables over two layouts x fault placement (reduced fault kinds: the full product is the thorough tier's)
        "ladder": dom(KIDSA=["py", "so", "missing"], KIDSB=["py", "so", "missing"], TOPFAULTS=["none", "missingdep"], KIDFAULTS=["none", "exit"]),
        # every fault kind on every executable module of a flat package with one sub-module
        "faultkinds": dom(LAYOUTS=["flat"], KIDSA=["py", "so"], KIDSB=["missing"], TOPS=["py", "so", "sofile"]),
        # every module suffix the finder yields: importable compiled (so), foreign compiled (xc), source with a stub file next to it
        # (both), everywhere in both layouts, no faults
        "kinds": dom(TOPS=["py", "xc", "ns"], KIDSA=["py", "pyi", "both", "so", "xc", "missing"], KIDSB=["pyi", "both", "so", "xc", "missing"],
                     TOPFAULTS=["none"], KIDFAULTS=["none"]),
        # module bodies that modify sys.path in place / rebind it, then succeed or fail
        "pathmut": dom(ALLOWFORCE=["a-", "-f"], PATHMUTS=["inplace", "rebind"], TOPS=["py", "so", "sofile"], KIDSA=["py", "so", "missing"],
                       KIDSB=["so", "missing"], TOPFAULTS=["none", "raises"], KIDFAULTS=["none", "exit"]),
        # the other call forms: submodules=False, relative path string, pathlib.Path; source modules with a stub file next to them
        "callforms": dom(SUBMODS=[False, True], OBJSPECS=["name", "relpath", "abspath"], LAYOUTS=["flat"], KIDSA=["both", "so", "missing"], KIDSB=["missing"],
                         TOPFAULTS=["none", "exit"], KIDFAULTS=["none", "raises"]),
        # object paths ("p.X") and top-level modules only CPython can find (single-file compiled module, package in a zip archive)
        "dotted": dom(OBJSPECS=["name", "dotted"], LAYOUTS=["flat"], TOPS=["py", "pyi", "so", "ns", "sofile", "zip", "missing"], KIDSA=["so", "missing"],
                      KIDSB=["missing"], STUBMODES=["none", "find+ext"], TOPFAULTS=["none", "raises"], KIDFAULTS=["none"]),
        # the second caller of the protocol: load_git on a real repository (options forwarded)
        "git": dom(ENTRIES=["load_git"], OBJSPECS=["name", "dotted"], LAYOUTS=["flat"], TOPS=["py", "so", "sofile", "missing"],
                   KIDSA=["py", "so", "xc", "missing"], KIDSB=["missing"], TOPFAULTS=["none", "raises"], KIDFAULTS=["none"]),
        # options assigned to the attributes of an already built loader (built with the defaults), incl. external packages
        "attrs": dom(ENTRIES=["attrs"], OBJSPECS=["name", "dotted"], RESOLVES=["off", "true"], LAYOUTS=["flat"], TOPS=["py", "so", "sofile", "zip", "missing"],
                     KIDSA=["so", "missing"], KIDSB=["missing"], TOPFAULTS=["none", "raises"], KIDFAULTS=["none"],
                     EXTSTYLES=["none", "name"], EXTKINDS=["sofile"], EXTFAULTS=["none"]),
        # the search directory is already on sys.path; bodies leave sys.path alone / modify it in place / rebind it
        "onpath": dom(ONPATHS=[True], ENTRIES=["load", "attrs"], PATHMUTS=["none", "inplace", "rebind"], LAYOUTS=["flat"], TOPS=["py", "sofile"],
                      KIDSA=["so", "py", "missing"], KIDSB=["missing"], TOPFAULTS=["none", "exit"], KIDFAULTS=["none"]),
        # failures raised while the members of an imported module are enumerated (lazy attribute, PEP 562), not by its body
        "walk": dom(WALKS=["ok", "dep", "exit"], LAYOUTS=["flat"], TOPS=["py", "so", "sofile", "zip"], KIDSA=["py", "so", "missing"], KIDSB=["missing"],
                    STUBMODES=["none", "inpkg"], TOPFAULTS=["none"], KIDFAULTS=["none"]),
        # stubs: in-package __init__.pyi, stubs-only package with / without find_stubs_package
        "stubs": dom(STUBMODES=["inpkg", "ext", "find", "find+ext"], LAYOUTS=["flat"], KIDSA=["py", "so", "missing"], KIDSB=["missing"],
                     TOPFAULTS=["none", "raises"], KIDFAULTS=["none", "missingdep"]),
        # external packages reached by alias resolution / wildcard expansion
        "external": dom(RESOLVES=["off", "true", "false", "none"], STUBMODES=["none", "inpkg"], LAYOUTS=["flat"], TOPS=["py", "pyi"],
                        KIDSA=["so"], KIDSB=["missing"], TOPFAULTS=["none"], KIDFAULTS=["none"],
                        EXTSTYLES=["name", "star"], EXTPRIVATES=[False, True], EXTKINDS=["py", "sofile", "missing"], EXTFAULTS=["none", "raises"]),
    },
    "thorough": {
        # the full product: every kind of p / a / b in both layouts x every fault kind on every executable module
        "ladder": dom(),
        "kinds": dom(TOPS=["py", "pyi", "so", "xc", "ns"], KIDSA=K5, KIDSB=K5, TOPFAULTS=["none"], KIDFAULTS=["none", "raises"]),
        "pathmut": dom(ALLOWFORCE=["a-", "-f"], PATHMUTS=["inplace", "rebind"], TOPS=["py", "so", "sofile", "ns"], KIDSA=["py", "so", "missing"],
                       KIDSB=["py", "so", "missing"], KIDFAULTS=["none", "raises", "exit"]),
        "callforms": dom(SUBMODS=[False, True], OBJSPECS=["name", "relpath", "abspath"], STUBMODES=["none", "inpkg"], LAYOUTS=["flat"],
                         TOPS=["py", "pyi", "so", "xc", "ns", "sofile", "missing"], KIDSA=["both", "py", "so", "missing"], KIDSB=["missing", "so"],
                         TOPFAULTS=["none", "exit"], KIDFAULTS=["none", "raises"]),
        "dotted": dom(OBJSPECS=["name", "dotted"], STUBMODES=["none", "inpkg", "find+ext"], TOPS=["py", "pyi", "so", "xc", "ns", "sofile", "zip", "missing"],
                      KIDSA=["py", "so", "missing"], KIDSB=["so", "missing"], KIDFAULTS=["none", "raises"]),
        "git": dom(ENTRIES=["load_git"], OBJSPECS=["name", "dotted"], RESOLVES=["off", "true"], TOPS=["py", "pyi", "so", "ns", "sofile", "missing"],
                   KIDSA=["py", "so", "xc", "missing"], KIDSB=["so", "missing"], TOPFAULTS=["none", "raises"], KIDFAULTS=["none", "exit"],
                   EXTSTYLES=["none", "name"], EXTKINDS=["sofile"], EXTFAULTS=["none"]),
        "attrs": dom(ENTRIES=["attrs"], OBJSPECS=["name", "dotted"], RESOLVES=["off", "true"], LAYOUTS=["flat"],
                     TOPS=["py", "pyi", "so", "ns", "sofile", "zip", "missing"], KIDSA=["py", "so", "xc", "missing"], KIDSB=["missing"],
                     TOPFAULTS=["none", "raises"], KIDFAULTS=["none", "exit"], EXTSTYLES=["none", "name", "star"], EXTKINDS=["py", "sofile"]),
        "onpath": dom(ONPATHS=[True], ENTRIES=["load", "attrs"], PATHMUTS=["none", "inplace", "rebind"], TOPS=["py", "so", "ns", "sofile", "zip"],
                      KIDSA=["so", "py", "missing"], KIDSB=["so", "missing"], TOPFAULTS=["none", "exit", "raises"], KIDFAULTS=["none", "raises"]),
        "walk": dom(WALKS=["ok", "dep", "exit"], LAYOUTS=["flat"], TOPS=["py", "so", "sofile", "zip"], KIDSA=["py", "so", "missing"], KIDSB=["missing"],
                    STUBMODES=["none", "inpkg"], TOPFAULTS=["none"], KIDFAULTS=["none"]),
        "siblings": dom(KIDSA=["both", "py", "pyi", "so", "missing"], KIDSB=["both", "so", "missing"], TOPS=["py", "pyi", "ns", "so"],
                        TOPFAULTS=["none", "raises"], KIDFAULTS=["none", "raises", "exit"]),
        "stubs": dom(STUBMODES=["inpkg", "ext", "find", "find+ext"], KIDSA=["py", "pyi", "so", "missing"], KIDSB=["missing", "so"],
                     TOPFAULTS=["none", "raises", "exit"], KIDFAULTS=["none", "missingdep"]),
        "external": dom(RESOLVES=["off", "off+true", "true", "false", "none"], STUBMODES=["none", "inpkg", "find+ext"], LAYOUTS=["flat"],
                        TOPS=["py", "pyi"], KIDSA=["so", "missing"], KIDSB=["missing"], TOPFAULTS=["none", "exit"], KIDFAULTS=["none", "raises"],
                        EXTSTYLES=["none", "name", "star"], EXTPRIVATES=[False, True], EXTKINDS=["py", "sofile", "missing"], EXTFAULTS=F4),
        "external-chain": dom(RESOLVES=["true"], STUBMODES=["none", "inpkg"], LAYOUTS=["chain"], TOPS=["py", "pyi"],
                              KIDSA=["py", "so", "missing"], KIDSB=["py", "so"], TOPFAULTS=["none"], KIDFAULTS=["none", "exit"],
                              EXTSTYLES=["name", "star"], EXTPRIVATES=[False, True], EXTKINDS=["py", "sofile"], EXTFAULTS=["none", "raises"]),
    },
}

# seeded defects of the model (LoadProtocol.tla, cfg.bug) = the mutants transcribed; LoadProtocol_bugs.cfg run with -continue
# must report every one of these invariants violated and must not report CleanHolds
MODEL_BUGS = {"allowFirst": "CatchAllowFirst", "noReraise": "CatchNoReraise", "noFinally": "CatchNoFinally", "stubsDynamic": "CatchStubsDynamic",
              "externalInspect": "CatchExternalInspect", "pydInspected": "CatchPydInspected", "guardedRestore": "CatchGuardedRestore",
              "probeOnMiss": "CatchProbeOnMiss", "gitDropsAllow": "CatchGitDropsAllow",
              "cachedFlag": "CatchCachedFlag", "skipSwapOnPath": "CatchSkipSwapOnPath", "walkNoFinally": "CatchWalkNoFinally"}

EVENT_FIELDS = {
    "LoadExtensions": ["touched"], "Load": ["pkg"], "ResolveExternal": ["pkg"], "FindSpec": ["pkg", "res", "stubs", "viastubs"],
    "ChooseAgent": ["m", "agent"], "Visit": ["m"], "Submodule": ["m"], "CreateNsParent": ["name"], "SkipSubmodule": ["m", "why"],
    "DynImport": ["m"], "DynImportOk": ["m"], "DynImportFail": ["m"], "EnterSysPath": ["replaced"], "TryImport": ["m"], "Import": ["m"],
    "ImportOk": ["m"], "ImportFail": ["m"], "ExitSysPath": ["restored", "by"], "InspectTop": ["m"], "Inspected": ["m"], "InspectFail": ["m"],
    "WrapError": ["m", "frm", "to"], "LoadReturn": ["pkg", "path_ok"], "LoadRaise": ["pkg", "exc", "path_ok"], "Return": ["path_ok"],
    "Raise": ["exc", "path_ok"], "Checkout": [], "Cleanup": ["path_ok"], "SetOptions": ["allow", "force"],
}
# JVM options (tlc.run passes `env` on): tiny runs are start-up bound -> C1 only; all runs: few GC threads (many JVMs run concurrently)
JVM_TINY = {"JAVA_TOOL_OPTIONS": "-XX:TieredStopAtLevel=1 -XX:ParallelGCThreads=1 -XX:CICompilerCount=1"}
JVM_MAIN = {"JAVA_TOOL_OPTIONS": "-XX:ParallelGCThreads=2"}
ACTIONS = ["LoadExtensions", "LoadMain", "ResolveExternal", "FindSpec", "ChooseAgent", "Visit", "Submodule", "CreateNsParent", "SkipSubmodule", "DynImport",
           "EnterSysPath", "TryImport", "Import", "ImportOk", "ImportFail", "ExitSysPath", "DynImportOk", "DynImportFail", "InspectTop", "Inspected",
           "InspectFail", "WrapError", "StubPass", "LoadReturn", "LoadMissing", "LoadRaise", "Return", "Raise", "Checkout", "Cleanup", "SetOptions", "WalkFail"]
LEGAL_OUTCOMES = ("Return", "ModuleNotFoundError", "ImportError", "LoadingError")


def consts(d: dict) -> dict:
    return {k: (v if isinstance(v, str) else tset(v)) for k, v in d.items()}


def cfg_key(cfg: dict) -> str:
    return json.dumps(cfg, sort_keys=True)


def mode_of(cfg: dict) -> str:
    return "force" if cfg["force"] else ("allow" if cfg["allow"] else "static")


def file_of(cfg: dict, m: str) -> str:
    if m in ("p", "a", "b"):
        return "py" if cfg["file"][m] == "both" else cfg["file"][m]
    if m == "q":
        return "missing" if cfg["extstyle"] == "none" else cfg["extkind"]
    return "pyi"


def project_events(events: list) -> list:
    """real events -> the event records LoadProtocol publishes in `lastev` (same field sets)."""
    out = []
    for e in events:
        name = e["ev"]
        if name in ("LoadReturn", "LoadRaise", "Return", "Raise", "Cleanup"):
            e = dict(e, path_ok=bool(e.get("path_same") and e.get("path_equal") and e.get("saved") == 0))
        fields = EVENT_FIELDS.get(name)
        if fields is None:
            out.append({"ev": name, "unknown": True})
            continue
        out.append({"ev": name, **{f: ("?" if e.get(f) is None else e[f]) for f in fields}})      # TLC's Json module has no null
    return out


# ---- the property evaluated on the real observations ----------------------------------------------------
def clauses(cfg: dict, r: dict) -> list:
    bad = []
    static = not (cfg["allow"] or cfg["force"])
    ev = r["events"]
    if static:
        if r["executed"]:
            bad.append(("static-no-execution", f"inspection disallowed but module bodies ran: {r['executed_seq']}"))
        if r["sysmodules"]:
            bad.append(("static-no-sysmodules", f"inspection disallowed but sys.modules gained {r['sysmodules']}"))
        if r["pycache"]:
            bad.append(("static-no-bytecode", f"inspection disallowed but byte code was written: {r['pycache']}"))
        steps = [e for e in ev if e["ev"] in ("TryImport", "Import", "DynImport")]
        if steps:
            bad.append(("static-no-import-attempt", f"inspection disallowed but the import machinery was entered: {[(e['ev'], e.get('m')) for e in steps][:6]}"))
        stmts = [a for a in r.get("aux", []) if a["ev"] == "ImportStmt"]
        if stmts:
            bad.append(("static-no-execution", f"inspection disallowed but an import statement of the package ran: {stmts[:3]}"))
        if r.get("leaked_before"):
            bad.append(("static-no-sysmodules", f"modules of a previous statically loaded case are in sys.modules: {r['leaked_before']}"))
        chosen = {}
        for e in ev:
            if e["ev"] == "ChooseAgent":
                chosen[e["m"]] = e["agent"]
        for m in ("p", "a", "b", "q"):
            if file_of(cfg, m) in COMPILED and chosen.get(m) not in (None, "refuse", "create"):
                bad.append(("static-compiled-skipped", f"compiled module {m} was handed to agent {chosen[m]} with inspection disallowed"))
        offered = [e["m"] for e in ev if e["ev"] == "Submodule"]
        skipped = [e["m"] for e in ev if e["ev"] == "SkipSubmodule"]
        for m in offered:
            if file_of(cfg, m) in COMPILED and m not in skipped and r["outcome"] == "Return":
                bad.append(("static-compiled-skipped", f"compiled sub-module {m} was not skipped"))
    if not cfg["force"]:
        for e in ev:
            if e["ev"] == "ChooseAgent" and file_of(cfg, e["m"]) in ("py", "pyi") and e["agent"] not in ("visit",):
                bad.append(("source-visited-unless-forced", f"module {e['m']} has sources ({file_of(cfg, e['m'])}) and inspection is not forced, yet agent {e['agent']} was chosen"))
                break
    if not (r["path_same"] and r["path_equal"] and r["saved_depth"] == 0):
        how = "rebound" if not r["path_same"] else "content changed"
        bad.append(("path-restored-at-end", f"after outcome {r['outcome']} sys.path is not what it was ({how}): {r.get('path_now')}"))
    depth = 0
    for e in ev:
        if e["ev"] == "EnterSysPath":
            depth += 1
        elif e["ev"] == "ExitSysPath":
            depth -= 1
            if not e["restored"]:
                bad.append(("exit-restores-path", f"sys_path exit ({e['by']}) did not put the saved sys.path back"))
        elif e["ev"] in ("LoadReturn", "LoadRaise", "Cleanup") and not (e["path_same"] and e["path_equal"] and e["saved"] == 0):
            bad.append(("path-restored-after-load", f"sys.path not restored when load({e.get('pkg', 'p')}) ended ({e['ev']})"))
        elif e["ev"] == "LoadExtensions" and e["touched"]:
            bad.append(("noop-sys-path", "sys_path() without paths rebound sys.path"))
        if depth < 0 or depth > 1:
            bad.append(("balanced", f"sys_path nesting depth {depth}"))
            break
    if depth != 0 and not any(b[0] == "balanced" for b in bad):
        bad.append(("balanced", f"sys_path entered {depth} more time(s) than exited"))
    if r["outcome"] not in LEGAL_OUTCOMES and not (r["outcome"] == "FileNotFoundError" and cfg.get("objspec") == "abspath" and not r["executed"]) \
            and not (r["outcome"] == "KeyError" and cfg.get("objspec") == "dotted"):
        bad.append(("outcome-class", f"griffe.load ended with {r['outcome']}: {r.get('tb', '')[-300:]}"))
    seen, uniq = set(), []
    for b in bad:
        if b[0] not in seen:
            seen.add(b[0])
            uniq.append(b)
    return uniq


def real_terminal(r: dict) -> dict:
    agent = {m: "none" for m in ("p", "a", "b", "q", "s", "as", "bs")}
    for e in r["events"]:
        if e["ev"] == "ChooseAgent" and e["m"] in agent:
            agent[e["m"]] = e["agent"]
    return {
        "outcome": r["outcome"], "executed": sorted(r["executed"]), "sysmodules": sorted(r["sysmodules"]), "agent": agent,
        "skipped": sorted({e["m"] for e in r["events"] if e["ev"] == "SkipSubmodule"}),
        "offered": sorted({e["m"] for e in r["events"] if e["ev"] == "Submodule"}),
        "nsparents": sorted({e["name"] for e in r["events"] if e["ev"] == "CreateNsParent"}),
    }


def spec_terminal(c: dict) -> dict:
    return {"outcome": c["outcome"], "executed": sorted(c["executed"]), "sysmodules": sorted(c["sysmodules"]), "agent": c["agent"],
            "skipped": sorted(c["skipped"]), "offered": sorted(c["offered"]), "nsparents": sorted(c["nsparents"])}


# ---- running cases on the real code ------------------------------------------------------------------------
def worker_env() -> dict:
    env = child_env()
    env.pop("PYTHONDONTWRITEBYTECODE", None)      # import side effects must be real
    return env


def run_batch(cases: list, workdir: str, fresh: bool = False) -> list:
    cmd = [PY, "-m", "gverif.props.c15_child", workdir] + (["--fresh"] if fresh else [])
    proc = subprocess.run(cmd, input="\n".join(json.dumps(c) for c in cases) + "\n", capture_output=True, text=True, env=worker_env(), check=False)
    out = []
    for line in proc.stdout.splitlines():
        try:
            out.append(json.loads(line))
        except ValueError:
            die(f"C15 worker printed garbage: {line[:200]}")
    if proc.returncode != 0 or len(out) != len(cases):
        die(f"C15 worker failed rc={proc.returncode}, {len(out)}/{len(cases)} results: {proc.stderr[-1500:]}")
    return out


def run_cases(cases: list, workdir: str, nworkers: int) -> dict:
    """-> {id: result}.  Static cases of one worker share its interpreter (in sequence), the others are forked."""
    shards = [cases[k::nworkers] for k in range(nworkers)]
    results = {}
    with ThreadPoolExecutor(max_workers=nworkers) as pool:
        for res in pool.map(lambda sh: run_batch(sh, workdir) if sh else [], shards):
            for r in res:
                results[r["id"]] = r
    return results


# ---- trace validation ----------------------------------------------------------------------------------------
def validate_traces(lines: list, workdir: str, tag: str, chunk: int, parallel: int, tlc_workers: int, jvm: dict = JVM_MAIN) -> tuple:
    """lines: [{tid, cfg, events}] -> ({tid: verdict record}, [TLCResult])."""
    jobs = []
    chunks = [lines[k:k + chunk] for k in range(0, len(lines), chunk)]
    with ThreadPoolExecutor(max_workers=max(1, parallel)) as pool:
        for n, ch in enumerate(chunks):
            path = os.path.join(workdir, f"traces-{tag}-{n}.ndjson")
            with open(path, "w") as fh:
                for ln in ch:
                    fh.write(json.dumps(ln) + "\n")
            jobs.append(pool.submit(tlc.run, "Trace_LoadProtocol", "Trace_LoadProtocol.cfg", workers=tlc_workers, env=dict(jvm, C15_TRACE_FILE=path),
                                    timeout=3000, heap="3g"))
    verdicts, results = {}, []
    for job in jobs:
        res = job.result()
        results.append(res)
        if res.errors or not res.finished or res.violated:
            print(res.tail)
            die(f"C15: trace validation run failed: errors={res.errors[:2]} violated={res.violated} (a property invariant violated on a recorded trace cannot happen "
                "on an accepted prefix: the trace spec or the model is wrong)")
        for v in res.cases:
            old = verdicts.get(v["tid"])
            if old is None or (v["verdict"] == "reject" and old["verdict"] != "reject"):
                verdicts[v["tid"]] = v
    return verdicts, results


def corrupt(line: dict, rnd: random.Random) -> tuple:
    """Change one recorded field of one event.  Returns (corrupted line, index, description)."""
    line = copy.deepcopy(line)
    ev = line["events"]
    cands = []
    for k, e in enumerate(ev):
        if e["ev"] == "ChooseAgent":
            cands.append((k, "agent", {"visit": "inspect", "inspect": "visit", "refuse": "inspect", "create": "visit"}[e["agent"]]))
        if e["ev"] == "ExitSysPath":
            cands.append((k, "restored", not e["restored"]))
        if e["ev"] in ("LoadReturn", "Return", "Raise", "LoadRaise"):
            cands.append((k, "path_ok", not e["path_ok"]))
        if e["ev"] == "Import":
            cands.append((k, "m", "b" if e["m"] != "b" else "a"))
        if e["ev"] == "FindSpec":
            cands.append((k, "res", "notfound" if e["res"] != "notfound" else "package"))
    k, field, val = rnd.choice(cands)
    desc = f"event {k + 1} {ev[k]['ev']}.{field}: {ev[k][field]!r} -> {val!r}"
    ev[k][field] = val
    return line, k, desc


def selftest_batch(lines: list, rnd: random.Random, n: int) -> tuple:
    """corrupted copies of n recorded traces (one field changed each) + one with an event dropped + one truncated + one
    untouched control; validated in the same TLC run as the real traces.  -> (extra lines, {tid: (orig tid, position, what)})"""
    pool = [ln for ln in lines if any(e["ev"] == "Import" for e in ln["events"])] or lines
    picks = rnd.sample(pool, min(n, len(pool)))
    batch, expect = [], {}
    for j, ln in enumerate(picks):
        bad, k, desc = corrupt(ln, rnd)
        bad["tid"] = 9000000 + j
        batch.append(bad)
        expect[bad["tid"]] = (ln["tid"], k, desc)
    dropped = copy.deepcopy(picks[0])
    kdrop = next(k for k, e in enumerate(dropped["events"]) if e["ev"] in ("Import", "ChooseAgent"))
    del dropped["events"][kdrop]
    dropped["tid"] = 9900001
    expect[9900001] = (picks[0]["tid"], kdrop, f"event {kdrop + 1} dropped")
    trunc = copy.deepcopy(picks[-1])
    trunc["events"] = trunc["events"][:-1]
    trunc["tid"] = 9900002
    expect[9900002] = (picks[-1]["tid"], len(trunc["events"]), "last event (Return/Raise) removed")
    control = copy.deepcopy(picks[0])
    control["tid"] = 9900003
    expect[9900003] = (picks[0]["tid"], None, "untouched control copy")
    batch += [dropped, trunc, control]
    return batch, expect


def selftest_verdicts(run: Run, verdicts: dict, expect: dict):
    done = 0
    for tid, (orig, k, desc) in expect.items():
        if verdicts.get(orig, {}).get("verdict") != "accept":
            continue              # the original itself was not accepted (drift or a violation): nothing to learn from its corruption
        v = verdicts.get(tid)
        if k is None:
            if v is None or v["verdict"] != "accept":
                die(f"C15 binding self-test: the {desc} of an accepted trace was not accepted: {v}")
            continue
        if v is None or v["verdict"] != "reject" or v["at"] != k:
            die(f"C15 binding self-test: corrupted trace ({desc}) was not rejected at event {k + 1}: verdict {v}")
        done += 1
        run.sample({"selftest": "corrupted trace rejected by Trace_LoadProtocol", "what": desc, "verdict": v}, limit=6)
    run.extra["selftest_corrupted_traces_rejected"] = done
    return done


def selftest_model_bugs(run: Run):
    """every seeded defect of the model must make TLC report its Catch... invariant (vacuity guard for the clauses)."""
    res = tlc.run("LoadProtocol", "LoadProtocol_bugs.cfg", workers=2, deadlock=True, timeout=900, env=JVM_MAIN, heap="1g", extra=["-continue"])
    if res.errors or not res.finished:
        print(res.tail)
        die(f"C15: TLC failed on the seeded model defects: {res.errors[:2]}")
    run.add_tlc(res)
    got = sorted(set(res.violated))
    missing = [inv for inv in MODEL_BUGS.values() if inv not in got]
    if missing or "CleanHolds" in got:
        die(f"C15: seeded model defects: TLC reported {got}; not caught: {missing}; clean model violated: {'CleanHolds' in got} - the invariants are vacuous or the model is wrong")
    run.extra["model_bugs_caught"] = {b: inv for b, inv in MODEL_BUGS.items()}


# ---- main -------------------------------------------------------------------------------------------------------
def sig_of(cfg: dict, clause: str, r: dict) -> dict:
    return {"clause": clause, "mode": mode_of(cfg), "top": cfg["file"]["p"], "stubs": cfg["stubs"] + ("+find" if cfg["findstubs"] else ""),
            "ext": cfg["extstyle"] if cfg["extstyle"] == "none" else cfg["extstyle"] + ":" + cfg["extkind"], "pathmut": cfg.get("pathmut", "none"), "walk": cfg.get("walk", "none"),
            "call": cfg.get("entry", "load") + ("+onpath" if cfg.get("onpath") else "") + ":" + cfg.get("objspec", "name") + ("" if cfg.get("submodules", True) else "+nosub"), "outcome": r["outcome"]}


def judge(run: Run, case: dict, r: dict, variants: list | None) -> tuple:
    """property clauses on the real observations (-> violations) and conformance with the spec terminal (-> drift)."""
    cfg = case["cfg"]
    if "machinery_error" in r:
        die(f"C15 worker: case {case['id']}: {r['machinery_error']}")
    if any(e["ev"] == "TapError" for e in r["events"]):
        die(f"C15 taps failed: {[e for e in r['events'] if e['ev'] == 'TapError'][:1]}")
    run.evaluated()
    run.replayed()
    bad = clauses(cfg, r)
    for clause, what in bad:
        run.violation(sig_of(cfg, clause, r), f"{clause}: {what}  [options allow={cfg['allow']} force={cfg['force']} resolve={cfg['resolve']}/{cfg['external']} "
                      f"find_stubs={cfg['findstubs']}; files {cfg['file']} layout {cfg['layout']} stubs {cfg['stubs']} ext {cfg['extstyle']}/{cfg['extkind']}; "
                      f"faults {cfg['fault']}; compiled as {r.get('compiled_as')}/{r.get('xc_as')}; bodies' sys.path action: {cfg.get('pathmut')}]", {"case": case})
    drift = None
    if variants is not None:
        real = real_terminal(r)
        if not any(spec_terminal(v) == real for v in variants):
            sp = spec_terminal(variants[0])
            diff = [k for k in real if real[k] != sp[k]]
            drift = f"{mode_of(cfg)} {cfg['file']} {cfg['layout']}: fields {diff}: spec {[sp[k] for k in diff]} real {[real[k] for k in diff]}"
    return bad, drift


def main(tier: str, replay: str | None = None):
    ensure_repo()
    run = Run(PROP, tier)
    rnd = random.Random(SEED)
    run.rule = ("LoadProtocol.tla: case = (allow/force, resolve_aliases x resolve_external, find_stubs_package x stubs placement, layout flat/chain, "
                "kind of p / p.a / p.b in py|pyi|compiled|missing (+ namespace, single-file compiled top), external package style/kind, fault plan); "
                "every case of every domain is replayed on disk; non-trivial = distinct case in which something could execute or fail: a compiled or "
                "faulty module is present, or inspection is possible, or an external package / stubs package is reachable.")
    with scratch("c15-") as workdir:
        ext_so = build_ext(workdir)
        if ext_so is None:
            run.note("no C compiler / Python.h: compiled modules are concretised as sourceless .pyc only")
        if replay:
            with open(replay) as fh:
                rec = json.load(fh)
            print(rec["what"])
            case = rec["case"]["case"]
            r = run_batch([case], workdir)[0]
            bad, _ = judge(run, case, r, None)
            print("observed:", {k: r[k] for k in ("outcome", "executed_seq", "sysmodules", "path_same", "path_equal", "pycache")})
            print("events:  ", " ".join(e["ev"] + "(" + ",".join(str(v) for k, v in e.items() if k != "ev") + ")" for e in project_events(r["events"])))
            run.states = run.transitions = 1
            run.finish()
        _main(run, tier, rnd, workdir, ext_so)


def _main(run: Run, tier: str, rnd: random.Random, workdir: str, ext_so):
    t0 = time.time()
    domains = DOMAINS[tier]
    only = [d for d in os.environ.get("C15_DOMAINS", "").split(",") if d]      # debugging aid: restrict to some domains
    if only:
        domains = {k: v for k, v in domains.items() if k in only}
        run.note(f"restricted to domains {sorted(domains)} (C15_DOMAINS): not a full run")
    ncpu = os.cpu_count() or 4
    # ---- 1. TLC: the property on the model, every case enumerated ---------------------------------------------------
    with ThreadPoolExecutor(max_workers=6) as pool:
        jobs = {}
        for name, d in domains.items():
            afs = d["ALLOWFORCE"]
            # one TLC process per allow/force value of the big domains (they are independent parts of the state space)
            parts = [[a] for a in afs] if tier == "thorough" else [afs]
            for part in parts:
                jobs[name, tuple(part)] = pool.submit(tlc.run, "LoadProtocol", "LoadProtocol_check.cfg", workers=2 if tier == "quick" else 4,
                                                      constants=consts(dict(d, ALLOWFORCE=part)), deadlock=True, coverage=tier == "thorough", timeout=3000, heap="3g", env=JVM_MAIN)
        bugs_job = pool.submit(selftest_model_bugs, run)
    spec = {}
    per_domain = {}
    fired = {}
    for (name, part), job in jobs.items():
        res = job.result()
        tlc.must(res)          # an invariant violated in the clean model = the model (or the design) is wrong: exit 2
        run.add_tlc(res)
        for c in res.cases:
            c["cfg"].pop("bug", None)          # always "none" here (Bugs = {"none"}); not part of the concretised case
            k = cfg_key(c["cfg"])
            vs = spec.setdefault(k, [])
            if not any(spec_terminal(v) == spec_terminal(c) for v in vs):
                vs.append(c)
            per_domain.setdefault(name, set()).add(k)
        for act, (_d, total) in res.coverage.items():
            fired[act] = fired.get(act, 0) + total
    bugs_job.result()
    if tier == "thorough":         # TLC's own action coverage (costs ~40 % CPU: thorough only; quick counts the validated events below)
        never = [a for a in ACTIONS if not fired.get(a)]
        if never and not only:
            die(f"C15: vacuous model: action(s) {never} never taken in any domain")
        run.extra["action_coverage"] = {a: fired[a] for a in ACTIONS}
    run.extra["cases_per_domain"] = {k: len(v) for k, v in per_domain.items()}
    run.extra["cases_with_order_dependent_terminal_state"] = sum(1 for v in spec.values() if len(v) > 1)
    if len(spec) < 1000 and not only:
        die(f"C15: only {len(spec)} cases enumerated - vacuous")
    t_tlc = time.time() - t0
    # ---- 2. replay every case on the real code ------------------------------------------------------------------------
    cases = []
    for n, (k, vs) in enumerate(sorted(spec.items())):
        cfg = vs[0]["cfg"]
        kinds = {file_of(cfg, m) for m in ("p", "a", "b", "q")}
        has_so, has_xc = bool(kinds & {"so", "sofile"}), "xc" in kinds
        static = not (cfg["allow"] or cfg["force"])
        so_all = SO_VARIANTS if ext_so else ["pyc"]
        # concretisations of the compiled kinds rotate over the cases (4 and 3 variants: every pair occurs); the thorough tier
        # takes every foreign-compiled suffix for the static cases and both a byte-code and a real extension module for the ladder
        sos = [so_all[n % len(so_all)]] if has_so else ["pyc"]
        xcs = [XC_VARIANTS[n % 3]] if has_xc else ["pyd"]
        if tier == "thorough":
            if has_xc and static:
                xcs = XC_VARIANTS
            if has_so and ext_so and k in per_domain.get("ladder", ()):
                sos = ["pyc", "so"]
        for ca in sos:
            for xa in xcs:
                cases.append({"id": len(cases), "cfg": cfg, "compiled_as": ca, "xc_as": xa, "key": k})
    rnd.shuffle(cases)
    nworkers = max(2, min(12, ncpu - 2))
    results = run_cases(cases, workdir, nworkers)
    t_replay = time.time() - t0 - t_tlc
    drift = 0
    lines = []
    flagged = set()
    static_n = compiled_static = faulted = 0
    for case in cases:
        r = results[case["id"]]
        cfg = case["cfg"]
        bad, d = judge(run, case, r, spec[case["key"]])
        if bad:
            flagged.add(case["id"])
        if d:
            drift += 1
            run.extra.setdefault("drift_examples", [])
            if drift <= 30:
                run.extra["drift_examples"].append(d)
            if drift <= 5:
                run.note(f"drift (terminal state): {d}")
        static = not (cfg["allow"] or cfg["force"])
        static_n += static
        if static and any(file_of(cfg, m) in COMPILED for m in ("p", "a", "b", "q")):
            compiled_static += 1
        if r["executed"] and any(cfg["fault"][m] != "none" for m in r["executed"] if m in cfg["fault"]):
            faulted += 1
        interesting = (not static) or any(file_of(cfg, m) in COMPILED for m in ("p", "a", "b", "q")) or any(v != "none" for v in cfg["fault"].values()) \
            or cfg["stubs"] != "none" or cfg["extstyle"] != "none"
        if interesting:
            run.nontrivial_case(case["key"] + case["compiled_as"] + case["xc_as"])
        lines.append({"tid": case["id"], "cfg": dict(cfg, bug="none"), "events": project_events(r["events"])})
        if len(run.samples) < 4 and (faulted or static) and r["events"]:
            run.sample({"cfg": cfg, "compiled_as": r.get("compiled_as"), "outcome": r["outcome"], "executed": r["executed_seq"], "sysmodules": r["sysmodules"],
                        "path_same": r["path_same"], "path_equal": r["path_equal"], "events": [e["ev"] for e in r["events"]][:40]}, limit=4)
    run.extra.update(replayed_static=static_n, replayed_static_with_compiled_module=compiled_static, replayed_with_fault_fired=faulted,
                     forked_cases=sum(1 for r in results.values() if r.get("forked")), concretisations={v: sum(1 for c in cases if c["compiled_as"] == v and {file_of(c["cfg"], m) for m in "pabq"} & {"so", "sofile"}) for v in SO_VARIANTS}
                     | {v: sum(1 for c in cases if c["xc_as"] == v and "xc" in {file_of(c["cfg"], m) for m in "pab"}) for v in XC_VARIANTS},
                     pathmut_runs={pm: sum(1 for c in cases if c["cfg"].get("pathmut") == pm and (c["cfg"]["allow"] or c["cfg"]["force"])) for pm in ("inplace", "rebind")})
    if static_n == 0 or compiled_static == 0 or faulted == 0:
        die("C15: vacuous replay (no static case / no static case with a compiled module / no fault ever fired)")
    # ---- 3. trace validation: every recorded trace must be a behaviour of the spec ------------------------------------------
    st_lines, st_expect = selftest_batch(lines, rnd, 6 if tier == "quick" else 40)
    verdicts, tres = validate_traces(lines + st_lines, workdir, "all", 6000 if tier == "quick" else 11000, 4, 4)
    for res in tres:
        run.add_tlc(res)
    accepted = sum(1 for ln in lines if verdicts.get(ln["tid"], {}).get("verdict") == "accept")
    rejected = [verdicts[ln["tid"]] for ln in lines if verdicts.get(ln["tid"], {}).get("verdict") == "reject"]
    missing = [ln["tid"] for ln in lines + st_lines if ln["tid"] not in verdicts]
    if missing:
        die(f"C15: trace validation produced no verdict for {len(missing)} trace(s), e.g. tid {missing[:3]}")
    run.replayed(accepted)
    # vacuity: every action of the spec must have fired on accepted real traces (each validated event = one action taken by TLC)
    acc = {ln["tid"] for ln in lines if verdicts.get(ln["tid"], {}).get("verdict") == "accept"}
    seen_ev = {}
    for ln in lines:
        if ln["tid"] in acc:
            for e in ln["events"]:
                name = "StubPass" if (e["ev"] == "ChooseAgent" and e["m"] == "s" and any(x["ev"] == "Submodule" or x["ev"] == "Visit" or x["ev"] == "Inspected" for x in ln["events"][:ln["events"].index(e)])) else e["ev"]
                if e["ev"] == "LoadRaise" and e.get("exc") == "KeyError":
                    name = "LoadMissing"
                k = ln["events"].index(e)
                if e["ev"] == "InspectFail" and k > 0 and ln["events"][k - 1]["ev"] == "DynImportOk":
                    name = "WalkFail"          # the import succeeded, the member walk raised
                seen_ev[name] = seen_ev.get(name, 0) + 1
    seen_ev["LoadMain"] = seen_ev.pop("Load", 0)
    never = [a for a in ACTIONS if not seen_ev.get(a)]
    if never and not run.violations and not os.environ.get("C15_DOMAINS"):
        die(f"C15: vacuous binding: no accepted real trace contains the action(s) {never}")
    run.extra["validated_events_per_action"] = {a: seen_ev.get(a, 0) for a in ACTIONS}
    run.extra.update(traces_recorded=len(lines), traces_accepted=accepted, traces_rejected=len(rejected), events_validated=sum(len(ln["events"]) for ln in lines))
    by_id = {c["id"]: c for c in cases}
    unexplained = 0
    for v in rejected:
        if v["tid"] in flagged:
            continue          # the rejected trace belongs to a case already reported as a violation
        unexplained += 1
        if unexplained <= 30:
            run.extra.setdefault("rejected_examples", []).append({"cfg": by_id[v["tid"]]["cfg"], "verdict": v})
        if unexplained <= 5:
            cfg = by_id[v["tid"]]["cfg"]
            run.note(f"drift (trace rejected, property clauses hold): case {mode_of(cfg)} {cfg['file']} {cfg['layout']} stubs={cfg['stubs']} ext={cfg['extstyle']}/{cfg['extkind']} "
                     f"faults={cfg['fault']}: event {v['at'] + 1}/{v['len']} {v['next']} not enabled at pc={v['pc']} cur={v['cur']}")
    run.extra["traces_rejected_unexplained"] = unexplained
    t_trace = time.time() - t0 - t_tlc - t_replay
    # ---- 4. self-tests of the binding ----------------------------------------------------------------------------------------
    if selftest_verdicts(run, verdicts, st_expect) == 0 and not run.violations:
        die("C15: the corrupted-trace self-test did not run on any accepted trace")
    if tier == "thorough":
        # fresh-interpreter cross-check of the forked-child isolation: same observations from a brand-new interpreter
        dyn = [c for c in cases if c["cfg"]["allow"] or c["cfg"]["force"]]
        sample = rnd.sample(dyn, min(160, len(dyn)))
        with ThreadPoolExecutor(max_workers=nworkers) as pool:
            fresh = list(pool.map(lambda c: run_batch([c], workdir, fresh=True)[0], sample))
        for c, fr in zip(sample, fresh):
            a, b = results[c["id"]], fr
            for k in ("outcome", "executed_seq", "sysmodules", "path_same", "path_equal", "pycache"):
                if a.get(k) != b.get(k):
                    die(f"C15: forked run and fresh-interpreter run disagree on {k} for case {c['cfg']}: {a.get(k)} vs {b.get(k)}")
            if project_events(a["events"]) != project_events(b["events"]):
                die(f"C15: forked run and fresh-interpreter run recorded different traces for case {c['cfg']}")
        run.extra["fresh_interpreter_crosschecked"] = len(sample)
    if drift:
        run.note(f"{drift} case(s) whose real terminal state differs from the spec's (model drift; the verdict comes from the clauses evaluated on the real observations)")
    run.extra.update(drift=drift, wall_tlc_s=round(t_tlc, 1), wall_replay_s=round(t_replay, 1), wall_trace_s=round(t_trace, 1))
    run.exhaustive = True
    run.finish()
