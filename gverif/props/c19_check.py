"""C19: real result -> vocabulary of spec/Merge.tla, and the property clauses evaluated on it.

`spec_tree(real projection)` builds the uniform node records of Merge.tla (operator P / TreeOf);
`clauses(...)` is a line-by-line copy of operator Clauses (it is cross-checked on every Impl result TLC
emitted: the booleans TLC computed must be reproduced here, otherwise exit 2).
"""
from __future__ import annotations

import os

from gverif.props import c19_world as w

NAMES4 = ["a", "b", "u", "v"]
TNAMES = ["fn_a", "fn_b", "Kl_a", "Kl_b", "at_a", "at_b"]
COORDS = [(n, f) for n in ("a", "b") for f in ("self", "u", "v")]
CLAUSES = ["keep", "types", "doc", "added", "untouched", "noresolve", "noraise", "eqref"]
SITE = {"members-kind-test": "kind", "overloads-set": "ovl"}


def pa() -> dict:
    return {"k": "absent", "rt": True, "doc": "none", "ann": "none", "par": {"p": "absent", "q": "absent", "r": "absent"},
            "ret": "none", "ovl": [], "ovd": {n: [] for n in NAMES4}, "ord": [], "tp": "", "tgt": "nil"}


def node(o: dict | None) -> dict:
    r = pa()
    if o is None:
        return r
    r["k"] = o["k"]
    r["rt"] = o["rt"]
    if o["k"] == "alias":
        r["tp"] = o["tp"]
        r["tgt"] = o["tgt"]
        return r
    r["doc"] = o["doc"]
    if o["k"] == "function":
        for name, ann in o["par"].items():
            r["par"][name] = ann
        r["ret"] = o["ret"]
        r["ovl"] = list(o["ovl"])
    elif o["k"] == "attribute":
        r["ann"] = o["ann"]
        r["ovl"] = list(o.get("ovl", []))
    else:
        for name, lst in o["ovd"].items():
            if name == "<clobbered>":
                r["ovl"] = list(lst)
            else:
                r["ovd"][name] = list(lst)
        r["ord"] = list(o["order"])
    return r


def sub(o: dict | None) -> dict:
    mem = (o or {}).get("mem", {}) if o and o["k"] in ("class", "module") else {}
    return {"self": node(o), "u": node(mem.get("u")), "v": node(mem.get("v"))}


def spec_tree(mod: dict | None) -> dict:
    if mod is None:
        return {"self": pa(), "a": sub(None), "b": sub(None)}
    return {"self": node(mod), "a": sub(mod["mem"].get("a")), "b": sub(mod["mem"].get("b"))}


def spec_tgt(tgt: dict | None) -> dict | None:
    if tgt is None:
        return None
    return {n: sub(tgt["mem"].get(n)) for n in TNAMES}


def N(t: dict, c) -> dict:
    return t[c[0]][c[1]]


def types(x: dict):
    return (x["par"], x["ret"], x["ann"], x["ovl"])


def clauses(case: dict, t: dict, file: str, tgt_same: bool, err: str, raised: bool, derefs: list) -> dict:
    """-> {clause: [failing coordinates / markers]} (empty list = clause holds)."""
    pre, ref, cls = case["preR"], case["ref"], case["class"]
    out = {c: [] for c in CLAUSES}
    if file != "R":
        out["keep"].append("file")
    if t["self"]["doc"] != ref["self"]["doc"]:
        out["doc"].append("mod")
    if not tgt_same:
        out["noresolve"].append("tgt")
        out["eqref"].append("tgt")
    if any(d["ok"] for d in derefs):
        out["noresolve"].append("deref")
    if err != "none":
        out["noraise"].append("load")
    if raised:
        out["noraise"].append("merge_stubs")
    if t != ref:
        out["eqref"].append("tree")
    for c in COORDS:
        k = cls[c[0]][c[1]]
        name = ".".join(c)
        x, r, p = N(t, c), N(ref, c), N(pre, c)
        if p["k"] != "absent" and x["k"] != p["k"]:
            out["keep"].append(name)
        if k == "same" and types(x) != types(r):
            out["types"].append(name)
        if k == "same" and x["doc"] != r["doc"]:
            out["doc"].append(name)
        if k in ("stubonly", "moved") and x != r:
            out["added"].append(name)
        if k == "other" and x != p:
            out["untouched"].append(name)
        if x["tgt"] != r["tgt"]:
            out["noresolve"].append(name)
    return out


def impl_run(case: dict, res: dict) -> dict:
    """A result record of the spec, with the <<>> = 'equal to the reference' shorthand expanded."""
    tree = res["tree"][0] if res["tree"] else case["ref"]
    return {"place": res["place"], "order": res["order"], "req": res["req"], "file": res["file"], "err": res["err"], "raised": res["raised"],
            "derefs": sorted(({"alias": d["alias"], "site": d["site"], "ok": d["ok"]} for d in res["derefs"]), key=str),
            "tree": tree, "tgt_same": not res["tgt"], "tgt": res["tgt"][0] if res["tgt"] else None,
            "trace": [{"op": s["op"], "n": s["n"], "i": s["i"]} for s in res["trace"]]}


def abstract_case(case: dict, place: str, order: str, req: str = "top") -> dict:
    ord_ = case["ref"]["self"]["ord"]       # ReqPath of the spec: the object asked for is the first member of the merged module
    return {"cells": [case["a"], case["b"]], "mdoc": case["mdoc"], "place": place, "order": order, "req": req, "obj": ord_[0] if ord_ else None}


def real_run(griffe, taps, case: dict, place: str, order: str, base: str, tgt0: dict, req: str = "top") -> dict:
    """One (placement, order) run of the real code, in the shape of impl_run()."""
    d = os.path.join(base, f"{place}-{order}-{req}")
    os.makedirs(d)
    out = w.run_case(griffe, taps, abstract_case(case, place, order, req), d)
    err = out["exc"]
    tree = spec_tree(out.get("mod") if err == "none" else None)
    tgt = spec_tgt(out.get("tgt"))
    if tgt is None:      # load() raised: the target module is still in the loader, project it from there
        tgt = spec_tgt(out.get("tgt_after_error"))
    derefs = {(SITE.get(x["site"], x["site"]) if taps.sites_ok else "?", x["alias"], x["ok"]) for x in out["derefs"]}
    return {"place": place, "order": order, "req": req, "file": {"py": "R", "pyi": "S"}.get(out.get("file"), "nil"), "err": err,
            "raised": any(e is not None for e in out["merge_exc"]),
            "derefs": sorted(({"alias": a, "site": s, "ok": ok} for s, a, ok in derefs), key=str),
            "tree": tree, "tgt_same": tgt == tgt0, "tgt": None if tgt == tgt0 else tgt,
            "trace": out["steps"], "merges": out["merges"], "exc_text": out.get("exc_text", "")}


def _derefs_agree(real: list, imp: list, sites_ok: bool) -> bool:
    if sites_ok:
        return real == imp
    return sorted({(d["alias"], d["ok"]) for d in real}) == sorted({(d["alias"], d["ok"]) for d in imp})


def _tagstr(case: dict) -> str:
    return "+".join(sorted(case["tags"])) or "clean"


def _partition(runs: list) -> list:
    """Runs grouped by identical outcome (the order/placement independence clause)."""
    groups: list = []
    for i, r in enumerate(runs):
        key = (r["err"], r["tree"], r["tgt_same"], r["tgt"])
        for g in groups:
            if g[0] == key:
                g[1].append(i)
                break
        else:
            groups.append((key, [i]))
    return sorted(g[1] for g in groups)


def check_case(griffe, taps, case: dict, base: str) -> dict:
    """All ten runs of one TLC case on the real code.  Returns plain data (crosses a process boundary)."""
    rep = {"machinery": [], "violations": [], "drift": [], "runs": 0, "facts": set()}
    ac = abstract_case(case, "top", "rt")
    os.makedirs(base, exist_ok=True)
    # the 'before' trees: each side loaded alone must be the tree the spec starts from
    rt_alone = w.load_side(griffe, taps, ac, os.path.join(base, "pre-r"), "rt")
    st_alone = w.load_side(griffe, taps, ac, os.path.join(base, "pre-s"), "st")
    if spec_tree(rt_alone["mod"]) != case["preR"]:
        rep["machinery"].append("runtime tree as loaded differs from preR of the spec")
    if spec_tree(st_alone["mod"]) != case["preS"]:
        rep["machinery"].append("stubs tree as loaded differs from preS of the spec")
    tgt0 = spec_tgt(rt_alone["tgt"])
    reals, impls = [], []
    for res in case["results"]:
        imp = impl_run(case, res)
        # the clause booleans TLC computed must be reproduced by the Python copy of Clauses
        mine = clauses(case, imp["tree"], imp["file"], imp["tgt_same"], imp["err"], imp["raised"], imp["derefs"])
        for c in CLAUSES:
            if (not mine[c]) != res["cl"][c]:
                rep["machinery"].append(f"clause {c} evaluated differently by TLC ({res['cl'][c]}) and by c19_check ({mine[c]}) on {imp['place']}/{imp['order']}")
        real = real_run(griffe, taps, case, imp["place"], imp["order"], base, tgt0, imp["req"])
        rep["runs"] += 1
        reals.append(real)
        impls.append(imp)
        got = clauses(case, real["tree"], real["file"], real["tgt_same"], real["err"], real["raised"], real["derefs"])
        for c in CLAUSES:
            if got[c]:
                sig = {"clause": c, "tags": _tagstr(case), "predicted": got[c] == mine[c], "place": real["place"],
                       "site": "+".join(sorted({d["site"] for d in real["derefs"] if d["ok"]})) or "-"}
                what = (f"{c} broken at {got[c]} (model: {mine[c] or 'holds'}) for a={_cell(case['a'])} b={_cell(case['b'])} mdoc={case['mdoc']} "
                        f"place={real['place']} order={real['order']} req={real['req']} err={real['err']} {real['exc_text'][:80]}")
                rep["violations"].append((sig, what))
        keys = ["file", "err", "tree", "tgt_same"] + (["trace"] if taps.trace_ok else []) + (["raised"] if taps.merge_tap else [])
        same = all(real[k] == imp[k] for k in keys) and _derefs_agree(real["derefs"], imp["derefs"], taps.sites_ok)
        if same and not real["tgt_same"]:
            same = real["tgt"] == imp["tgt"]
        if not same:
            diff = [k for k in keys + ["derefs", "tgt"] if real.get(k) != imp.get(k)]
            rep["drift"].append(f"{_cell(case['a'])} | {_cell(case['b'])} {real['place']}/{real['order']}/{real['req']}: real differs from Impl in {diff}")
        if real["err"] != "none":
            rep["facts"].add("load-raised")
        if real["raised"] and real["file"] == "S":
            rep["facts"].add("runtime-module-replaced")
        for d in real["derefs"]:
            rep["facts"].add(f"deref-{d['site']}-{'ok' if d['ok'] else 'fail'}")
    pr, pi = _partition(reals), _partition(impls)
    if len(pr) > 1:
        names = [[f"{reals[i]['place']}/{reals[i]['order']}/{reals[i]['req']}" for i in g] for g in pr]
        sig = {"clause": "same", "tags": _tagstr(case), "predicted": pr == pi, "place": "all", "site": "-"}
        rep["violations"].append((sig, f"result depends on placement/order: groups {names} for a={_cell(case['a'])} b={_cell(case['b'])} mdoc={case['mdoc']}"))
    rep["facts"] = sorted(rep["facts"])
    return rep


def _cell(c: dict) -> str:
    r = c["rk"] + ("".join(x for x, bit in (("d", c["rdoc"]), ("a", c["rann"]), ("o", c["rov"])) if bit) if c["rk"] in ("fun", "att", "cls") else "")
    if c.get("rtg"):
        r = "TC:" + r
    if c["rk"] == "cls":
        r += f"[{c['irk']}{'~' if c['ibare'] else ''}]"
    s = c["sk"] + ("".join(x for x, bit in (("d", c["sdoc"]), ("a", c["sann"]), ("r", c["sret"]), ("o", c["sov"])) if bit) if c["sk"] in ("fun", "att", "cls") else "")
    if c["sk"] == "fun" and c["spar"] != "same":
        s += "!" if c["spar"] == "diff" else "()"
    if c["rk"] == "fun" and c.get("rpar") == "none":
        r += "()"
    if c["sk"] == "cls":
        s += f"[{c['isk']}]"
    return r + "/" + s
