"""C18 helpers: abstract chain (spec/Dataclass.tla vocabulary) -> Python source, projections of the real
Griffe objects / the real CPython classes onto the spec's result records, and the per-batch replay worker.

A *case* is one CASE record printed by TLC:
   chain: [{hdr: {dc, init, kw, hand, assign}, base, fields: [[name, form], ...]}, ...]   classes in definition order,
          class i derives from class `base` (1-based index of an earlier class, 0 = no base): a chain or a tree
   wf:    CPython creates every class (no TypeError)
   tags:  defect triggers present in the program (Dataclass.tla Tags)
   impl:  per class {own, params: [[name, kind, hasdef]...], dataclass}   transcription of the extension
   ref:   per class, same shape                                             transcription of dataclasses.py
   mem:   per class the member names Griffe ends up with (conformance only)
"""
from __future__ import annotations

import dataclasses
import inspect
import os
import sys
import types

PK = "positional or keyword"
KO = "keyword-only"
KIND_OF = {
    inspect.Parameter.POSITIONAL_ONLY: "positional-only",
    inspect.Parameter.POSITIONAL_OR_KEYWORD: PK,
    inspect.Parameter.VAR_POSITIONAL: "variadic positional",
    inspect.Parameter.KEYWORD_ONLY: KO,
    inspect.Parameter.VAR_KEYWORD: "variadic keyword",
}
NVARIANTS = 4

# spellings: 0 = from-imports, 1 = fully qualified (+ cached_property, decorator call with empty parentheses,
# reversed keyword order), 2 = `from __future__ import annotations` + aliased from-imports,
# 3 = from-imports with the whole chain nested in the body of an outer class (_apply_recursively recursion)
HEADERS = {
    0: "from dataclasses import dataclass, field, KW_ONLY, InitVar\nfrom typing import ClassVar\n",
    1: "import dataclasses\nimport functools\nimport typing\n",
    2: "from __future__ import annotations\nfrom dataclasses import dataclass as dc, field as fld, KW_ONLY as KWO, InitVar as IV\nfrom typing import ClassVar as CV\n",
    3: "from dataclasses import dataclass, field, KW_ONLY, InitVar\nfrom typing import ClassVar\n",
}
SPELL = {
    0: {"dataclass": "dataclass", "field": "field", "KW_ONLY": "KW_ONLY", "InitVar": "InitVar", "ClassVar": "ClassVar", "property": "property"},
    1: {"dataclass": "dataclasses.dataclass", "field": "dataclasses.field", "KW_ONLY": "dataclasses.KW_ONLY", "InitVar": "dataclasses.InitVar", "ClassVar": "typing.ClassVar", "property": "functools.cached_property"},
    2: {"dataclass": "dc", "field": "fld", "KW_ONLY": "KWO", "InitVar": "IV", "ClassVar": "CV", "property": "property"},
}
SPELL[3] = SPELL[0]
FIELD_ARGS = {
    "fdef": ["default=1"],
    "ffac": ["default_factory=list"],
    "finitF": ["init=False"],
    "finitFd": ["init=False", "default=1"],
    "fkwT": ["kw_only=True"],
    "fkwTd": ["kw_only=True", "default=1"],
    "fkwF": ["kw_only=False"],
    "fkwFd": ["kw_only=False", "default=1"],
    "fempty": [],
    "fother": ["repr=False"],
    "finitT": ["init=True"],
}
FLAG = {"T": "True", "F": "False"}
ASSIGNED_FORMS = set(FIELD_ARGS) | {"ann", "annval"}     # Dataclass.tla AssignedForms


def render_field(name: str, form: str, variant: int) -> list[str]:
    sp = SPELL[variant]
    if form in FIELD_ARGS:
        args = FIELD_ARGS[form][::-1] if variant == 1 else FIELD_ARGS[form]
        typ = "list" if form == "ffac" else "int"
        return [f"{name}: {typ} = {sp['field']}({', '.join(args)})"]
    prop = [f"@{sp['property']}", f"def {name}(self) -> int:", "    return 1"]
    return {
        "ann": [f"{name}: int"],
        "annval": [f"{name}: int = 1"],
        "kwonly": [f"{name}: {sp['KW_ONLY']}"],
        "classvar": [f"{name}: {sp['ClassVar']}[int] = 1"],
        "classvarN": [f"{name}: {sp['ClassVar']}[int]"],
        "classvarB": [f"{name}: {sp['ClassVar']} = 1"],
        "initvar": [f"{name}: {sp['InitVar']}[int]"],
        "initvarD": [f"{name}: {sp['InitVar']}[int] = 1"],
        "prop": prop,
        "annprop": [f"{name}: int", *prop],
        "unann": [f"{name} = 1"],
    }[form]


def class_names(prefix: str, n: int) -> list[str]:
    return [f"{prefix}x{i}" for i in range(1, n + 1)]


def render_chain(chain: list, variant: int, prefix: str, outer: str | None = None, only=None) -> str:
    """Source of the classes of one chain (without the import header).  `outer`: "plain"/"hand" nests them in an outer
    class (with a hand-written __init__ for "hand"); `only` = range of class indices to render (two-package layout)."""
    sp = SPELL[variant]
    names = class_names(prefix, len(chain))
    out = []
    for i, cls in enumerate(chain):
        if only is not None and i not in only:
            continue
        h = cls["hdr"]
        if h["dc"]:
            args = []
            if h["init"] != "u":
                args.append(f"init={FLAG[h['init']]}")
            if h["kw"] != "u":
                args.append(f"kw_only={FLAG[h['kw']]}")
            if variant == 1:
                args.reverse()
            if args or variant == 1:
                out.append(f"@{sp['dataclass']}({', '.join(args)})")
            else:
                out.append(f"@{sp['dataclass']}")
        base = cls.get("base", i)
        out.append(f"class {names[i]}({names[base - 1]}):" if base else f"class {names[i]}:")
        body = []
        for name, form in cls["fields"]:
            body += render_field(name, form, variant)
        if h["hand"]:
            body += ["def __init__(self, q):"]
            if h.get("assign"):
                body += [f"    self.{name} = q" for name, form in cls["fields"] if form in ASSIGNED_FORMS]
                body += ["    self.z: int = q"]
            else:
                body += ["    pass"]
        if not body:
            body = ["pass"]
        out += ["    " + line for line in body]
        out.append("")
    if outer:
        init = ["    def __init__(self, q):", "        pass", ""] if outer == "hand" else []
        out = [f"class O{prefix}:"] + init + ["    " + line if line else line for line in out]
    return "\n".join(out) + "\n"


def layout(case: dict, variant: int) -> tuple:
    """(outer kind or None, split) the program is rendered with: the spec's `outer` / `split`; spelling 3 nests
    module-level single-package programs in an outer class without __init__."""
    split = case.get("split", 0)
    outer = case.get("outer", "none")
    if outer == "none":
        outer = "plain" if (variant == 3 and split == 0) else None
    return outer, split


# ---- projections --------------------------------------------------------------------------------
def _own(params: list) -> str:
    return "hand" if any(p[0] == "q" for p in params) else "synth"


def project_cpython(cls) -> dict:
    d = cls.__dict__
    if "__init__" in d:
        ps = list(inspect.signature(d["__init__"]).parameters.values())
        if not ps or ps[0].name != "self":
            raise AssertionError(f"first parameter of {cls.__name__}.__init__ is not self: {ps}")
        params = [[p.name, KIND_OF[p.kind], p.default is not inspect.Parameter.empty] for p in ps[1:]]
        own = _own(params)
    else:
        params, own = [], "none"
    if cls.__init__ is object.__init__:
        eff = None
    else:
        eff = [[p.name, KIND_OF[p.kind], p.default is not inspect.Parameter.empty] for p in inspect.signature(cls.__init__).parameters.values()]
    return {"own": own, "params": params, "dataclass": dataclasses.is_dataclass(cls), "eff": eff}


def _gparams(parameters) -> list:
    return [[p.name, p.kind.value if p.kind is not None else None, p.default is not None] for p in parameters]


def project_griffe(gcls) -> dict:
    init = gcls.members.get("__init__")
    if init is None:
        params, own, selfok = [], "none", True
    else:
        ps = _gparams(init.parameters)
        selfok = bool(ps) and ps[0] == ["self", PK, False]
        params = ps[1:]
        own = _own(params) if init.kind.value == "function" else "not-a-function"
    eff = _gparams(gcls.parameters)
    return {
        "own": own,
        "params": params,
        "dataclass": "dataclass" in gcls.labels,
        "eff": eff or None,
        "selfok": selfok,
        "mem": list(gcls.members),
    }


def exec_chain(sources: list[str], modname: str, names: list[str], outer: str | None = None):
    """Execute the source(s) as real modules (registered in sys.modules: dataclasses needs that to read string
    annotations; with two sources the second one imports the classes of the first, `@A@` stands for its name).
    Returns (list of projections, None) or (None, exception)."""
    mods = []
    wildcard = len(sources) == 2 and "import *" in sources[1]
    try:
        scope: dict = {}
        if wildcard:      # one package with two submodules
            pkg = types.ModuleType(modname)
            pkg.__path__ = []
            sys.modules[modname] = pkg
            mods.append(modname)
        for n, src in enumerate(sources):
            name = (modname + "." + "ab"[n]) if wildcard else modname + "ab"[n]
            mod = types.ModuleType(name)
            sys.modules[name] = mod
            mods.append(name)
            first = (modname + ".a") if wildcard else modname + "a"
            try:
                exec(compile(src.replace("@A@", first), name + ".py", "exec", dont_inherit=True), mod.__dict__)  # noqa: S102
            except TypeError as exc:
                return None, exc
            scope.update(mod.__dict__[outer].__dict__ if outer else mod.__dict__)
        return [project_cpython(scope[n]) for n in names], None
    finally:
        for name in mods:
            sys.modules.pop(name, None)


# ---- judging one case ---------------------------------------------------------------------------
def strip(r: dict) -> dict:
    return {"own": r["own"], "params": r["params"], "dataclass": r["dataclass"]}


def first_clause(g: dict, r: dict) -> str | None:
    """Name of the first clause of the property on which the Griffe class record differs from the reference."""
    if g["own"] != r["own"]:
        if r["own"] == "hand":
            return "hand-replaced"
        if r["own"] == "none":
            return "init-not-generated-by-cpython"
        return "init-missing"
    if g["own"] == "synth":
        gn, rn = [p[0] for p in g["params"]], [p[0] for p in r["params"]]
        if set(gn) != set(rn) or len(gn) != len(rn):
            return "names"
        if gn != rn:
            return "order"
        if [p[1] for p in g["params"]] != [p[1] for p in r["params"]]:
            return "kinds"
        if [p[2] for p in g["params"]] != [p[2] for p in r["params"]]:
            return "required"
    if g["own"] == "hand" and g["params"] != r["params"]:
        return "hand-replaced"
    if not g.get("selfok", True):
        return "self"
    return None


def judge(case: dict, variant: int, src: str, greal, preal, perr, fixed=(), load: int = 1) -> list:
    """Compare real Griffe (greal: list of class records or an exception), real CPython and the two spec results.
    Returns events: ("die", msg) | ("viol", sig, what) | ("drift", what) | ("ok",)"""
    ev = []
    chain, tags = case["chain"], sorted(t for t in case["tags"] if t not in fixed)   # candidates for a known finding
    ident = {"chain": chain, "variant": variant}
    # -- CPython validates the reference operator (a wrong reference must never look like a verdict)
    if case["wf"]:
        if perr is not None:
            return [("die", f"spec says CPython accepts the program, it raised {perr!r}\n{src}")]
        for i, (p, r) in enumerate(zip(preal, case["ref"])):
            if strip(p) != r:
                return [("die", f"reference PyInit disagrees with CPython on class {i + 1}: spec {r} vs CPython {strip(p)}\n{src}")]
    elif perr is None:
        return [("die", f"spec says CPython raises TypeError, it accepted the program\n{src}")]
    # -- Griffe must at least load the program
    base = {"tags": tags, "variant": variant, "wf": case["wf"], "load": load,
            "outer": case.get("outer", "none"),
            "packages": 0 if not case.get("split", 0) else (1 if case.get("link") == "wildcard" else 2)}
    if isinstance(greal, BaseException):
        return [("viol", dict(base, clause="total", explained=False), f"static loading raised {greal!r} on\n{src}")]
    if not case["wf"]:
        # outside the property's domain (CPython refuses the class): totality only, plus model conformance
        if [strip(g) for g in greal] != case["impl"]:
            ev.append(("drift", "ill-formed program: real extension differs from the transcription"))
        return ev or [("ok",)]
    explained = [strip(g) for g in greal] == case["impl"] and all(g["selfok"] for g in greal)
    bad = False
    for i, (g, r, p) in enumerate(zip(greal, case["ref"], preal)):
        kind = "dataclass" if chain[i]["hdr"]["dc"] else "plain"
        clause = first_clause(g, r)
        if clause:
            bad = True
            ev.append(("viol", dict(base, clause=clause, cls=kind, explained=explained),
                       f"class {i + 1} ({kind}): Griffe __init__ {g['own']} {g['params']} vs CPython {r['own']} {r['params']}  [tags {tags}]\n{src}"))
        if g["dataclass"] != r["dataclass"]:
            bad = True
            ev.append(("viol", dict(base, clause="label", cls=kind, explained=explained),
                       f"class {i + 1} ({kind}): 'dataclass' label {g['dataclass']} but dataclasses.is_dataclass is {r['dataclass']}  [tags {tags}]\n{src}"))
        # the property on the real code, without any model in between: effective constructor signature
        if not clause and g["eff"] != p["eff"]:
            bad = True
            ev.append(("viol", dict(base, clause="effective", cls=kind, explained=explained),
                       f"class {i + 1} ({kind}): Griffe cls.parameters {g['eff']} vs inspect.signature(cls.__init__) {p['eff']}  [tags {tags}]\n{src}"))
    if not bad:
        if not explained:
            ev.append(("drift", "real extension equals CPython but differs from the transcription"))
        elif [g["mem"] for g in greal] != case["mem"]:
            ev.append(("drift", f"members after the extension ran {[g['mem'] for g in greal]} differ from the transcription {case['mem']}"))
    return ev or [("ok",)]


# ---- the replay worker (runs in a forked process) ---------------------------------------------------
def _clear_cache():
    try:
        from _griffe.extensions import dataclasses as ext  # noqa: PLC0415

        ext._dataclass_parameters.cache_clear()
    except Exception:  # noqa: BLE001
        pass


def second_header(header: str, imports_b: str) -> str:
    """Header of the second module: the import of the first module's classes comes BEFORE the module's own imports (a
    wildcard import also re-exports `dataclass`, `field`, ... of the first module; Griffe would then see the decorator
    through that re-export chain - name resolution, not this property), but after a `from __future__` line."""
    if header.startswith("from __future__"):
        first, rest = header.split("\n", 1)
        return first + "\n" + imports_b + rest
    return imports_b + header


def load_history(griffe, directory: str, modname: str, header: str, sources: list[str], nloads: int = 1, style: int = 0,
                 sources_b: list[str] | None = None, imports_b: str = "") -> list:
    """Write the module(s) and load them the way Dataclass.tla says.  One package: module `modname`; two packages
    (`sources_b`): `<modname>a` is loaded first, then `<modname>b` (which imports the classes of the first) BY THE SAME
    LOADER (NextPackage: fresh `processed`, same functools.cache).  `nloads` > 1 (LoadAgain): the extension instances of
    the first load live on; later loads alternate between `loader.load(...)` once more on the same loader and a new
    GriffeLoader built with `extensions=first.extensions` (style picks which comes first).
    Returns, per load, the pair (module object of the first package, module object of the second one or None)."""
    wildcard = sources_b is not None and "import *" in imports_b
    if wildcard:     # ONE package <modname> with submodules a and b; b: `from <modname>.a import *`; one load event
        os.makedirs(os.path.join(directory, modname))
        files = [os.path.join(modname, "a.py"), os.path.join(modname, "b.py")]
        names = [modname + ".a", modname + ".b"]
        with open(os.path.join(directory, modname, "__init__.py"), "w") as fh:
            fh.write("")
    else:
        names = [modname] if sources_b is None else [modname + "a", modname + "b"]
        files = [n + ".py" for n in names]
    with open(os.path.join(directory, files[0]), "w") as fh:
        fh.write(header + "\n" + "\n".join(sources))
    if sources_b is not None:
        with open(os.path.join(directory, files[1]), "w") as fh:
            fh.write(second_header(header, imports_b.replace("@A@", names[0])) + "\n" + "\n".join(sources_b))

    def both(loader):
        if wildcard:
            pkg = loader.load(modname)
            return (pkg.members["a"], pkg.members["b"])
        a = loader.load(names[0])
        return (a, loader.load(names[1]) if sources_b is not None else None)

    try:
        if nloads == 1 and sources_b is None:
            return [(griffe.load(modname, search_paths=[directory], allow_inspection=False), None)]
        first = griffe.GriffeLoader(search_paths=[directory], allow_inspection=False)
        mods = [both(first)]
        for n in range(2, nloads + 1):
            if (n + style) % 2 == 0:
                mods.append(both(first))
            else:
                mods.append(both(griffe.GriffeLoader(extensions=first.extensions, search_paths=[directory], allow_inspection=False)))
        return mods
    finally:
        _clear_cache()


def case_at_load(case: dict, n: int) -> dict:
    """The spec's expectation for the tree after load n of the history (earlier loads are in case["hist"])."""
    if n >= case.get("loads", 1):
        return case
    return dict(case, impl=case["hist"][n - 1]["impl"], mem=case["hist"][n - 1]["mem"])


def replay_chunk(job) -> dict:
    """job = (chunk id, scratch dir, [(case, variant), ...], triggers assumed fixed).  Static load of one module holding
    every chain of the chunk that shares a spelling (the built-in extension runs in GriffeLoader._post_load), exec of
    each chain.  Events carry the (chain, variant) they are about."""
    from gverif.common import ensure_repo  # noqa: PLC0415

    griffe = ensure_repo()
    cid, directory, items, fixed = job
    events = []
    groups: dict = {}
    for idx, (case, variant) in enumerate(items):
        two = (case.get("link", "import") if case.get("split", 0) > 0 else "")      # "" | "import" | "wildcard"
        groups.setdefault((variant, case.get("loads", 1), two), []).append((idx, case))
    samples = []
    for (variant, nloads, two), group in groups.items():
        header = HEADERS[variant]
        style = (cid if isinstance(cid, int) else 0) % 2
        modname = f"c18_{cid}_{variant}_{nloads}" + ("_" + two[0] if two else "")
        parts = {}       # idx -> (names, outer class name or None, source of package 1, source of package 2 or None)
        for idx, case in group:
            prefix = f"K{idx}"
            names = class_names(prefix, len(case["chain"]))
            outer, split = layout(case, variant)
            if two:
                parts[idx] = (names, None, render_chain(case["chain"], variant, prefix, None, range(0, split)),
                              render_chain(case["chain"], variant, prefix, None, range(split, len(names))), names[:split])
            else:
                parts[idx] = (names, f"O{prefix}" if outer else None, render_chain(case["chain"], variant, prefix, outer), None, [])

        def imports(idxs):
            if two == "wildcard":
                return "from @A@ import *\n"
            return "from @A@ import " + ", ".join(n for i in idxs for n in parts[i][4]) + "\n"

        def history(idxs, name):
            return load_history(griffe, directory, name, header, [parts[i][2] for i in idxs], nloads, style,
                                [parts[i][3] for i in idxs] if two else None, imports(idxs) if two else "")

        try:
            gmods = history([idx for idx, _ in group], modname)
        except Exception:  # noqa: BLE001  one program broke the loader: find it by loading one by one
            gmods = None
        for idx, case in group:
            names, outer, src_a, src_b, _first = parts[idx]
            src = src_a if not two else src_a + "# ---- second package: " + imports([idx]) + src_b
            sources = [header + "\n" + src_a] + ([second_header(header, imports([idx])) + "\n" + src_b] if two else [])
            preal, perr = exec_chain(sources, f"c18x_{cid}_{variant}_{idx}", names, outer)
            try:
                mods = gmods if gmods is not None else history([idx], f"c18s_{cid}_{variant}_{idx}")
            except Exception as exc:  # noqa: BLE001
                mods = [exc] * nloads
            for n, pair in enumerate(mods, 1):
                try:
                    if isinstance(pair, BaseException):
                        raise pair
                    split = case.get("split", 0) if two else len(names)
                    greal = []
                    for pos, x in enumerate(names):
                        mod = pair[0] if pos < split else pair[1]
                        scope = mod.members[outer] if outer else mod
                        greal.append(project_griffe(scope.members[x]))
                except Exception as exc:  # noqa: BLE001
                    greal = exc
                for e in judge(case_at_load(case, n), variant, src, greal, preal, perr, fixed, n):
                    if e[0] != "ok":
                        events.append(({"chain": case["chain"], "variant": variant, "loads": nloads, "style": style,
                                        "outer": case.get("outer", "none"), "split": case.get("split", 0),
                                        "link": case.get("link", "import")}, *e))
            if len(samples) < 2 and case["wf"] and len(case["chain"]) > 1 and not isinstance(greal, BaseException):
                samples.append({"chain": case["chain"], "variant": variant, "loads": nloads, "source": src, "griffe": [strip(g) for g in greal]})
    return {"cid": cid, "n": len(items), "events": events, "samples": samples}
