"""C19 - merging stubs loses nothing and prefers stub types.

TLC: spec/Merge.tla.  A case = (runtime tree, stubs tree) over the names a, b (classes: inner u, v);
for every case the spec runs the finder/loader/merger machine once per (placement, discovery order,
request form of griffe.load) - 17 runs - and evaluates the clauses of the property on each run and across the runs.
   Merge_gen.cfg     Legacy = {} (the code as it is): all clauses asserted on the WHOLE domain + every case emitted
   Merge_defect.cfg  regression config, model only: Legacy = the pre-fix statements; TLC must REPORT each old Defect* violated
Binding: every emitted case is written to disk in all five placements and both listing orders and
loaded by the real Griffe (listing order injected by wrapping os.walk / Path.iterdir, merge_stubs and
Alias.resolve_target tapped in the harness process):
   real vs clauses/RefTree      -> the property on the code        (VIOLATION / KNOWN-FINDING)
   real vs Impl (spec results)  -> conformance of the transcription (drift note)
   each side loaded alone vs preR/preS, Python clause copy vs TLC's booleans -> machinery (exit 2)
"""
from __future__ import annotations

import json
import multiprocessing
import os
import random
from concurrent.futures import ThreadPoolExecutor

from gverif import tlc
from gverif.common import SEED, die, ensure_repo, scratch
from gverif.harness import Run
from gverif.props import c19_check as k
from gverif.props import c19_world as w

# defect class of the spec -> invariant TLC must report violated when the clean-domain guard is off
DEFECTS = {      # old defect class (Legacy statements of merger.py re-enabled in the model) -> "invariant" TLC must report
    "alias": "DefectAliasResolved",
    "aliaso": "DefectOverloadsResolveAlias",
    "raise": "DefectRaises",
    "sov": "DefectStubOverloadsLost",
    "ovomis": "DefectOverloadsOnNonFunction",
    "ovoself": "DefectPlacementDependent",
}
DOMAIN = {"quick": "quick", "thorough": "wide"}
_G = {}


def _setup():
    """Install the taps ONCE, in the parent, before any fork (workers inherit them): a failure here is a plain
    exception in the driver (exit 2), never a crashing pool initializer."""
    if "taps" not in _G:
        griffe = ensure_repo()
        _G["griffe"] = griffe
        _G["taps"] = w.Taps(griffe)
    return _G["taps"]


def _work(item):
    idx, case = item
    try:
        with scratch("c19-") as d:
            rep = k.check_case(_G["griffe"], _G["taps"], case, d)
    except BaseException as exc:  # noqa: BLE001  (a worker must always answer)
        import traceback

        rep = {"machinery": [f"harness crashed on case {idx}: {exc!r} {traceback.format_exc()[-600:]}"], "violations": [], "drift": [], "runs": 0, "facts": []}
    rep["idx"] = idx
    return rep


def _results(cases: list, procs: int):
    """Per-case reports: forked pool with a per-result timeout; in-process when the pool cannot be used."""
    items = list(enumerate(cases))
    if procs <= 1 or len(items) < 8:
        yield from map(_work, items)
        return
    ctx = multiprocessing.get_context("fork")
    pool = ctx.Pool(procs)
    try:
        it = pool.imap_unordered(_work, items)      # chunksize 1: the iterator supports next(timeout)
        for _ in items:
            try:
                yield it.next(timeout=600)
            except multiprocessing.TimeoutError:
                die("C19: a replay worker did not answer within 600 s (worker died?)")
    finally:
        pool.terminate()


def replay_cases(run: Run, cases: list, procs: int):
    facts: set = set()
    drift: list = []
    taps = _setup()
    for what in taps.skipped:
        run.note(f"conformance detail skipped, private layout of the code differs: {what}")
    for rep in _results(cases, procs):
        case = cases[rep["idx"]]
        if rep["machinery"]:
            die("C19 binding: " + "; ".join(rep["machinery"][:3]) + f" [case a={case['a']} b={case['b']}]")
        run.replayed(rep["runs"])
        run.evaluated(rep["runs"] * (len(k.CLAUSES)) + 1)
        key = {"a": case["a"], "b": case["b"], "mdoc": case["mdoc"]}
        if any(v != "absent" for n in ("a", "b") for v in case["class"][n].values()) and case["preS"]["self"]["ord"] + [x for x in ("a", "b") if case["preS"]["self"]["ovd"][x]]:
            run.nontrivial_case(key)
        run.sample(key)
        for sig, what in rep["violations"]:
            run.violation(sig, what, {"case": case})
        drift += rep["drift"]
        facts.update(rep["facts"])
    if drift:
        run.note(f"model drift: {len(drift)} run(s) where the real code differs from the Impl transcription of Merge.tla; first: {drift[:3]}")
    run.extra["drift_runs"] = len(drift)
    run.extra["conformance_skipped"] = list(taps.skipped)
    return facts


def tlc_all(run: Run, tier: str):
    dom = DOMAIN[tier]
    jobs = {"gen": lambda: tlc.run("Merge", "Merge_gen.cfg", constants={"DOM": dom}, workers=4 if tier == "quick" else 8,
                                   timeout=3000, heap="6g")}
    jobs["defects"] = lambda: tlc.run("Merge", "Merge_defect.cfg", workers=1, timeout=900, extra=["-continue"])
    with ThreadPoolExecutor(len(jobs)) as ex:
        futs = {name: ex.submit(fn) for name, fn in jobs.items()}
        res = {name: f.result() for name, f in futs.items()}
    gen = tlc.must(res["gen"])            # whole domain verified: no invariant may be violated
    run.add_tlc(gen)
    r = tlc.must(res["defects"], allow_violations=True)
    run.add_tlc(r)
    for tag, inv in DEFECTS.items():
        if inv not in r.violated:
            die(f"Merge.tla no longer exhibits defect class '{tag}': TLC did not report {inv} violated (violated={r.violated})")
    return gen


def main(tier: str, replay: str | None = None):
    ensure_repo()
    run = Run("C19", tier)
    run.rule = ("Merge.tla: cells = canonical (runtime kind, stub kind, presence bits, parameter sets incl. none, inner member kinds) combinations; quick: every cell with at most "
                "one group of presence bits off default alone, kinds-only cells x 4 context cells in both declaration orders, module docstring modes; thorough: every cell x 6 "
                "context cells, kinds-only cells x 6 contexts in both orders.  Each case is replayed in 17 runs (5 placements x listing orders x request forms top/module/object of griffe.load).  Non-trivial = the stubs side defines "
                "or overloads at least one name and some name/inner name is present on a side; distinct by (cell a, cell b, mdoc).")
    procs = max(2, min(12, (os.cpu_count() or 4) - 4))
    if replay:
        with open(replay) as fh:
            rec = json.load(fh)
        print(rec["what"])
        for f in run.findings:
            f.pop("expect_every_run", None)      # a single replayed case cannot re-observe every finding
        small =tlc.must(tlc.run("Merge", "Merge_gen.cfg", constants={"DOM": "mdoc"}, workers=1))
        run.add_tlc(small)
        replay_cases(run, [rec["case"]["case"]], 1)
        run.finish()
    gen = tlc_all(run, tier)
    cases = gen.cases
    tags = {t for c in cases for t in c["tags"]}
    if len(cases) < 500 or tags:     # Legacy = {}: no documented defect class is left, every case is asserted
        die(f"C19: unexpected case set: {len(cases)} cases, defect classes {sorted(tags)}")
    run.exhaustive = True
    if tier == "thorough" and len(cases) > 20000:
        rnd = random.Random(SEED)
        cases = rnd.sample(cases, 20000)
        run.exhaustive = False
        run.note(f"replayed a seeded sample of 20000 of the {len(gen.cases)} cases TLC checked")
    facts = replay_cases(run, cases, procs)
    run.extra["facts"] = sorted(facts)
    run.finish()
