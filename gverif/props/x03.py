"""X03 - file-derived attributes of modules, objects and aliases (filepath, relative_filepath,
relative_package_filepath, module, package, is_init_module, is_package, is_subpackage, is_namespace_package,
is_namespace_subpackage, path vs canonical_path).

TLC: spec/FileAttrs.tla enumerates layouts x search-path forms x request forms x cwd positions, computes the module
table (Load), and for every module Impl (transcription of _griffe/models.py) and Ref (documented contract, a set of
acceptable values per attribute); invariants = the clauses on the clean domain, OnlyKnownViolations elsewhere.
Binding: every printed case is materialised on tmpfs (or built with the public constructors: family api) and the real
attributes of every module, class, function, attribute and alias are compared:
   real vs Ref  -> VIOLATION (sig.predicted tells whether the model's Impl shows the same value)
   real vs Impl -> drift note
   real module set vs the spec's table -> structure note (the search itself is C14's subject)
"""
from __future__ import annotations

import json
import multiprocessing
import random
from collections import Counter, defaultdict
from concurrent.futures import ProcessPoolExecutor, ThreadPoolExecutor, as_completed

from gverif import tlc
from gverif.common import SEED, die
from gverif.harness import Run
from gverif.props.x03_worker import case_key, layout_key, run_group

CFG = {"quick": "FileAttrs_quick.cfg", "thorough": "FileAttrs_thorough.cfg"}
FAMILIES = ["reg", "single", "ns", "stubs", "api", "builtin"]
CAUSES = ["single-file-top", "stubs-elsewhere", "builtin-predicates", "dangling-in-namespace"]


def make_pool(procs: int) -> ProcessPoolExecutor:
    """Workers are forked right away (while the parent is small); a dying worker breaks the pool instead of hanging it."""
    pool = ProcessPoolExecutor(procs, mp_context=multiprocessing.get_context("fork"))
    pool.submit(int).result()
    return pool


def chunks(groups: list, n: int):
    """Layout groups -> work items of about n cases (a big layout is split: each part re-materialises it)."""
    for g in groups:
        for k in range(0, len(g), n):
            yield g[k:k + n]


def replay(run: Run, cases: list, procs: int, pool) -> dict:
    groups = defaultdict(list)
    for i, c in enumerate(cases):
        groups[layout_key(c)].append((i, c))
    work = sorted(chunks(list(groups.values()), 6), key=len, reverse=True)
    stats = {"drift": 0, "checked": 0, "structure": Counter(), "kinds": Counter(), "skipped": 0, "layouts": len(groups), "loads": 0}
    futures = [pool.submit(run_group, w) for w in work]
    for fut in as_completed(futures):
        try:
            results = fut.result()
        except Exception as exc:  # noqa: BLE001  (BrokenProcessPool: a worker was killed / crashed)
            die(f"X03: a replay worker died: {exc!r}")
        for i, res in results:
            if "error" in res:
                die(f"X03: replay worker failed: {res['error']}")
            case = cases[i]
            run.evaluated()
            if "skipped" in res:
                stats["skipped"] += 1
                continue
            run.replayed(res["loads"])
            stats["loads"] += res["loads"]
            stats["drift"] += res["drift"]
            stats["checked"] += res["checked"]
            for k in res["kinds"]:
                stats["kinds"][k] += 1
            if res["structure"]:
                stats["structure"][case["fam"]] += 1
                if len(run.notes) < 6:
                    run.note(f"structure: {case_key(case)}: {res['structure']}")
            if len(case["obs"]) > 1 or case["causes"]:
                run.nontrivial_case(json.dumps(case_key(case)))
            if len(case["obs"]) > 2:
                run.sample({"case": case_key(case), "modules": [".".join(o["name"]) for o in case["obs"]], "cwds": sorted(case["cwds"])})
            for v in res["violations"]:
                run.violation(v["sig"], v["what"], {"key": case_key(case), "case": case})
    return stats


def vacuity(cases: list, res) -> None:
    fams = Counter(c["fam"] for c in cases)
    for f in FAMILIES:
        if not fams[f]:
            die(f"X03: family {f} produced no case")
    seen = {x for c in cases for x in c["causes"]}
    if set(CAUSES) - seen:
        die(f"X03: cause classes never reached: {set(CAUSES) - seen}")
    if not any(not c["causes"] for c in cases if c["fam"] in ("reg", "ns", "stubs", "api")):
        die("X03: no clean layout")
    if not any(o["mr"] or o["mrf"] for c in cases for o in c["obs"]):
        die("X03: no case where Ref accepts more than the Impl value (namespace lists)")
    for need in ("T",):
        for f in ("init", "package", "subpackage", "ns", "nssub"):
            if not any(o["mi"][f] == need for c in cases for o in c["obs"]):
                die(f"X03: predicate {f} is never true in the model")
    for t in ("err",):
        for f in ("fp", "rpf"):
            if not any(o["mi"][f]["t"] == t for c in cases for o in c["obs"]):
                die(f"X03: attribute {f} never raises in the model")
        if not any(v["t"] == t and v["v"] == [["ValueError"]] for c in cases for o in c["obs"] for v in o["mi"]["rf"].values()):
            die("X03: relative_filepath never raises ValueError in the model")


def main(tier: str, replay_file: str | None = None):
    run = Run("X03", tier)
    run.rule = ("FileAttrs.tla: every layout of the families reg/single/ns/stubs/api/builtin within the bounds of the cfg x "
                "search-path form (abs, rel, sym; .pth for sp3) x request (name, path); every case is observed under each cwd position (one fresh load per position); "
                "non-trivial = more than one module in the table or a known cause class; distinct by (layout, form, request).")
    procs = 12 if tier == "thorough" else 8
    if replay_file:
        with open(replay_file) as fh:
            rec = json.load(fh)
        print(rec["what"])
        # the stored case carries the spec's Impl/Ref values; TLC only re-confirms that the model still exhibits its defects
        res = tlc.must(tlc.run("FileAttrs", "FileAttrs_defect.cfg", workers=1, timeout=900), allow_violations=True)
        run.add_tlc(res)
        with make_pool(1) as pool:
            replay(run, [rec["case"]["case"]], 1, pool)
        run.finish()
    # the pool is forked before the (large) case list exists
    with make_pool(procs) as pool:
        with ThreadPoolExecutor(2) as ex:
            fmain = ex.submit(tlc.run, "FileAttrs", CFG[tier], workers=4 if tier == "quick" else 8, constants={"EMIT": "TRUE"}, timeout=3000, heap="6g")
            fdef = ex.submit(tlc.run, "FileAttrs", "FileAttrs_defect.cfg", workers=1, timeout=900)
            res, dres = fmain.result(), fdef.result()
        tlc.must(res)
        run.add_tlc(res)
        cases = res.cases
        vacuity(cases, res)
        if not dres.finished and not dres.violated:
            die(f"X03: defect configuration did not run: {dres.errors[:2]}")
        if "NoViolationAnywhere" not in dres.violated:
            die("X03: the defect configuration is not violated - the model no longer exhibits the known defects")
        run.add_tlc(dres)
        chosen = cases
        limit = 4000 if tier == "quick" else 40000
        if len(cases) > limit:
            # every case of the small families, a seeded sample of the namespace family (whole layouts)
            rnd = random.Random(SEED)
            small = [c for c in cases if c["fam"] != "ns"]
            groups = defaultdict(list)
            for c in cases:
                if c["fam"] == "ns":
                    groups[layout_key(c)].append(c)
            keys = sorted(groups)
            rnd.shuffle(keys)
            ns = []
            for k in keys:
                if len(small) + len(ns) >= limit:
                    break
                ns += groups[k]
            chosen = small + ns
            run.note(f"replayed {len(chosen)} of {len(cases)} cases: all of reg/single/stubs/api/builtin, {len(ns)} of the ns family (whole layouts, seed {SEED})")
        run.exhaustive = len(chosen) == len(cases)
        stats = replay(run, chosen, procs, pool)
    if stats["drift"]:
        run.note(f"{stats['drift']} attribute value(s) accepted by Ref but different from the model's Impl (model drift)")
    if sum(stats["structure"].values()):
        run.note(f"module table differs from the loaded tree in {dict(stats['structure'])} case(s): attributes of the common modules were still checked")
    if stats["skipped"]:
        run.note(f"{stats['skipped']} case(s) skipped: this interpreter has no extension module file to copy")
    for need in ("module:path", "module:list", "module:err", "class", "function", "attribute", "alias:class", "alias:module", "alias-chain:class", "alias-dangling"):
        if not stats["kinds"][need]:
            die(f"X03: no real object of kind {need} was observed")
    run.extra["x03"] = {"layouts": stats["layouts"], "loads": stats["loads"], "attribute_values_compared": stats["checked"], "kinds": dict(stats["kinds"]),
                        "cases_by_family": dict(Counter(c["fam"] for c in cases))}
    run.finish()
