"""X06 - runs the real command line in-process (griffe.main(argv)) or as `python -m griffe`, and the API-level oracle.

Only public names are used: griffe.main, griffe.GriffeLoader, griffe.load_extensions, griffe.JSONEncoder,
griffe.load / load_git / find_breaking_changes, Object.as_json, Breakage.explain, the std `logging` module.
Observation of one run = exit status (return value / SystemExit code / "exc:<Type>" for an escaping exception),
stdout text, stderr text, the files created or changed below the cwd.
"""
from __future__ import annotations

import contextlib
import io
import json
import logging
import os
import subprocess
import sys

from gverif.common import PY, child_env, ensure_repo

LEVELS = ("DEBUG", "INFO", "WARNING", "ERROR", "CRITICAL")


def _snapshot(root: str) -> dict:
    snap = {}
    for d, dirs, files in os.walk(root):
        dirs[:] = [x for x in dirs if x not in (".git", "__pycache__")]
        for f in files:
            p = os.path.join(d, f)
            try:
                st = os.stat(p)
            except OSError:
                continue
            snap[os.path.relpath(p, root)] = (st.st_mtime_ns, st.st_size)
    return snap


def _new_files(root: str, before: dict) -> dict:
    out = {}
    for rel, sig in _snapshot(root).items():
        if before.get(rel) != sig:
            with open(os.path.join(root, rel), errors="replace") as fh:
                out[rel] = fh.read()
            if rel not in before:
                os.unlink(os.path.join(root, rel))
    return out


@contextlib.contextmanager
def _process_state(root: str, extra_sys_path: list, env: dict | None):
    """cwd, sys.path, sys.modules, logging and colorama state restored after the run (the CLI configures the
    root logger and wraps sys.stderr: both are process-wide)."""
    cwd = os.getcwd()
    path = list(sys.path)
    mods = set(sys.modules)
    root_logger = logging.getLogger()
    handlers, level = list(root_logger.handlers), root_logger.level
    glog = logging.getLogger("griffe")
    glevel = glog.level
    old_env = {k: os.environ.get(k) for k in (env or {})}
    streams = (sys.stdout, sys.stderr)
    try:
        os.chdir(root)
        sys.path[:] = path + list(extra_sys_path)
        root_logger.handlers[:] = []          # so that logging.basicConfig() of this run takes effect
        glog.setLevel(logging.NOTSET)
        for k, v in (env or {}).items():
            if v is None:
                os.environ.pop(k, None)
            else:
                os.environ[k] = v
        yield
    finally:
        with contextlib.suppress(Exception):
            import colorama  # noqa: PLC0415

            colorama.deinit()
        sys.stdout, sys.stderr = streams
        for k, v in old_env.items():
            if v is None:
                os.environ.pop(k, None)
            else:
                os.environ[k] = v
        for h in list(root_logger.handlers):
            root_logger.removeHandler(h)
        root_logger.handlers[:] = handlers
        root_logger.setLevel(level)
        glog.setLevel(glevel)
        for name in set(sys.modules) - mods:
            if not name.startswith(("griffe", "_griffe", "colorama", "encodings", "json", "logging")):
                sys.modules.pop(name, None)
        sys.path[:] = path
        os.chdir(cwd)


def run_cli(root: str, argv: list, *, extra_sys_path: list = (), env: dict | None = None) -> dict:
    """griffe.main(argv) in this process, cwd = root."""
    griffe = ensure_repo()
    before = _snapshot(root)
    out, err = io.StringIO(), io.StringIO()
    saved_fd2 = os.dup(2)         # git children of check() inherit fd 2 (e.g. "fatal: not a git repository"): keep the report clean
    devnull = os.open(os.devnull, os.O_WRONLY)
    with _process_state(root, list(extra_sys_path), env):
        os.dup2(devnull, 2)
        try:
            with contextlib.redirect_stdout(out), contextlib.redirect_stderr(err):
                # colorama remembers the streams of its first init() for the life of the process: make it remember
                # the streams of THIS run (check() calls colorama.deinit() before colorama.init())
                import colorama  # noqa: PLC0415

                colorama.init()
                colorama.deinit()
                rc = griffe.main(list(argv))
        except SystemExit as exc:
            rc = exc.code if isinstance(exc.code, int) else (0 if exc.code is None else 1)
            status = f"exit:{rc}"
        except BaseException as exc:  # noqa: BLE001
            status = f"exc:{type(exc).__name__}"
            rc = 1          # what the interpreter does with an uncaught exception under `python -m griffe`
        else:
            status = f"return:{rc}"
        finally:
            os.dup2(saved_fd2, 2)
            os.close(saved_fd2)
            os.close(devnull)
    files = _new_files(root, before)
    return {"rc": rc, "status": status, "stdout": out.getvalue(), "stderr": err.getvalue(), "files": files}


def run_cli_subprocess(root: str, argv: list, *, extra_sys_path: list = (), env: dict | None = None) -> dict:
    """`python -m griffe argv...` in a child process, cwd = root."""
    ensure_repo()
    before = _snapshot(root)
    cenv = child_env()
    cenv.pop("GRIFFE_LOG_LEVEL", None)
    if extra_sys_path:
        cenv["PYTHONPATH"] = cenv["PYTHONPATH"] + os.pathsep + os.pathsep.join(extra_sys_path)
    for k, v in (env or {}).items():
        if v is None:
            cenv.pop(k, None)
        else:
            cenv[k] = v
    proc = subprocess.run([PY, "-m", "griffe", *argv], cwd=root, env=cenv, capture_output=True, text=True, check=False, timeout=120)
    files = _new_files(root, before)
    tb = "Traceback (most recent call last)" in proc.stderr and proc.returncode == 1
    return {"rc": proc.returncode, "status": f"proc:{proc.returncode}", "stdout": proc.stdout, "stderr": proc.stderr, "files": files, "traceback": tb}


# ---- API-level oracles --------------------------------------------------------------------------------------
def oracle_dump(root: str, plan: dict, *, extra_sys_path: list = ()) -> dict:
    """What the documented API yields for the loader options / load sequence / resolution the SPEC decided for an
    argv (plan = the `plan` record of the CASE): outcomes per load, keys of the collection, serialisations."""
    griffe = ensure_repo()
    res: dict = {"outcomes": [], "keys": [], "joint": None, "per": {}, "exterror": False}
    with _process_state(root, list(extra_sys_path), None):
        logging.getLogger("griffe").setLevel(100)
        try:
            exts = griffe.load_extensions(*plan["exts"])
        except griffe.ExtensionError:
            res["exterror"] = True
            return res
        search = list(plan["search"])
        if plan["syspath"]:
            search = [*search, *sys.path]
        loader = griffe.GriffeLoader(
            extensions=exts,
            search_paths=search,
            docstring_parser=griffe.Parser(plan["parser"]) if plan["parser"] else None,
            docstring_options=plan["docopts"],
            allow_inspection=plan["allow_inspection"],
            force_inspection=plan["force_inspection"],
            store_source=False,      # what dump() passes: sources are not serialised (under -x: no line numbers either)
        )
        for arg in plan["loads"]:
            try:
                loader.load(arg, try_relative_path=True, find_stubs_package=plan["stubs"])
            except ModuleNotFoundError:
                res["outcomes"].append("notfound")
            except ImportError:
                res["outcomes"].append("importerror")
            except Exception as exc:  # noqa: BLE001
                res["outcomes"].append("exc:" + type(exc).__name__)
            else:
                res["outcomes"].append("ok")
        if plan["resolve"]:
            loader.resolve_aliases(implicit=plan["implicit"], external=plan["external"])
        coll = loader.modules_collection.members
        res["keys"] = list(coll)
        full = plan["full"]
        try:
            res["joint"] = json.dumps(coll, cls=griffe.JSONEncoder, indent=2, full=full, sort_keys=True)
            res["per"] = {name: mod.as_json(indent=2, full=full, sort_keys=True) for name, mod in coll.items()}
        except Exception as exc:  # noqa: BLE001
            res["serror"] = type(exc).__name__
    return res


def oracle_check(root: str, plan: dict) -> dict:
    """griffe.find_breaking_changes(load_git(old), load_git(new) | load(working tree)) + Breakage.explain(style)."""
    griffe = ensure_repo()
    res: dict = {"lines": [], "count": None, "error": None}
    with _process_state(root, [], None):
        logging.getLogger("griffe").setLevel(100)
        try:
            exts = griffe.load_extensions(*plan["exts"])
            kw = dict(extensions=exts, search_paths=list(plan["search"]), allow_inspection=plan["allow_inspection"], force_inspection=plan["force_inspection"])
            old = griffe.load_git("pk", ref=plan["old"], repo=".", **kw)
            if plan["new"] == "WT":
                new = griffe.load("pk", try_relative_path=True, find_stubs_package=plan["stubs"], **kw)
            else:
                new = griffe.load_git("pk", ref=plan["new"], repo=".", find_stubs_package=plan["stubs"], **kw)
            breakages = list(griffe.find_breaking_changes(old, new))
            style = griffe.ExplanationStyle(plan["style"])
            res["count"] = len(breakages)
            res["lines"] = [b.explain(style=style) for b in breakages]
        except Exception as exc:  # noqa: BLE001
            res["error"] = type(exc).__name__
    return res


def latest_tag(root: str):
    griffe = ensure_repo()
    try:
        return griffe.get_latest_tag(root)
    except griffe.GitError:
        return None
