"""C13 - well-formed docstrings parse back to the structure that was written.

TLC: spec/DocGoogle.tla, DocNumpy.tla, DocSphinx.tla in "struct" mode.  Init picks a structure (summary + sections,
items with optional name / type / default, description shapes, titles, what the documented object's signature
supplies) and the layout options; RenderLines maps it to the line-class sequence of its well-formed layout and to the
sections it denotes (`expect`); the parser machine of C12 runs on those lines; TLC decides `sections = expect`
(kinds, order, titles, items, names, annotation source, defaults, description line sets) - "no leak across section
boundaries" is this equality.  Where the pinned tree has a genuine defect the strict invariant ParsesBack fails on the
model (defect configuration) and ParsesBackBeyondKnown excludes exactly that difference (clean configuration).

Binding: every structure TLC emits is concretised (names, types, defaults, descriptions), a documented object whose
signature supplies what the structure says is built with griffe.visit, the real parser runs, and
   real sections vs the generating structure (exact strings)   -> the property on the code (VIOLATION)
   real sections vs the spec's `sections`                       -> conformance of the model (drift note)
"""
from __future__ import annotations

import json
import os
import random
import time
from concurrent.futures import ThreadPoolExecutor

from gverif import tlc
from gverif.common import SEED, die, ensure_repo
from gverif.harness import Run
from gverif.props.c12 import load_styles, run_tlc
from gverif.props.c12_common import DEFAULTS, Timeout, docstring_snapshot, exc_frames, guarded_confirmed
from gverif.props.c13_struct import GoogleBinding, NumpyBinding, SphinxBinding

PROP = "C13"
BINDINGS = {"google": GoogleBinding, "numpy": NumpyBinding, "sphinx": SphinxBinding}
ORDERED = {"google": True, "numpy": True, "sphinx": False}      # Sphinx merges by field kind: order is not claimed

# style -> tier -> [(constants, workers, cap)]
JOBS = {
    "google": {"quick": [({"SECS": 1, "VARIETY": "full"}, 3, None), ({"SECS": 2, "VARIETY": "mini"}, 3, None)],
               "thorough": [({"SECS": 1, "VARIETY": "full"}, 4, None), ({"SECS": 2, "VARIETY": "thin"}, 8, None), ({"SECS": 3, "VARIETY": "mini"}, 8, None)]},
    "numpy": {"quick": [({"SECS": 1, "VARIETY": "full"}, 3, None), ({"SECS": 2, "VARIETY": "mini"}, 2, None)],
              "thorough": [({"SECS": 1, "VARIETY": "full"}, 4, None), ({"SECS": 2, "VARIETY": "thin"}, 8, None), ({"SECS": 3, "VARIETY": "mini"}, 8, None)]},
    "sphinx": {"quick": [({"SECS": 2, "VARIETY": "thin"}, 2, None), ({"SECS": 3, "VARIETY": "mini"}, 2, None)],
               "thorough": [({"SECS": 2, "VARIETY": "full"}, 4, None), ({"SECS": 3, "VARIETY": "slim"}, 8, None), ({"SECS": 4, "VARIETY": "mini"}, 8, None)]},
}
# no recorded defect is left (findings.d/C13.json: all three fixed in /repo): the strict equality ParsesBack is checked everywhere
DEFECT_JOBS: dict = {}
CLEAN_INVARIANT = {"google": "ParsesBack", "numpy": "ParsesBack", "sphinx": "ParsesBack"}
# model-only regression domains: the machine with a repaired defect switched back on - TLC must still find the invariant violated
# (the domain still discriminates); its counterexample is replayed, so a regression of the real code shows here too
OLD_BEHAVIOUR_JOBS = {"sphinx": ("DocSphinx_oldlate.cfg", {"SECS": 1, "VARIETY": "thin"}, "ParsesBack")}


class Stats:
    def __init__(self):
        self.parses = 0
        self.drift: dict = {}


def options_for(style: str, case: dict, which: int) -> dict:
    out = {}
    for o, dflt in DEFAULTS[style].items():
        v = case["opts"].get(o, "U")
        if v in ("T", "F"):
            out[o] = v == "T"
        elif o in ("trim_doctest_flags", "warn_unknown_params"):
            out[o] = dflt if which % 2 == 0 else not dflt       # decide no branch; both values are exercised
        else:
            out[o] = dflt
    return out


def replay_structs(run: Run, style: str, st, bind, griffe, cases: list, stats: Stats, origin: str):
    for n, case in enumerate(cases):
        v = bind.variants[n % len(bind.variants)]
        text, parts = st.concretise(case["lines"], v, wf=True)
        parent, ann, dflt, parent_src = bind.build_parent(case, parts)
        options = options_for(style, case, n)
        d = griffe.Docstring(text, lineno=1, endlineno=1 + text.count("\n"), parent=parent)
        if d.value != text:
            die(f"{PROP}: rendered docstring is not a cleandoc fixed point: {text!r}")
        before = docstring_snapshot(d)
        res, exc = guarded_confirmed(lambda: d.parse(style, **options), 5.0)
        stats.parses += 1
        run.evaluated()
        run.replayed()
        kinds = [s["kind"] for s in case["expect"]]
        ident = {"style": style, "text": text, "parent_source": parent_src, "options": options, "expect": case["expect"], "lines": case["lines"], "sig": case["sig"], "wrap": case.get("wrap", "plain"),
                 "opts": case["opts"], "variant": v, "origin": origin}
        if len(kinds) > 1:
            run.nontrivial_case((style, st.code(case["lines"]), json.dumps(case["sig"], sort_keys=True), json.dumps(case["opts"], sort_keys=True)))
        if n < 2:
            run.sample({"style": style, "kinds": kinds, "text": text, "parent": parent_src.split("\n", 2)[-1], "options": {k: v_ for k, v_ in options.items() if v_ != DEFAULTS[style][k]}}, limit=8)
        if exc is not None:
            run.violation({"style": style, "clause": "parses-back", "kind": "-", "cause": "does-not-terminate" if isinstance(exc, Timeout) else "exception", "exc": type(exc).__name__},
                          f"{style}: parsing the well-formed docstring {text!r} raised {exc!r} at {exc_frames(exc)}", ident)
            continue
        if docstring_snapshot(d) != before:
            run.violation({"style": style, "clause": "unmodified"}, f"{style}: docstring attributes changed while parsing {text!r}", ident)
        # (a) the property on the real code: what came back is what was written
        actual = bind.actual(res)
        expected = bind.expected(case, parts, ann, dflt)
        for kind, cause, msg in bind.diff(actual, expected, ORDERED[style]):
            run.violation({"style": style, "clause": "parses-back", "kind": kind, "cause": cause}, f"{style}: {msg}\n--- docstring ---\n{text}\n--- documented object ---\n{parent_src}--- options --- {options}", ident)
        # (b) conformance: the real result vs the spec's final state
        if case["outcome"] != "done":
            stats.drift.setdefault("model-crash-not-real", []).append((text, case["crash"]))
            continue
        hard, _soft = st.compare(st.project_real(res), st.project_spec(case["sections"], parts, case.get("flags") or {}))
        if hard:
            stats.drift.setdefault("sections", []).append((text, options, hard))


def run_replay_file(run: Run, griffe, path: str):
    with open(path) as fh:
        rec = json.load(fh)
    print(rec["what"])
    for e in run.findings:
        e.pop("expect_every_run", None)      # a replay re-executes one case: the other findings are not expected to show
    c = rec["case"]
    styles = load_styles(griffe, (c["style"],))
    st = styles[c["style"]]
    bind = BINDINGS[c["style"]](griffe, st)
    case = {"lines": c["lines"], "expect": c["expect"], "sig": c["sig"], "opts": c["opts"], "wrap": c.get("wrap", "plain"), "outcome": "done", "sections": c["expect"], "crash": None}
    # re-execute exactly the stored text / documented object / options
    bind.variants = (c["variant"],)
    stats = Stats()
    replay_structs(run, c["style"], st, bind, griffe, [case], stats, "replay")
    run.states = run.transitions = 1
    run.finish()


def main(tier: str, replay: str | None = None):
    griffe = ensure_repo()
    run = Run(PROP, tier)
    run.rule = ("Doc{Google,Numpy,Sphinx}.tla struct mode: every structure (summary + <= MaxSecs sections of the kinds the style supports, 1-2 items with optional "
                "name/type/default, three description shapes, titles, signature-supplied annotations/defaults, layout options) within the variety bound; "
                "one case = one rendered structure. Non-trivial = at least two sections after rendering (a boundary exists); distinct by (style, rendered "
                "class sequence, signature flags, layout options).")
    if replay:
        run_replay_file(run, griffe, replay)
    rnd = random.Random(SEED)
    only = [x for x in os.environ.get("VERIF_C12_STYLES", "").split(",") if x]
    styles = load_styles(griffe, tuple(only or JOBS))
    binds = {s: BINDINGS[s](griffe, st) for s, st in styles.items()}
    t0 = time.time()
    jobs = {}
    with ThreadPoolExecutor(max_workers=6) as pool:
        for style, st in styles.items():
            for consts, workers, cap in JOBS[style][tier]:
                c = dict(consts, EMIT="TRUE", EMITMOD=consts.get("EMITMOD", 1), PARSESBACK=CLEAN_INVARIANT[style])
                jobs[style, json.dumps(consts, sort_keys=True)] = (pool.submit(run_tlc, st.module, f"{st.module}_struct.cfg", workers=workers, constants=c, timeout=3000, heap="6g"), cap)
            if style in DEFECT_JOBS:
                c = dict(DEFECT_JOBS[style], EMIT="FALSE", EMITMOD=1, PARSESBACK="ParsesBack")
                jobs[style, "defect"] = (pool.submit(run_tlc, st.module, f"{st.module}_struct.cfg", workers=2, constants=c, timeout=1200, dump_trace=True), None)
            if style in OLD_BEHAVIOUR_JOBS:
                cfg, consts, inv = OLD_BEHAVIOUR_JOBS[style]
                c = dict(consts, EMIT="FALSE", EMITMOD=1, PARSESBACK=inv)
                jobs[style, "old-behaviour"] = (pool.submit(run_tlc, st.module, cfg, workers=2, constants=c, timeout=1200, dump_trace=True), None)
    print(f"TLC done after {time.time() - t0:.1f}s", flush=True)
    run.exhaustive = True
    for (style, label), (fut, cap) in jobs.items():
        st, bind = styles[style], binds[style]
        res = fut.result()
        stats = Stats()
        if label == "old-behaviour":
            inv = OLD_BEHAVIOUR_JOBS[style][2]
            tlc.must(res, allow_violations=True)
            res.violated = sorted(set(res.violated))
            run.add_tlc(res)
            run.extra.setdefault("old_behaviour_domain", {})[style] = res.violated
            if inv not in res.violated or not res.trace:
                print(res.tail)
                die(f"{PROP}: {style}: the model with the repaired defect switched back on no longer violates {inv}: the regression domain does not discriminate")
            fin = res.trace[-1]
            case = {k: fin[k] for k in ("lines", "expect", "sig", "crash")}
            case.update(wrap=fin.get("wrap", "plain"), opts=fin.get("opts", {}), outcome="done", sections=fin["expect"], flags={})
            replay_structs(run, style, st, bind, griffe, [case], stats, "tlc-old-behaviour-counterexample")    # the real code must parse it back
            continue
        if label == "defect":
            # defect domain: the strict equality fails on the model; TLC's counterexample is replayed on the real parser
            tlc.must(res, allow_violations=True)
            run.add_tlc(res)
            run.extra.setdefault("defect_domain", {})[style] = sorted(set(res.violated))
            if "ParsesBack" not in res.violated:
                run.note(f"{style}: the strict invariant ParsesBack holds on the model in the defect configuration (defect fixed and model updated?)")
            elif res.trace:
                fin = res.trace[-1]
                case = {k: fin[k] for k in ("lines", "expect", "sig", "sections", "crash")}
                case["wrap"] = fin.get("wrap", "plain")
                case["opts"] = fin.get("opts", {})
                case["outcome"] = fin["pc"]
                case["flags"] = fin.get("flags", {})
                before = sum(h["count"] for h in run.known_hits.values()) + len(run.violations)
                replay_structs(run, style, st, bind, griffe, [case], stats, "tlc-counterexample")
                after = sum(h["count"] for h in run.known_hits.values()) + len(run.violations)
                run.note(f"{style}: TLC counterexample to ParsesBack {'reproduced on the real parser' if after > before else 'did NOT reproduce on the real parser'}: "
                         f"{st.concretise(case['lines'], bind.variants[0], wf=True)[0]!r}")
            continue
        tlc.must(res)
        run.add_tlc(res)
        cases = res.cases
        if cap is not None and len(cases) > cap:
            run.note(f"{style} {label}: replayed a seeded sample of {cap} of {len(cases)} structures")
            cases = rnd.sample(cases, cap)
            run.exhaustive = False
        if json.loads(label).get("EMITMOD", 1) != 1:
            run.exhaustive = False
        t1 = time.time()
        replay_structs(run, style, st, bind, griffe, cases, stats, f"tlc:{label}")
        print(f"{style} {label}: {len(cases)} structures, {stats.parses} parses in {time.time() - t1:.1f}s", flush=True)
        for kind, items in stats.drift.items():
            run.note(f"{style}: model drift [{kind}] on {len(items)} structure(s), e.g. {items[0]!r}"[:900])
    run.finish()
