"""X04 helpers: terms of spec/ExprOps.tla <-> Python text, the module the annotations live in, the CPython oracle.

A term is a node of ExprBuild's vocabulary {"t", "op", "kids", "ps"} (c03_ast.to_ast turns it into a real `ast`
node, so the source text is spelled by CPython's own `ast.unparse`).
"""
from __future__ import annotations

import ast
import builtins
import importlib
import types
import typing

from gverif.props.c03_ast import to_ast

# The module header: must agree with `Scope` of spec/ExprOps.tla (the driver validates it against CPython: every name
# element's path must evaluate to the very object its canonical path denotes).
HEADER = '''\
import typing
import typing as t
import typing_extensions as te
import collections.abc
import collections.abc as cabc
from typing import Callable, ClassVar, Dict, FrozenSet, Iterator, List, Literal, Optional, Set, Tuple, Type, Union
from typing import List as L, Optional as Opt, Union as U, Tuple as Tup
from collections.abc import Generator
_T = typing.TypeVar("_T")
_Ts = typing.TypeVarTuple("_Ts")
class K: ...
class J: ...
class Box(typing.Generic[_T]):
    def __init__(self, *a, **k): ...
class ns:
    class K2: ...
    def f(*a, **k): ...
    class Optional(typing.Generic[typing.Unpack[_Ts]]): ...
    class Union(typing.Generic[typing.Unpack[_Ts]]): ...
    class List(typing.Generic[typing.Unpack[_Ts]]): ...
    class Dict(typing.Generic[typing.Unpack[_Ts]]): ...
    class Tuple(typing.Generic[typing.Unpack[_Ts]]): ...
    class ClassVar(typing.Generic[typing.Unpack[_Ts]]): ...
    class Iterator(typing.Generic[typing.Unpack[_Ts]]): ...
    class Generator(typing.Generic[typing.Unpack[_Ts]]): ...
'''
FUTURE = "from __future__ import annotations\n"
VALUE_LEAVES = {"CallKw", "TCast", "NsF"}


def text_of(term: dict) -> str:
    return ast.unparse(to_ast(term))


def norm_dump(text: str) -> str:
    try:
        return ast.dump(ast.parse(text, mode="eval"))
    except SyntaxError as exc:
        return f"<SyntaxError {exc.msg}>"


def N(t, op, kids):  # noqa: N802
    return {"t": t, "op": op, "kids": kids, "ps": []}


def from_ast(node: ast.AST) -> dict:
    """Real ast -> term (the inverse of to_ast on the annotation grammar); a string constant keeps its parsed content."""
    if isinstance(node, ast.Expression):
        return from_ast(node.body)
    if isinstance(node, ast.Name):
        return N("Name", node.id, [])
    if isinstance(node, ast.Attribute):
        return N("Attribute", node.attr, [from_ast(node.value)])
    if isinstance(node, ast.Subscript):
        return N("Subscript", "", [from_ast(node.value), from_ast(node.slice)])
    if isinstance(node, ast.Tuple):
        return N("Tuple", "", [from_ast(x) for x in node.elts])
    if isinstance(node, ast.List):
        return N("List", "", [from_ast(x) for x in node.elts])
    if isinstance(node, ast.BinOp) and isinstance(node.op, ast.BitOr):
        return N("BinOp", "|", [from_ast(node.left), from_ast(node.right)])
    if isinstance(node, ast.Call):
        kws = [N("keyword", k.arg, [from_ast(k.value)]) for k in node.keywords]
        return N("Call", "", [from_ast(node.func)] + [from_ast(a) for a in node.args] + kws)
    if isinstance(node, ast.Constant):
        v = node.value
        if v is None:
            return N("Const", "none", [])
        if v is Ellipsis:
            return N("Const", "ellipsis", [])
        if isinstance(v, str):
            try:
                return N("Const", "str", [from_ast(ast.parse(v, mode="eval"))])
            except SyntaxError:
                return N("Const", "strbad", [])
        if isinstance(v, int) and not isinstance(v, bool):
            return N("Const", "int", [])
    return N("Other", type(node).__name__, [])


def term_of_text(text: str):
    try:
        return from_ast(ast.parse(text, mode="eval"))
    except SyntaxError:
        return None


def key(term) -> str:
    """Canonical, hashable spelling of a term (the unparse of a term is injective on this grammar)."""
    import json  # noqa: PLC0415

    return json.dumps(term, sort_keys=True)


# ---- the CPython oracle -----------------------------------------------------------------------------------------
class Oracle:
    """Executes the header once (module `m`) and evaluates annotation texts the way typing.get_type_hints does."""

    def __init__(self):
        self.mod = types.ModuleType("m")
        exec(compile(HEADER, "m.py", "exec", dont_inherit=True), self.mod.__dict__)  # noqa: S102
        self.ns = self.mod.__dict__

    def eval_now(self, text: str):
        """Evaluation at definition time (no postponed evaluation): returns (ok, value-or-exception)."""
        try:
            return True, eval(compile(text, "<ann>", "eval", dont_inherit=True), self.ns)  # noqa: S307
        except Exception as exc:  # noqa: BLE001
            return False, exc

    def hints(self, text: str):
        """What typing.get_type_hints makes of the annotation text (forward references resolved)."""
        holder = type("H", (), {"__annotations__": {"x": text}, "__module__": "m"})
        try:
            return True, typing.get_type_hints(holder, globalns=self.ns)["x"]
        except Exception as exc:  # noqa: BLE001
            return False, exc

    def resolve(self, segs: list):
        """The object a canonical path denotes."""
        if segs[0] == "m":
            obj = self.mod
            for s in segs[1:]:
                obj = getattr(obj, s)
            return obj
        for cut in range(len(segs), 0, -1):
            try:
                obj = importlib.import_module(".".join(segs[:cut]))
            except ImportError:
                continue
            for s in segs[cut:]:
                obj = getattr(obj, s)
            return obj
        obj = builtins
        for s in segs:
            obj = getattr(obj, s)
        return obj


def qual(obj) -> str:
    mod = getattr(obj, "__module__", "")
    name = getattr(obj, "__qualname__", None) or getattr(obj, "_name", None) or repr(obj)
    return name if mod in ("builtins", "") else f"{mod}.{name}"


def canon(tp):
    """Normal form of a runtime type: unions are sets, typing aliases are their origins (List[int] == list[int])."""
    if tp is None or tp is type(None):
        return ("c", "none")
    if tp is Ellipsis:
        return ("c", "ellipsis")
    if isinstance(tp, list):
        return ("L", tuple(canon(a) for a in tp))
    if isinstance(tp, (str, typing.ForwardRef)):
        return ("unresolved", repr(tp))
    origin, args = typing.get_origin(tp), typing.get_args(tp)
    if origin is typing.Union or origin is types.UnionType:
        return ("u", frozenset(canon(a) for a in args))
    if origin is typing.Literal:
        return ("l", tuple(("v", "str" if isinstance(a, str) else "int") for a in args))
    if origin is None:
        return ("c", qual(tp))
    if not args:
        return ("c", qual(origin))
    return ("g", qual(origin), tuple(canon(a) for a in args))


def den_canon(d):
    """The spec's Den value (JSON) in the same normal form."""
    tag = d[0]
    if tag == "c":
        return ("c", ".".join(d[1]))
    if tag == "u":
        return ("u", frozenset(den_canon(x) for x in d[1]))
    if tag == "l":
        return ("l", tuple(("v", x[1]) for x in d[1]))
    if tag == "L":
        return ("L", tuple(den_canon(x) for x in d[1]))
    if tag == "g":
        return ("g", ".".join(d[1]), tuple(den_canon(x) for x in d[2]))
    return (tag,)
