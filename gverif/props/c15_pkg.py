"""C15 helper: abstract case (cfg record of spec/LoadProtocol.tla) -> package on disk.

Every module body appends its ``__name__`` to the sentinel file (path in env C15_SENTINEL) before
anything else, then performs the fault of the fault plan (raise / sys.exit / import of a missing
dependency).  "Compiled" modules (spec kind "so") are concretised either as sourceless ``.pyc``
files or as a real C extension module (one shared object exporting PyInit_<name> for every name of
the universe, built once per run with the system compiler); both are invisible to the static
agent and importable by CPython, both append to the sentinel when imported.
"""
from __future__ import annotations

import os
import py_compile
import shutil
import subprocess
import sysconfig

EXT_SUFFIX = sysconfig.get_config_var("EXT_SUFFIX") or ".so"
MISSING_DEP = "zz_c15_missing_dep"

BODY = """import os as _os
with open(_os.environ["C15_SENTINEL"], "a") as _f:
    _f.write(__name__ + "\\n")
del _f
{hostile}{fault}
X = 1
def f(a, b=2):
    "doc"
    return a
class K:
    y = 3
{walk}"""
# cfg.walk: a lazy attribute (PEP 562 module-level __getattr__ + __dir__) resolved only while the members are enumerated
WALK = {
    "none": "",
    "ok": 'def __dir__():\n    return [*globals(), "lazyattr"]\ndef __getattr__(name):\n    if name == "lazyattr":\n        return 7\n    raise AttributeError(name)\n',
    "dep": 'def __dir__():\n    return [*globals(), "lazyattr"]\ndef __getattr__(name):\n    if name == "lazyattr":\n        import zz_c15_missing_dep\n    raise AttributeError(name)\n',
    "exit": 'def __dir__():\n    return [*globals(), "lazyattr"]\ndef __getattr__(name):\n    if name == "lazyattr":\n        raise SystemExit(4)\n    raise AttributeError(name)\n',
}
# cfg.pathmut: what every executable body does to sys.path before it can fail
PATHMUT = {
    "none": "",
    "inplace": 'import sys as _s\n_s.path.insert(0, "/c15-bogus-entry")\n_s.path.append("/c15-bogus-tail")\n',
    "rebind": 'import sys as _s\n_s.path = ["/c15-vendor", *_s.path]\n',
}
# concretisations of the abstract compiled kinds (every suffix ModuleFinder yields as a module besides .py / .pyi):
#   "so" (importable here): sourceless .pyc, tagged extension module, plain .so, stable-ABI .abi3.so
#   "xc" (compiled for the finder, not importable by this CPython): .pyd, tagged .pyd, .pyo
SO_VARIANTS = ["pyc", "so", "plainso", "abi3so"]
XC_VARIANTS = ["pyd", "tagpyd", "pyo"]
XC_SUFFIX = {"pyd": ".pyd", "tagpyd": ".cp312-win_amd64.pyd", "pyo": ".pyo"}
SO_SUFFIX = {"so": EXT_SUFFIX, "plainso": ".so", "abi3so": ".abi3.so"}
FAULT_CODE = {
    "none": "",
    "raises": 'raise RuntimeError("c15 planned fault")',
    "exit": "import sys as _sys\n_sys.exit(3)",
    "missingdep": f"import {MISSING_DEP}",
}
STUB = "X: int\ndef f(a: int, b: int = ...) -> int: ...\nclass K:\n    y: int\n"

# the alias holder text (top-level __init__ only): inert at run time, an alias for the static agent
HOLDER = {
    "none": "",
    "name": "from typing import TYPE_CHECKING\nif TYPE_CHECKING:\n    from {ext} import X as EX\n__all__ = ['EX']\n",
    "star": "from typing import TYPE_CHECKING\nif TYPE_CHECKING:\n    from {ext} import *\n",
}

C_SOURCE = r"""
#define PY_SSIZE_T_CLEAN
#include <Python.h>
static const char *CODE =
  "import os as _os, json as _json\n"
  "with open(_os.environ['C15_SENTINEL'], 'a') as _f:\n"
  "    _f.write(__name__ + '\\n')\n"
  "if _os.environ.get('C15_PATHMUT') == 'inplace':\n"
  "    import sys as _s\n"
  "    _s.path.insert(0, '/c15-bogus-entry')\n"
  "if _os.environ.get('C15_PATHMUT') == 'rebind':\n"
  "    import sys as _s\n"
  "    _s.path = ['/c15-vendor', *_s.path]\n"
  "_flt = _json.loads(_os.environ.get('C15_CFAULTS', '{}')).get(__name__, 'none')\n"
  "if _flt == 'raises':\n"
  "    raise RuntimeError('c15 planned fault')\n"
  "if _flt == 'exit':\n"
  "    raise SystemExit(3)\n"
  "if _flt == 'missingdep':\n"
  "    import zz_c15_missing_dep\n"
  "X = 1\n"
  "_wk = _os.environ.get('C15_WALK', 'none')\n"
  "if _wk != 'none':\n"
  "    def __dir__():\n"
  "        return [*globals(), 'lazyattr']\n"
  "    def __getattr__(name, _wk=_wk):\n"
  "        if name == 'lazyattr':\n"
  "            if _wk == 'dep':\n"
  "                import zz_c15_missing_dep\n"
  "            if _wk == 'exit':\n"
  "                raise SystemExit(4)\n"
  "            return 7\n"
  "        raise AttributeError(name)\n";
static int exec_mod(PyObject *m) {
    PyObject *d = PyModule_GetDict(m);
    PyObject *r = PyRun_String(CODE, Py_file_input, d, d);
    if (r == NULL) return -1;
    Py_DECREF(r);
    return 0;
}
static PyModuleDef_Slot slots[] = {{Py_mod_exec, exec_mod}, {0, NULL}};
#define MOD(N) \
  static struct PyModuleDef def_##N = {PyModuleDef_HEAD_INIT, #N, NULL, 0, NULL, slots, NULL, NULL, NULL}; \
  PyMODINIT_FUNC PyInit_##N(void) { return PyModuleDef_Init(&def_##N); }
MOD(p) MOD(a) MOD(b) MOD(q) MOD(_p)
"""


def build_ext(workdir: str) -> str | None:
    """Compile the C extension once; returns the path of the shared object or None (no compiler)."""
    cc = shutil.which("gcc") or shutil.which("cc") or shutil.which("clang")
    inc = sysconfig.get_path("include")
    if not cc or not os.path.exists(os.path.join(inc, "Python.h")):
        return None
    src = os.path.join(workdir, "c15ext.c")
    out = os.path.join(workdir, "c15ext.so")
    with open(src, "w") as fh:
        fh.write(C_SOURCE)
    proc = subprocess.run([cc, "-shared", "-fPIC", "-O0", "-I", inc, src, "-o", out], capture_output=True, text=True, check=False)
    if proc.returncode != 0 or not os.path.exists(out):
        return None
    return out


def ext_name(cfg: dict) -> str:
    return "_p" if cfg["extprivate"] else "q"


def pyname(cfg: dict, m: str) -> str:
    """dotted import name of the abstract module id."""
    if m == "p":
        return "p"
    if m == "a":
        return "p.a"
    if m == "b":
        return "p.b" if cfg["layout"] == "flat" else "p.a.b"
    if m == "q":
        return ext_name(cfg)
    raise ValueError(m)


def model_id(cfg: dict, name: str) -> str | None:
    for m in ("p", "a", "b", "q"):
        if pyname(cfg, m) == name:
            return m
    return None


class Builder:
    def __init__(self, cfg: dict, root: str, compiled_as: str, ext_so: str | None, xc_as: str = "pyd"):
        self.cfg = cfg
        self.xc_as = xc_as
        self.root = root
        self.sp = os.path.join(root, "sp")
        self.sentinel = os.path.join(root, "sentinel")
        self.compiled_as = compiled_as if (compiled_as == "pyc" or ext_so) else "pyc"
        self.pathmut = cfg.get("pathmut", "none")
        self.ext_so = ext_so
        self.cfaults: dict = {}
        self.extra_paths: list = []
        self.files: dict = {}

    def _write(self, path: str, text: str):
        os.makedirs(os.path.dirname(path), exist_ok=True)
        with open(path, "w") as fh:
            fh.write(text)

    def _code(self, m: str, extra: str = "") -> str:
        return BODY.format(fault=FAULT_CODE[self.cfg["fault"][m]], hostile=PATHMUT[self.pathmut], walk=WALK[self.cfg.get("walk", "none")]) + extra

    def _module(self, m: str, kind: str, directory: str, stem: str, extra: str = ""):
        """Write module `m` of `kind` as <directory>/<stem>.<suffix>."""
        os.makedirs(directory, exist_ok=True)
        if kind in ("py", "both"):
            path = os.path.join(directory, stem + ".py")
            self._write(path, self._code(m, extra))
            if kind == "both":          # the stub file next to the source
                self._write(os.path.join(directory, stem + ".pyi"), STUB)
        elif kind == "pyi":
            path = os.path.join(directory, stem + ".pyi")
            self._write(path, STUB + extra)
        elif kind == "xc":
            # a compiled module of another platform / a legacy optimised byte-code file: bytes CPython here never loads
            path = os.path.join(directory, stem + XC_SUFFIX[self.xc_as])
            with open(path, "wb") as fh:
                fh.write(b"MZ\x90\x00 not importable on this platform\n")
        elif kind == "so":
            if self.compiled_as in SO_SUFFIX:
                path = os.path.join(directory, stem + SO_SUFFIX[self.compiled_as])
                shutil.copyfile(self.ext_so, path)
                self.cfaults[pyname(self.cfg, m)] = self.cfg["fault"][m]
            else:
                path = os.path.join(directory, stem + ".pyc")
                tmp = os.path.join(self.root, "tmp_src.py")
                self._write(tmp, self._code(m))
                py_compile.compile(tmp, cfile=path, dfile=os.path.join(directory, stem + ".py"), doraise=True)
                os.unlink(tmp)
        else:
            raise ValueError(kind)
        self.files[m] = path

    def build(self):
        cfg = self.cfg
        os.makedirs(self.sp, exist_ok=True)
        open(self.sentinel, "w").close()
        file = cfg["file"]
        top = file["p"]
        holder = HOLDER[cfg["extstyle"]].format(ext=ext_name(cfg))
        pdir = os.path.join(self.sp, "p")
        if top in ("py", "pyi", "so", "xc"):
            self._module("p", top, pdir, "__init__", holder if top in ("py", "pyi") else "")
            if cfg["stubs"] == "inpkg" and top == "py":
                self._write(os.path.join(pdir, "__init__.pyi"), STUB)
        elif top == "ns":
            os.makedirs(pdir, exist_ok=True)
            self._write(os.path.join(pdir, ".keep"), "")       # git does not track empty directories (load_git entry)
        elif top == "sofile":
            self._module("p", "so", self.sp, "p")
        elif top == "zip":
            # a source package inside a zip archive that is itself an entry of the search path
            import zipfile  # noqa: PLC0415

            zpath = os.path.join(self.sp, "z.zip")
            with zipfile.ZipFile(zpath, "w") as zf:
                zf.writestr("p/__init__.py", self._code("p"))
            self.extra_paths.append(zpath)
            self.files["p"] = zpath
        if top in ("py", "pyi", "so", "xc", "ns"):
            if cfg["layout"] == "flat":
                for m in ("a", "b"):
                    if file[m] != "missing":
                        self._module(m, file[m], pdir, m)
            else:
                adir = os.path.join(pdir, "a")
                if file["a"] != "missing":
                    self._module("a", file["a"], adir, "__init__")
                if file["b"] != "missing":
                    self._module("b", file["b"], adir, "b")
        if cfg["stubs"] == "ext":
            self._write(os.path.join(self.sp, "p-stubs", "__init__.pyi"), STUB)
        if cfg["extstyle"] != "none":
            ek = cfg["extkind"]
            if ek == "py":
                self._module("q", "py", self.sp, ext_name(cfg))
            elif ek == "sofile":
                self._module("q", "so", self.sp, ext_name(cfg))
        return self

    def commit(self):
        """Put the generated tree under git (load_git entry): `root` becomes a repository with one commit."""
        git = ["git", "-C", self.root, "-c", "user.name=c15", "-c", "user.email=c15@example.invalid", "-c", "core.excludesFile=", "-c", "commit.gpgsign=false"]
        for args in (["init", "-q"], ["add", "-f", "--", "sp"], ["commit", "-q", "--allow-empty", "-m", "case"]):
            proc = subprocess.run(git + args, capture_output=True, text=True, check=False)
            if proc.returncode != 0:
                raise RuntimeError(f"git {args[0]} failed: {proc.stderr[-300:]}")
