"""C05 - imports, re-exports and wildcards resolve exactly as CPython imports them.

Spec: spec/PyImport.tla (CPython's import system, the reference), spec/Loader.tla + spec/Alias.tla (the
static visitor's import handling, GriffeLoader.load/_post_load/expand_exports/expand_wildcards/
resolve_aliases and Alias.resolve_target as a call-stack machine).  TLC enumerates every acyclic package
program of a family within the bounds, runs the reference and the implementation model on it and decides
   NamesEq / TargetsEq / ExportsEq / NoCrash05
on the model: in the `clean` domain they must hold; in the `defect` domain (programs matching a recorded
defect pattern D1..D5 of Loader.tla) TLC exhibits the violation and the counterexample is replayed.

Binding (every program TLC emits is written to disk):
   real CPython (child interpreter)  vs  PyImport.tla's final state   -> validity of the reference (exit 2)
   real Griffe                       vs  the reference                -> the property on the code (VIOLATION)
   real Griffe                       vs  Loader.tla's final state     -> conformance of the model (drift note)
   recorded call sequence (taps)     vs  Loader.tla's frame pushes    -> trace validation (drift note)
   resolved aliases present target kind/docstring/labels/signature/members rebased under the alias path
   (evaluated on the real objects of every case).
"""
from __future__ import annotations

import json
import os
import random
import time
from concurrent.futures import ProcessPoolExecutor, ThreadPoolExecutor

from gverif import tlc
from gverif.common import SEED, die, ensure_repo, scratch
from gverif.harness import Run
from gverif.props import c05_lib as lib

PRESENT = {
    "chain": ["p", "p.a", "p.b"], "chain-q": ["p", "p.a", "p.b"], "exports": ["p", "p.a", "p.b"], "exports-q": ["p", "p.a", "p.b"],
    "pkg": ["p", "p.s", "p.s.c"], "pkg-q": ["p", "p.s", "p.s.c"], "reexp": ["p", "p.a", "p.b"], "reexp-q": ["p", "p.a", "p.b"],
    "topstar": ["p", "p.a", "p.b"], "splice": ["p", "p.a", "p.b"], "spl-down": ["p", "p.a", "p.b", "p.s"], "spl-up": ["p", "p.a", "p.b", "p.s"], "facade": ["p", "p.a", "p.b", "p.s"], "updots": ["p", "p.s", "p.s.c"], "deepdots": ["p", "p.s", "p.s.c", "p.s.t"], "attrall": ["p", "p.a", "p.b"], "repeat": ["p", "p.a", "p.b"], "relay": ["p", "p.a", "p.b", "p.s"],
}


def _sorted_walk(orig):
    def walk(top, *a, **kw):
        for root, dirs, files in orig(top, *a, **kw):
            dirs.sort()
            files.sort()
            yield root, dirs, files

    return walk


# ---------------------------------------------------------------------------------------------------------
# one case on the real code + CPython (runs in a worker process)
# ---------------------------------------------------------------------------------------------------------
_W = {}


class Hang(BaseException):       # not an Exception: nothing in the code under test (or in the probes) may swallow it
    pass


def _alarm(_sig, _frm):
    raise Hang()


def _worker_init():
    import signal

    griffe = ensure_repo()
    os.walk = _sorted_walk(os.walk)
    signal.signal(signal.SIGVTALRM, _alarm)   # CPU time of this process: a starved machine is not a hang
    _W["griffe"] = griffe
    _W["oracle"] = lib.Oracle()


def _rebase_check(griffe, mod, problems: list):
    """A resolved alias presents its target's kind, docstring, labels, signature and members (paths rebased)."""
    for n, mem in list(mod.members.items()):
        if not mem.is_alias or n.endswith("/*"):
            continue
        try:
            fin = mem.final_target
        except (griffe.AliasResolutionError, griffe.CyclicAliasError):
            continue
        try:
            if mem.kind is not fin.kind:
                problems.append(f"{mem.path}: kind {mem.kind} but target kind {fin.kind}")
            if mem.docstring is not fin.docstring:
                problems.append(f"{mem.path}: docstring differs from the target's")
            if mem.labels != fin.labels:
                problems.append(f"{mem.path}: labels differ from the target's")
            if fin.kind.value == "function" and mem.parameters is not fin.parameters:
                problems.append(f"{mem.path}: signature differs from the target's")
            if mem.path != f"{mod.path}.{n}":
                problems.append(f"{mem.path}: alias path is not parent path + name")
            tm = fin.members
            am = mem.members
            if list(am) != list(tm):
                problems.append(f"{mem.path}: member names {list(am)} differ from the target's {list(tm)}")
            for k, sub in am.items():
                if sub.path != f"{mem.path}.{k}":
                    problems.append(f"{mem.path}: member {k} has path {sub.path}, not rebased under the alias")
                if sub.final_target is not (tm[k].final_target if tm[k].is_alias else tm[k]):
                    problems.append(f"{mem.path}: member {k} does not lead to the target's member")
        except (griffe.AliasResolutionError, griffe.CyclicAliasError):
            continue


def run_case(case: dict) -> dict:
    import signal

    out = {"crash": "", "real": [], "final": {}, "trace": [], "rebase": [], "probes": []}
    signal.setitimer(signal.ITIMER_VIRTUAL, 10.0, 10.0)      # 10 s of CPU time without an answer counts as a crash ("Hang")
    try:
        _run_case(case, out)
    except Hang:
        out["crash"] = "Hang"
    finally:
        signal.setitimer(signal.ITIMER_VIRTUAL, 0)
    return out


def _run_case(case: dict, out: dict):
    griffe, oracle = _W["griffe"], _W["oracle"]
    present = [e["m"] for e in case["prog"]]
    files = lib.render_program(case["prog"])
    lib.set_program(case["prog"])
    with scratch("c05-") as d:
        lib.write_package(d, files)
        out["py"] = oracle.ask(d, present)
        tap = lib.Tap(griffe)
        try:
            loader = griffe.GriffeLoader(search_paths=[d], allow_inspection=False)
            try:
                loader.load("p")
                loader.resolve_aliases(implicit=True, external=False)
            except Exception as exc:  # noqa: BLE001
                out["crash"] = type(exc).__name__
        finally:
            tap.close()
        out["trace"] = tap.events
        out["tap_missing"] = tap.missing
        coll = loader.modules_collection
        out["real"] = lib.project(griffe, coll, present)
        out["probes"] = lib.probe_all(griffe, coll, present) if not out["crash"] else []
        # the consumer's view: names and what each name ultimately refers to (public accessors, after the projection)
        for mod in out["real"]:
            if mod.get("missing"):
                continue
            robj = coll[mod["m"]]
            fin = {}
            for n, mem in list(robj.members.items()):
                if mem.is_alias:
                    try:
                        fin[n] = lib.oid(mem.final_target)
                    except Exception as exc:  # noqa: BLE001
                        fin[n] = {"error": type(exc).__name__}
                else:
                    fin[n] = lib.oid(mem)
            out["final"][mod["m"]] = fin
            _rebase_check(griffe, robj, out["rebase"])


def run_chunk(cases: list) -> list:
    return [run_case(c) for c in cases]


# ---------------------------------------------------------------------------------------------------------
# comparisons (parent process)
# ---------------------------------------------------------------------------------------------------------
def ref_maps(case: dict):
    ns = {e["m"]: {x["n"]: x["v"] for x in e["names"]} for e in case["ref"]["ns"]}
    lists = {json.dumps(x["id"], sort_keys=True): x["items"] for x in case["ref"]["lists"]}
    return ns, lists


def check_reference(case: dict, py: dict) -> str:
    """PyImport.tla vs the real CPython on this program; returns a description of the first disagreement."""
    ns, lists = ref_maps(case)
    err = case["ref"]["err"]
    if err:
        return "" if py["err"] else f"reference predicts {err}, CPython imports the package"
    if py["err"]:
        return f"CPython raises {py['err']}, reference imports the package"
    pyid_to_ref: dict = {}
    ref_to_pyid: dict = {}
    for m, names in ns.items():
        pn = py["ns"].get(m)
        if pn is None:
            return f"module {m} missing from CPython's sys.modules"
        if set(pn) != set(names):
            return f"{m}: names reference {sorted(names)} CPython {sorted(pn)}"
        for n, v in names.items():
            pv = pn[n]
            key = json.dumps(v, sort_keys=True)
            if key in lists:
                if pv["k"] != "list" or pv["items"] != lists[key]:
                    return f"{m}.{n}: reference list {lists[key]} CPython {pv}"
                if pyid_to_ref.setdefault(pv["pyid"], key) != key or ref_to_pyid.setdefault(key, pv["pyid"]) != pv["pyid"]:
                    return f"{m}.{n}: list identity (aliasing) differs between reference and CPython"
            elif pv["k"] not in ("def", "mod") or pv["id"] != v:
                return f"{m}.{n}: reference {v} CPython {pv}"
    return ""


def kind_of_id(v: dict, lists: dict) -> str:
    if json.dumps(v, sort_keys=True) in lists:
        return "list"
    return "mod" if v["n"] == "" else "def"


def verdict(case: dict, res: dict) -> list:
    """Real Griffe vs the (validated) reference: [(clause, module, name, detail, what)]."""
    ns, lists = ref_maps(case)
    bad = []
    if res["crash"]:
        return [("crash", "p", "", res["crash"], f"load/resolve_aliases raised {res['crash']}")]
    real = {m["m"]: m for m in res["real"]}
    for m, names in ns.items():
        rm = real.get(m)
        if rm is None or rm.get("missing"):
            bad.append(("names", m, "", "module-missing", f"module {m} is not in the tree"))
            continue
        rnames = {e["n"]: e for e in rm["members"]}
        for n in sorted(set(names) - set(rnames)):
            bad.append(("names", m, n, "missing-" + kind_of_id(names[n], lists), f"CPython binds {m}.{n} (-> {names[n]}), Griffe has no such member"))
        for n in sorted(set(rnames) - set(names)):
            bad.append(("names", m, n, "extra-" + rnames[n]["k"], f"Griffe has member {m}.{n} ({rnames[n]['k']}), CPython binds no such name"))
        for n in sorted(set(rnames) & set(names)):
            fin = res["final"][m][n]
            if fin != names[n]:
                det = kind_of_id(names[n], lists) + "-vs-" + ("error" if "error" in fin else ("mod" if fin["n"] == "" else "obj"))
                bad.append(("target", m, n, det, f"{m}.{n}: CPython's defining object {names[n]}, Griffe's final target {fin}"))
        allv = names.get("__all__")
        if allv is not None and json.dumps(allv, sort_keys=True) in lists:
            want = lists[json.dumps(allv, sort_keys=True)]
            if not rm["has_all"]:
                bad.append(("exports", m, "__all__", "none-vs-list", f"{m}: __all__ = {want} at runtime, Module.exports is None"))
            elif {json.dumps(e, sort_keys=True) for e in rm["exports"]} != {json.dumps({"s": x, "e": False}, sort_keys=True) for x in want}:
                bad.append(("exports", m, "__all__", "items", f"{m}: __all__ = {want} at runtime, Module.exports = {rm['exports']}"))
        elif allv is None and rm["has_all"]:
            bad.append(("exports", m, "__all__", "list-vs-none", f"{m}: no __all__ at runtime, Module.exports = {rm['exports']}"))
    for p in res["rebase"][:3]:
        bad.append(("rebase", "", "", "presentation", p))
    return bad


def spec_trace(case: dict) -> list:
    return [[ev[0], ev[1] if ev[1] else [""]] for ev in case["hist"]]


def evaluate(run: Run, case: dict, res: dict, stats: dict):
    run.replayed()
    msg = check_reference(case, res["py"])
    if msg:
        die(f"C05: PyImport.tla disagrees with CPython on [{lib.prog_text(case['prog'])}]: {msg}")
    stats["ref_ok"] += 1
    if case["ref"]["err"]:
        stats["invalid"] += 1
        return
    if case["ref"]["outdom"]:
        stats["outdom"] += 1
        return
    run.evaluated()
    predicted = {(d["clause"], d["m"], d["n"]) for d in case["diff"]}
    cause = "+".join(sorted(case["flags"])) or "none"
    if any(s["op"] != "def" for e in case["prog"] for s in e["stmts"]):
        run.nontrivial_case(lib.prog_text(case["prog"]))
    bad = verdict(case, res)
    for clause, m, n, detail, what in bad:
        pred = (clause, m, n) in predicted or (clause == "crash" and case["crashed"] != "")
        sig = {"clause": clause, "detail": detail, "cause": cause, "predicted": pred}
        run.violation(sig, f"[{lib.prog_text(case['prog'])}] {what}", case)
    stats["diverging"] += 1 if bad else 0
    if len(run.samples) < 4 and (bad or len(run.samples) < 2):
        run.sample({"program": lib.prog_text(case["prog"]), "flags": case["flags"], "model_diff": case["diff"], "real_divergences": [b[4] for b in bad][:3]})
    # conformance of the implementation model
    if not case["unmod"] and not case["crashed"] and not res["crash"]:
        d = lib.first_diff(lib.norm_impl(case["impl"]), res["real"])
        if d:
            stats["drift"] += 1
            if stats["drift"] <= 3:
                run.note(f"drift: [{lib.prog_text(case['prog'])}] {d}")
        sp = [{"a": p["a"], "out": p["out"]} for p in case["probes"]]
        if sp != res["probes"]:
            stats["drift"] += 1
            if stats["drift"] <= 3:
                k = next((i for i, (a, b) in enumerate(zip(sp, res["probes"])) if a != b), min(len(sp), len(res["probes"])))
                run.note(f"drift (probe outcomes): [{lib.prog_text(case['prog'])}] spec {sp[k:k + 1]} real {res['probes'][k:k + 1]}")
        if case["hist"]:
            missing = res.get("tap_missing", [])
            if lib.same_trace(case["hist"], res["trace"], missing):
                stats["trace_accepted"] += 1
            else:
                stats["trace_rejected"] += 1
                if stats["trace_rejected"] <= 3:
                    st = [e for e in spec_trace(case) if e[0] not in missing]
                    rt = [[e[0], e[1]] for e in res["trace"]]
                    k = next((i for i, (a, b) in enumerate(zip(st, rt)) if a != b), min(len(st), len(rt)))
                    run.note(f"trace rejected (drift, not a verdict): [{lib.prog_text(case['prog'])}] step {k}: spec {st[k:k + 1]} real {rt[k:k + 1]} (lengths {len(st)}/{len(rt)})")
    elif case["unmod"]:
        stats["unmodelled"] += 1
    # model says divergence, real code agrees with CPython: the model over-approximates
    realset = {(c, m, n) for c, m, n, _, _ in bad}
    if predicted - realset:
        stats["overpredicted"] += 1
        if stats["overpredicted"] <= 3:
            run.note(f"model predicts a divergence the real code does not show: [{lib.prog_text(case['prog'])}] {sorted(predicted - realset)}")


def replay_all(run: Run, cases: list, workers: int, stats: dict):
    if not cases:
        return
    size = max(20, min(200, len(cases) // (workers * 4) + 1))
    chunks = [cases[i:i + size] for i in range(0, len(cases), size)]
    import multiprocessing as mp

    with ProcessPoolExecutor(max_workers=workers, mp_context=mp.get_context("fork"), initializer=_worker_init) as pool:
        for chunk, results in zip(chunks, pool.map(run_chunk, chunks)):
            for case, res in zip(chunk, results):
                evaluate(run, case, res, stats)


# families of each tier; the statement bound of every family is Loader.tla's MaxTotal table (Scale)
TIERS = {
    "quick": ["chain-q", "exports-q", "pkg-q", "reexp-q", "spl-down", "spl-up", "facade", "updots", "attrall", "relay", "repeat", "deepdots"],
    "thorough": ["chain-q", "chain", "exports", "pkg", "reexp", "topstar", "splice", "spl-down", "spl-up", "facade", "updots", "attrall", "relay", "repeat", "deepdots"],
}


def fam_set(fams) -> str:
    return ", ".join(f'"{f}"' for f in fams)


def main(tier: str, replay: str | None = None):
    ensure_repo()
    run = Run("C05", tier)
    run.rule = ("every acyclic package program of a family (chain: leaf -> re-exporting module -> package; exports: __all__ assembled from "
                "other modules' __all__; pkg: package/sub-package/sub-module) within the statement bounds, statements from Def/From[As|Rel]/Import[As]/"
                "Star/All/Aug over names x, y, _z; non-trivial = importable by CPython, inside the domain, with at least one import statement; "
                "distinct by program text.")
    stats = {k: 0 for k in ("ref_ok", "invalid", "outdom", "diverging", "drift", "trace_accepted", "trace_rejected", "unmodelled", "overpredicted")}
    if replay:
        with open(replay) as fh:
            rec = json.load(fh)
        c = rec["case"]          # the complete record TLC emitted for this program (reference, model projection, predicted divergences)
        print(rec["what"])
        replay_all(run, [c], 1, stats)
        run.extra["stats"] = stats
        run.states = run.transitions = 1
        run.finish()
    fams = TIERS[tier]
    t0 = time.time()
    nw = 8 if tier == "quick" else 12
    common = {"FAMILIES": fam_set(fams), "SCALE": tier, "CAP": 0, "OLD": ""}
    with ThreadPoolExecutor(max_workers=2) as pool:
        # domain "all": every program is emitted; the clauses are claimed (INVARIANT) for the programs without a defect pattern
        jgen = pool.submit(tlc.run, "Loader", "Loader_c05.cfg", workers=nw, timeout=6000, heap="8g",
                           constants=dict(common, DOMAIN="all", GEN="TRUE", TRACE="TRUE"))
        # domain "defect": only programs with a recorded pattern, clauses claimed for all of them -> TLC exhibits a defect
        jdef = pool.submit(tlc.run, "Loader", "Loader_c05.cfg", workers=2, timeout=6000, heap="4g", dump_trace=True,
                           constants=dict(common, DOMAIN="defect", GEN="FALSE", TRACE="FALSE"))
    model = {}
    res = tlc.must(jgen.result(), allow_violations=True)
    run.add_tlc(res)
    model["claimed"] = res.violated
    if res.violated:
        print(res.tail)
        die(f"C05: Loader.tla violates {res.violated} on a program that matches no recorded defect pattern - "
            "replay it and either record the pattern or fix the model")
    cases = res.cases
    res = tlc.must(jdef.result(), allow_violations=True)
    run.add_tlc(res)
    model["defect-domain"] = res.violated
    if res.trace:
        last = res.trace[-1]
        prog = [{"m": m, "stmts": last["prog"][m]} for m in PRESENT[last["Family"]]]
        run.note(f"defect domain: TLC exhibits {res.violated} on [{lib.prog_text(prog)}] (family {last['Family']})")
    pred = {}
    for c in cases:
        for d in c["diff"]:
            k = "+".join(sorted(c["flags"])) + ":" + d["clause"]
            pred[k] = pred.get(k, 0) + 1
    run.extra["model_predicted_divergences"] = pred
    fcount = {}
    for c in cases:
        fcount[c["family"]] = fcount.get(c["family"], 0) + 1
    run.extra["programs_per_family"] = fcount
    run.extra["model_verdicts"] = model
    run.extra["tlc_wall_s"] = round(time.time() - t0, 1)
    # vacuity: every family produced programs, every statement form and every tapped loader function occurs
    ops_seen = {st["op"] for c in cases for e in c["prog"] for st in e["stmts"]}
    frames_seen = {ev[0] for c in cases for ev in c["hist"]}
    missing = [f for f in fams if not fcount.get(f)] + sorted(({"def", "from", "import", "star", "all"} | ({"aug"} if tier == "thorough" else set())) - ops_seen) + sorted({"LD", "RA", "EE", "EW", "RM", "RT"} - frames_seen)
    if missing or len(cases) < (1000 if tier == "quick" else 20000) or not any(c["diff"] for c in cases):
        die(f"C05: vacuous enumeration: missing {missing}, {len(cases)} programs")
    rnd = random.Random(SEED)
    cap = 6000 if tier == "quick" else 60000
    run.exhaustive = len(cases) <= cap
    if len(cases) > cap:
        # keep every program the model marks as diverging or flagged, sample the rest
        keep = [c for c in cases if c["diff"] or c["flags"]]
        rest = [c for c in cases if not (c["diff"] or c["flags"])]
        if len(keep) > cap // 2:
            keep = rnd.sample(keep, cap // 2)
        cases = keep + rnd.sample(rest, min(len(rest), cap - len(keep)))
    replay_all(run, cases, 6 if tier == "quick" else 10, stats)
    run.extra["stats"] = stats
    run.extra["replay_wall_s"] = round(time.time() - t0 - run.extra["tlc_wall_s"], 1)
    if stats["drift"] or stats["trace_rejected"]:
        run.note(f"model drift on {stats['drift']} case(s), {stats['trace_rejected']} recorded trace(s) rejected (verdicts come from the comparison with CPython)")
    run.finish()
