"""C01 helper: concretise an abstract program of spec/Visitor.tla into Python source.

A program is a list of lines [k, x, n, d] (kind, variant, name, depth).  `render(prog, variant, mode)`
returns the source text and, per abstract line, what the harness needs to evaluate the text-level clauses
of the property: the first line of the statement (first decorator), the line of the `def` / `class` /
assignment keyword, the end of its header, the last line of the whole statement, the docstring written
for it (raw text and line span) and the target path expected for an import.

Spellings (`variant`): 0 plain; 1 docstrings everywhere (one line), multi-line signatures, comments and
blank lines between statements, `for` instead of `with`; 2 three-line docstrings, one-line bodies where
possible, `while`, two-space indentation is NOT used (the ast / griffe column handling is not under test).
"""
from __future__ import annotations

import inspect

PRELUDE = ["import abc", "import functools", "import typing", "from typing import TYPE_CHECKING, ClassVar, overload"]
PRELUDE_NAMES = {"abc", "functools", "typing", "TYPE_CHECKING", "ClassVar", "overload"}
OPENERS = {"class", "init", "if", "else", "try", "except", "with"}

DECOS = {
    "none": [], "async": [], "property": ["@property"], "cached_property": ["@functools.cached_property"],
    "staticmethod": ["@staticmethod"], "classmethod": ["@classmethod"], "abstractmethod": ["@abc.abstractmethod"],
    "cache": ["@functools.cache"], "lru_cache": ["@functools.lru_cache(maxsize=None)"], "unknown": ["@deco"],
    "propabstract": ["@property", "@abc.abstractmethod"], "overload": ["@overload"],
    "asyncstatic": ["@staticmethod"], "asyncabstract": ["@abc.abstractmethod"], "asynccache": ["@functools.cache"],
}


def other(n: str) -> str:
    return "g" if n == "f" else "f"


class Rendered:
    def __init__(self):
        self.lines: list[str] = []
        self.info: dict[int, dict] = {}      # abstract line index (1-based) -> info
        self.module_doc = None               # (raw, lineno, endlineno)
        self.prelude_span = (0, 0)

    @property
    def source(self) -> str:
        return "\n".join(self.lines) + "\n"


def _doc(text: str, style: int, ind: str):
    """Returns (source lines, raw string value)."""
    if style == 1:
        return [f'{ind}"""{text}"""'], text
    raw = f"{text}\n\n{ind}More about it.\n{ind}"
    return [f'{ind}"""{text}', "", f"{ind}More about it.", f'{ind}"""'], raw


def render(prog: list, variant: int = 0, mode: str = "visit") -> Rendered:
    r = Rendered()
    out = r.lines
    docstyle = {0: 0, 1: 1, 2: 2}[variant % 3]
    if docstyle:
        lines, raw = _doc("Module docstring.", docstyle, "")
        r.module_doc = (raw, 1, len(lines))
        out.extend(lines)
    first = len(out) + 1
    out.extend(PRELUDE)
    r.prelude_span = (first, len(out))
    stack: list[dict] = []                   # open blocks: {i, d, k, child}

    def close(upto_depth: int, continuing: str | None):
        """Close every open block of depth >= upto_depth.  `continuing`: 'else' / 'except' when the next line
        continues the compound statement at that depth (its own block is closed, the statement is not)."""
        while stack and stack[-1]["d"] >= upto_depth:
            b = stack.pop()
            ind = "    " * (b["d"] + 1)
            if not b["child"]:
                out.append(ind + "pass")
            if b["k"] in ("try",) and not (continuing == "except" and b["d"] == upto_depth):
                out.append("    " * b["d"] + "finally:")
                out.append(ind + "pass")
            # the statement that owns the block ends here (class / __init__ / compound)
            r.info[b["i"]]["last"] = len(out)
            # a `try`/`if` closed by its continuation keeps growing: fixed below for owners we care about

    for i, (k, x, n, d) in enumerate(prog, start=1):
        cont = k if k in ("else", "except") else None
        close(d, cont)
        if stack:
            stack[-1]["child"] = True
        ind = "    " * d
        inside_class = _nearest_scope(stack) == "class"
        info = {"k": k, "x": x, "n": n, "d": d, "doc": None, "path": None}
        if variant % 3 == 1 and k not in ("else", "except"):
            out.append("")
            out.append(f"{ind}# statement {i}")
        info["first"] = len(out) + 1
        if k == "def":
            decos = [f"@{n}.setter"] if x == "setter" else list(DECOS[x])
            if x == "overload" and variant % 3 == 2:
                decos = ["@typing.overload"]
            out.extend(ind + dl for dl in decos)
            info["defline"] = len(out) + 1
            kw = "async def" if x.startswith("async") else "def"
            args = ("self, value" if x == "setter" else "self") if inside_class and x not in ("staticmethod", "asyncstatic") else ("value" if x == "setter" else "")
            if x == "classmethod":
                args = "cls"
            body_doc = docstyle
            if variant % 3 == 1 and args:
                out.append(f"{ind}{kw} {n}(")
                out.append(f"{ind}    {args},")
                out.append(f"{ind}):")
            elif variant % 3 == 2 and x in ("none", "overload"):
                out.append(f"{ind}{kw} {n}({args}): ...")
                body_doc = -1
            else:
                out.append(f"{ind}{kw} {n}({args}):")
            info["hdr_end"] = len(out)
            if body_doc > 0:
                lines, raw = _doc(f"Doc of def {i}.", body_doc, ind + "    ")
                info["doc"] = (raw, len(out) + 1, len(out) + len(lines))
                out.extend(lines)
            if body_doc >= 0:
                out.append(f"{ind}    return None" if x != "overload" else f"{ind}    ...")
            info["last"] = len(out)
        elif k == "init":
            info["defline"] = len(out) + 1
            out.append(f"{ind}def __init__(self):")
            info["hdr_end"] = len(out)
            child = False
            if docstyle:
                lines, raw = _doc(f"Doc of init {i}.", docstyle, ind + "    ")
                info["doc"] = (raw, len(out) + 1, len(out) + len(lines))
                out.extend(lines)
                child = True
            info["last"] = len(out)
            stack.append({"i": i, "d": d, "k": "init", "child": child})
        elif k == "class":
            if x == "deco":
                out.append(f"{ind}@deco")
            info["defline"] = len(out) + 1
            out.append(f"{ind}class {n}(object):" if variant % 3 == 1 else f"{ind}class {n}:")
            info["hdr_end"] = len(out)
            child = False
            if docstyle:
                lines, raw = _doc(f"Doc of class {i}.", docstyle, ind + "    ")
                info["doc"] = (raw, len(out) + 1, len(out) + len(lines))
                out.extend(lines)
                child = True
            info["last"] = len(out)
            stack.append({"i": i, "d": d, "k": "class", "child": child})
        elif k == "assign":
            info["defline"] = len(out) + 1
            value = "(\n" + ind + "    1\n" + ind + ")" if variant % 3 == 1 and x in ("plain", "ann", "self") else str(i)
            stmt = {
                "plain": f"{n} = {value}", "ann": f"{n}: int = {value}", "annonly": f"{n}: int", "classvar": f"{n}: ClassVar[int] = {value}",
                "multi": f"{n} = {other(n)} = {value}", "attr": f"obj.{n} = {value}", "self": f"self.{n} = {value}", "selfann": f"self.{n}: int = {value}",
                "selfdeep": f"self.o.{n} = {value}", "selfdeep3": f"self.o.p.{n} = {value}", "selfsub": f"self.{n}[0] = {value}",
                "tuple": f"{n}, {n}2 = {value}, 0",
            }[x]
            out.extend((ind + stmt).split("\n"))
            info["hdr_end"] = info["last"] = len(out)
            # attribute docstring on every other statement, so that both shapes occur next to documented defs
            if (i + variant) % 2 == 0:
                lines, raw = _doc(f"Doc of attribute {i}.", docstyle or 1, ind)
                info["doc"] = (raw, len(out) + 1, len(out) + len(lines))
                out.extend(lines)
        elif k == "import":
            info["defline"] = len(out) + 1
            rel = mode == "load" and variant % 2 == 1
            if x == "mod":
                stmt, path = f"import {n}", [n]
            elif x == "dotted":
                stmt, path = f"import {n}.sub", [n]
            elif x == "as":
                stmt, path = f"import zz.sub as {n}", ["zz", "sub"]
            elif x == "from":
                stmt, path = (f"from . import {n}", ["pk", n]) if rel else (f"from zz import {n}", ["zz", n])
            elif x == "fromas":
                stmt, path = (f"from .sub import orig as {n}", ["pk", "sub", "orig"]) if rel else (f"from zz import orig as {n}", ["zz", "orig"])
            elif x == "rel":
                stmt, path = f"from . import {n}", ["pk", n]      # only in pk/__init__.py (mode "loadinit")
            elif x == "multi":
                stmt, path = f"import {n}, {other(n)}", None
                info["paths"] = {n: [n], other(n): [other(n)]}
            elif x == "frommulti":
                stmt, path = (f"from . import {n}, {other(n)}", None) if rel else (f"from zz import {n}, {other(n)}", None)
                info["paths"] = {a: (["pk", a] if rel else ["zz", a]) for a in (n, other(n))}
            else:
                stmt, path = "from zz import *", ["zz"]
            if variant % 3 == 2 and x in ("from", "fromas", "frommulti"):
                stmt = stmt.replace("import ", "import (\n" + ind + "    ").replace(", ", ",\n" + ind + "    ") + ",\n" + ind + ")"
            out.extend((ind + stmt).split("\n"))
            info["path"] = path
            info["hdr_end"] = info["last"] = len(out)
        elif k == "all":
            info["defline"] = len(out) + 1
            names = {"empty": [], "one": ["f"], "two": ["f", "g"], "aug": ["g"]}[x]
            lst = "[" + ", ".join(f'"{a}"' for a in names) + "]"
            if variant % 3 == 2 and names:
                lst = "(" + ", ".join(f'"{a}"' for a in names) + ",)"
            if x == "aug":
                if variant % 3 == 2:
                    lst = "[" + ", ".join(f'"{a}"' for a in names) + "]"
                stmt = f"__all__ += {lst}"
            elif variant % 3 == 1:
                stmt = f"__all__: list[str] = {lst}" if lst.startswith("[") else f"__all__ = {lst}"
            else:
                stmt = f"__all__ = {lst}"
            out.append(ind + stmt)
            info["hdr_end"] = info["last"] = len(out)
        else:
            head = {
                ("if", "TC"): "if TYPE_CHECKING:", ("if", "tTC"): "if typing.TYPE_CHECKING:", ("if", "other"): "if cond:",
                ("else", "else"): "else:", ("else", "elifTC"): "elif TYPE_CHECKING:", ("else", "elif"): "elif cond2:",
                ("try", "-"): "try:", ("except", "-"): "except ImportError:",
                ("with", "-"): ["with ctx:", "for _i in range(3):", "while cond:"][variant % 3],
            }[(k, x)]
            info["defline"] = len(out) + 1
            out.append(ind + head)
            info["hdr_end"] = info["last"] = len(out)
            child = False
            if k == "else" and x == "else" and variant % 3 == 2 and i >= 2 and prog[i - 2][0] == "assign" and prog[i - 2][3] == d + 1 and not r.info[i - 1]["doc"]:
                # a bare string opening the else branch, right after an undocumented assignment ending the if body:
                # it documents nothing (attribute docstrings follow their assignment in the same block)
                out.append(f'{ind}    """Stray text {i}."""')
                child = True
            stack.append({"i": i, "d": d, "k": k, "child": child})
        r.info[i] = info
    close(0, None)
    # a class / __init__ statement ends with the last line of its block, which may have been closed late
    return r


def _nearest_scope(stack: list) -> str:
    for b in reversed(stack):
        if b["k"] in ("class", "init"):
            return b["k"]
    return "module"


def expected_doc(raw: str) -> str:
    return inspect.cleandoc(raw)
