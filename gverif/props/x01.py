"""X01 (extra) - extension loading and dispatch: load_extensions / _load_extension / Extensions.add / Extensions.call.

TLC: spec/ExtLoad.tla (resolution of ONE specification: spec form x filesystem / importability situation x module
content x option shape; Impl = transcription of _load_extension, Ref = SET of admissible outcomes; domains clean / defect)
spec/ExtDispatch.tla (containers: Extensions(...), load_extensions(several specs), add, call as a loop; RefCall =
dispatch contract) and spec/ExtVisit.tla (Extension.visit / generic_visit / inspect / generic_inspect as a stack machine vs
the structural walk).  Binding: every CASE is materialised on disk (gverif/props/x01_world.py) and run through the REAL
code in child processes (x01_worker.py, x01_dispatch.py, x01_visit.py):
   real vs Ref   -> the verdict (VIOLATION / known finding)      real vs Impl -> model drift (note)
Only public observations decide (exception type + message, what Extensions.call makes the extensions do, sys.modules).
"""
from __future__ import annotations

import json
import os
import subprocess
from concurrent.futures import ThreadPoolExecutor

from gverif import tlc
from gverif.common import PY, VERIF, child_env, die, scratch
from gverif.harness import Run, matches

ACTIONS = {"Start", "IsInstance", "IsClass", "IsDict", "SplitColon", "Resolve", "DynImport", "ClassCheck", "Named", "Scan", "Add", "EnsureDataclasses"}
DEFECTS = {"empty-dict", "cwd-entry-shadows-package", "named-attr-not-extension", "dotted-non-extension-object",
           "init-attributeerror-masked", "missing-module-message", "file-dependency-message", "sysmodules-clobbered"}
ALL_INITS = '{"kwargs","named","noinit","attrerr"}'
ALL_OPTS = '{"empty","one","two","unknown"}'
PALETTE = '{"inst:a","inst:b","inst:x","cls","mod","dc","dcinst","dcsub","bad"}'
TIERS = {
    "quick": {"load": dict(MAXDEF=2, INITS=ALL_INITS, DICTOPTS=ALL_OPTS, ABS="TRUE", PATHOBJ="TRUE"),
              "dispatch": [dict(MAXOPS=2, MAXNEW=2, MAXADD=1, LOADSPECS=PALETTE)],
              "visit": [dict(MAXNODES=4, KINDS='{"k1","k2"}', MAXALIAS=1)], "procs": 6},
    "thorough": {"load": dict(MAXDEF=3, INITS=ALL_INITS, DICTOPTS=ALL_OPTS, ABS="TRUE", PATHOBJ="TRUE"),
                 "dispatch": [dict(MAXOPS=3, MAXNEW=2, MAXADD=1, LOADSPECS=PALETTE), dict(MAXOPS=2, MAXNEW=3, MAXADD=1, LOADSPECS=PALETTE)],
                 "visit": [dict(MAXNODES=5, KINDS='{"k1","k3"}', MAXALIAS=1), dict(MAXNODES=4, KINDS='{"k1","k2","k3"}', MAXALIAS=1)],
                 "procs": 10},
}


# ---- running the real code --------------------------------------------------------------------------------------
def run_workers(load: list, dispatch: list, procs: int, max_def: int, visit: list = ()) -> tuple[list, list, list]:
    """Split the cases over `procs` child processes (each builds its own world); results in input order."""
    visit = list(visit)
    n = max(1, min(procs, (len(load) + len(dispatch) + len(visit) // 10) // 200 + 1))
    chunks = [{"load": load[i::n], "dispatch": dispatch[i::n], "visit": visit[i::n], "max_def": max_def} for i in range(n)]
    with scratch("x01-") as d:
        def one(i):
            inp, outp = os.path.join(d, f"in{i}.json"), os.path.join(d, f"out{i}.json")
            with open(inp, "w") as fh:
                json.dump(chunks[i], fh)
            p = subprocess.run([PY, "-m", "gverif.props.x01_worker", os.path.join(d, f"w{i}"), inp, outp], env=child_env(), cwd=VERIF,
                               capture_output=True, text=True, timeout=3000, check=False)
            if p.returncode != 0 or not os.path.exists(outp):
                die(f"X01: worker {i} failed rc={p.returncode}\n{p.stderr[-3000:]}")
            with open(outp) as fh:
                return json.load(fh)

        with ThreadPoolExecutor(max_workers=n) as pool:
            outs = list(pool.map(one, range(n)))
    rl, rd, rv = [None] * len(load), [None] * len(dispatch), [None] * len(visit)
    for i, o in enumerate(outs):
        rl[i::n] = o["load"]
        rd[i::n] = o["dispatch"]
        rv[i::n] = o["visit"]
    return rl, rd, rv


REPORTED: dict = {}


def report(run: Run, sig: dict, what: str, stored: dict):
    """run.violation, but at most 3 unknown violations per (part, clause, defect class / operation, observation):
    the harness keeps the first 50 only and a single root cause must not crowd the others out."""
    if not any(e.get("status") == "known" and matches(e, sig) for e in run.findings):
        key = (sig["part"], sig["clause"], sig.get("defect", sig.get("op")), sig.get("got", sig.get("event")))
        REPORTED[key] = REPORTED.get(key, 0) + 1
        if REPORTED[key] > 3:
            return
    run.violation(sig, what, stored)


# ---- judging one resolution case --------------------------------------------------------------------------------
def norm_spec(o: dict):
    if o["kind"] == "ok":
        if any(e["cls"] == "garbage" for e in o["exts"]):
            return ("ok", "garbage")
        return ("ok", tuple((e["cls"], "empty" if e["cls"] == "DC" else e["opts"]) for e in o["exts"]))
    return ("enle", o["msg"]) if o["kind"] == "enle" else ("raise", o["exc"])


def norm_real(o: dict):
    if o["kind"] == "ok":
        if any(e[0] == "garbage" for e in o["exts"]):
            return ("ok", "garbage")
        return ("ok", tuple((e[0], e[1]) for e in o["exts"]))
    return ("enle", o["msg"]) if o["kind"] == "enle" else ("raise", o["exc"])


def fmt(r) -> str:
    if r[0] == "ok":
        return "ok:" + (r[1] if isinstance(r[1], str) else ",".join(f"{c}({o})" if o not in ("empty", "-") else c for c, o in r[1]))
    return f"{r[0]}:{r[1]}"


def strip_dc(r):
    return tuple(e for e in r[1] if e[0] != "DC") if r[0] == "ok" and not isinstance(r[1], str) else None


def clause_of(r, refset) -> str:
    kinds = {x[0] for x in refset}
    if r == ("ok", "garbage"):
        return "only-extensions"
    if r[0] == "ok":
        if "ok" not in kinds:
            return "error-outcome"
        return "dataclasses" if any(strip_dc(x) == strip_dc(r) for x in refset if x[0] == "ok") else "classes-and-options"
    if r[0] == "enle":       # ENLE where another message class / a loaded extension / the user's own exception is due
        return "message-class" if "enle" in kinds else "resolution" if "ok" in kinds else "error-masked"
    return "resolution" if "ok" in kinds else "error-type"


def judge_load(run: Run, case: dict, real: dict, stats: dict):
    c = case["c"]
    refset = {norm_spec(x) for x in case["ref"]}
    r = norm_real(real)
    base = {"part": "load", "defect": case["defect"], **{k: c[k] for k in ("form", "target", "depth", "sep", "attr", "sit", "clash", "init", "opts")}}
    shown = {"spec": real["spec"], "cwd": real["cwd"], "observed": fmt(r) + (" | " + real["text"] if real.get("text") and r[0] != "ok" else ""),
             "admissible": sorted(fmt(x) for x in refset)}
    stored = {"part": "load", "case": case}
    run.replayed()
    run.evaluated()
    if c["form"] not in ("instance", "class"):
        run.nontrivial_case(json.dumps(c, sort_keys=True))
    run.sample(shown)
    conform = r in refset
    if r == ("enle", "unclassified"):
        stats["unclassified"] += 1
        conform = any(x[0] == "enle" for x in refset)
    if not conform:
        report(run, dict(base, clause=clause_of(r, refset), got=fmt(r)), f"load_extensions({real['spec']}) in {real['cwd']}/: observed {shown['observed']}; admissible {shown['admissible']}", stored)
    if real["clobbered"]:
        report(run, dict(base, clause="sysmodules-preserved", got=fmt(r)), f"load_extensions({real['spec']}) replaced already imported module(s) {real['clobbered']} in sys.modules", stored)
    if not real["env_ok"]:
        report(run, dict(base, clause="environment-preserved", got=fmt(r)), f"load_extensions({real['spec']}) changed sys.path or the working directory", stored)
    if real.get("same_instance") is False:
        report(run, dict(base, clause="instance-identity", got=fmt(r)), "an Extension instance given to load_extensions is not the object that receives the events", stored)
    if r[0] == "enle" and r[1] != "unclassified":     # the message names what the user wrote
        want = real["name"] if r[1] == "noattr" else real["path"]
        if want and str(want) not in real["text"]:
            report(run, dict(base, clause="message-names-spec", got=fmt(r)), f"message {real['text']!r} does not mention {want!r}", stored)
    if r != norm_spec(case["impl"]) or bool(real["clobbered"]) != case["clobbered"]:
        stats["drift"] += 1
        stats.setdefault("drift_example", f"{real['spec']}: model {fmt(norm_spec(case['impl']))}, real {fmt(r)}")
    if real.get("tap_dc") not in (None, 1) and r[0] == "ok" and r[1] != "garbage":
        stats["tap_dc"] += 1


# ---- judging one container history --------------------------------------------------------------------------------
def call_clause(exp: dict, real: dict) -> str:
    if exp["status"] != real.get("status"):
        return "error-propagates" if exp["status"] == "Boom" else "call-total"
    el, rl = exp["log"], real.get("log", [])
    key = lambda x: (x["ext"], x["ev"])  # noqa: E731
    if any(x["kw"] != y["kw"] for x, y in zip(el, rl)) or any(y["kw"] == "wrong" for y in rl):
        return "same-kwargs"
    if sorted(map(key, el)) != sorted(map(key, rl)):
        extra = [k for k in map(key, rl) if k not in set(map(key, el))]
        return "only-overriders" if extra else "once-per-registration"
    if list(map(key, el)) != list(map(key, rl)):
        return "registration-order"
    return "dataclasses-position"      # dcdone / dcran differ


def judge_dispatch(run: Run, case: dict, real: list):
    hist = case["hist"]
    run.replayed()
    run.evaluated(len(hist))
    if any(o["op"] == "call" and len(o["res"]["log"]) >= 2 for o in hist):
        run.nontrivial_case(json.dumps(hist, sort_keys=True))
    for i, op in enumerate(hist):
        exp = op["res"]
        got = real[i] if i < len(real) else {"status": "not-run"}
        if exp == got:
            continue
        if op["op"] == "call":
            clause = call_clause(exp, got)
        elif op["op"] == "load":
            clause = "load-all-or-nothing" if exp["status"] == "enle" else "load-composition"
        else:
            clause = "container-total"
        reg = case["reg"]
        sig = {"part": "dispatch", "clause": clause, "new": hist[0]["op"], "op": op["op"], "event": op["args"][0] if op["op"] == "call" else "-",
               "dup": len(set(reg)) < len(reg), "raiser": "x" in reg}
        report(run, sig, f"history {[(o['op'], o['args']) for o in hist[: i + 1]]}: expected {exp}, observed {got}", {"part": "dispatch", "case": case})
        return


# ---- judging one walk ---------------------------------------------------------------------------------------------------
def judge_visit(run: Run, case: dict, real: dict, stats: dict):
    run.replayed()
    run.evaluated()
    if len(case["ref"]) >= 2:
        run.nontrivial_case(json.dumps({k: case[k] for k in ("parent", "kind", "alias", "handlers", "agent", "entry")}, sort_keys=True))
    if real.get("stand_in"):
        stats["stand_in"] += 1       # the helper reads more of ObjectNode than the stand-in offers: detail skipped
        return
    ref, log = case["ref"], real["log"]
    if real["status"] == "ok" and log == ref:
        if log != case["log"]:
            stats["drift"] += 1
        return
    parent, aliased = case["parent"], set(case["alias"])
    below_alias = lambda i: i != 0 and (i in aliased or below_alias(parent[i - 1]))  # noqa: E731
    if real["status"] != "ok":
        clause = "walk-total"
    elif len(set(log)) != len(log):
        clause = "once"
    elif set(log) - set(ref):
        clause = "aliases-skipped" if case["agent"] == "inspect" and any(below_alias(i) for i in set(log) - set(ref)) else "no-descent-without-hook"
    elif set(ref) - set(log):
        clause = "hook-called"
    else:
        clause = "walk-order"
    sig = {"part": "visit", "clause": clause, "agent": case["agent"], "entry": case["entry"], "op": case["agent"], "event": case["entry"]}
    what = (f"{case['agent']}/{case['entry']} on tree parent={parent} kinds={case['kind']} aliased={sorted(aliased)} hooks={case['handlers']}: "
            f"hooks ran on {log} ({real['status']}), the walk is {ref}")
    report(run, sig, what, {"part": "visit", "case": case})


# ---- main -----------------------------------------------------------------------------------------------------------
def main(tier: str, replay: str | None = None):
    run = Run("X01", tier)
    run.rule = ("ExtLoad.tla: every (spec form, target, separator, named attribute, importability/filesystem situation, cwd clash, absolute/relative, "
                "number of classes, re-export, __init__ shape, option shape) within bounds, clean and defect domains; ExtDispatch.tla: every history "
                "New(ctor|load) + MaxOps operations (add, call) within bounds; ExtVisit.tla: every tree (<= MaxNodes nodes, document order) x kind per node "
                "x hook mode per kind x aliased nodes x agent (visit|inspect) x entry (node|generic). Non-trivial = resolution case whose spec is a "
                "string/path/dict (distinct abstract case), history with a call that reaches >= 2 receivers (distinct history), walk that runs >= 2 hooks (distinct case).")
    cfg = TIERS[tier]
    stats = {"drift": 0, "unclassified": 0, "tap_dc": 0, "stand_in": 0}
    if replay:
        with open(replay) as fh:
            rec = json.load(fh)
        print(rec["what"])
        stored = rec["case"]
        if stored["part"] == "load":
            res = tlc.must(tlc.run("ExtLoad", "ExtLoad_check.cfg", constants=TIERS["quick"]["load"], workers=2))
            rl, _, _ = run_workers([stored["case"]["c"]], [], 1, 3)
            judge_load(run, stored["case"], rl[0], stats)
        elif stored["part"] == "visit":
            res = tlc.must(tlc.run("ExtVisit", "ExtVisit_check.cfg", constants=dict(MAXNODES=3, KINDS='{"k1","k2"}', MAXALIAS=1), workers=2))
            _, _, rv = run_workers([], [], 1, 2, [stored["case"]])
            judge_visit(run, stored["case"], rv[0], stats)
        else:
            res = tlc.must(tlc.run("ExtDispatch", "ExtDispatch_check.cfg", constants=TIERS["quick"]["dispatch"][0], workers=2))
            _, rd, _ = run_workers([], [stored["case"]["hist"]], 1, 2)
            judge_dispatch(run, stored["case"], rd[0])
        run.add_tlc(res)
        run.finish()
    # each stage = one TLC run, then the replay of its cases on the real code; the stages overlap
    def load_stage():
        # ExtLoad_all.cfg = clean + defect domains in one JVM (ExtLoad_check.cfg / ExtLoad_defect.cfg check them apart):
        # the clean cases satisfy every clause, every defect case breaks Conforms or NoClobber (DefectExhibited)
        res = tlc.must(tlc.run("ExtLoad", "ExtLoad_all.cfg", constants=cfg["load"], workers=4, timeout=1800))
        cases = sorted(res.cases, key=lambda c: c["defect"] != "none")
        rl, _, _ = run_workers([c["c"] for c in cases], [], max(2, cfg["procs"] // 2), cfg["load"]["MAXDEF"])
        return res, cases, rl

    def dispatch_stage(consts):
        res = tlc.must(tlc.run("ExtDispatch", "ExtDispatch_check.cfg", constants=consts, workers=4, timeout=3000, heap="6g"))
        _, rd, _ = run_workers([], [c["hist"] for c in res.cases], cfg["procs"], 2)
        return res, res.cases, rd

    def visit_stage(consts):
        res = tlc.must(tlc.run("ExtVisit", "ExtVisit_check.cfg", constants=consts, workers=4, timeout=3000, heap="6g"))
        _, _, rv = run_workers([], [], cfg["procs"], 2, res.cases)
        return res, res.cases, rv

    with ThreadPoolExecutor(max_workers=6) as pool:
        jobs = [pool.submit(load_stage)] + [pool.submit(dispatch_stage, k) for k in cfg["dispatch"]]
        vjobs = [pool.submit(visit_stage, k) for k in cfg["visit"]]
        stages = [j.result() for j in jobs]
        vstages = [j.result() for j in vjobs]
    for res, _, _ in stages + vstages:
        run.add_tlc(res)
    load_cases, rl = stages[0][1], stages[0][2]
    clean = [c for c in load_cases if c["defect"] == "none"]
    defect = [c for c in load_cases if c["defect"] != "none"]
    disp = [c for st in stages[1:] for c in st[1]]
    rd = [r for st in stages[1:] for r in st[2]]
    # vacuity: every action of the transcription fires, every defect class and outcome kind is reached
    fired = set().union(*[set(c["fired"]) for c in load_cases])
    if fired != ACTIONS:
        die(f"X01: actions never fired: {ACTIONS - fired} / unknown: {fired - ACTIONS}")
    if {c["defect"] for c in defect} != DEFECTS:
        die(f"X01: defect classes reached {sorted({c['defect'] for c in defect})}, expected {sorted(DEFECTS)}")
    if {c["impl"]["kind"] for c in clean} != {"ok", "enle", "raise"} or len(clean) < 2000 or len(disp) < 10000:
        die(f"X01: case space collapsed: {len(clean)} clean, {len(defect)} defect, {len(disp)} histories")
    run.exhaustive = True
    for case, real in zip(load_cases, rl):
        judge_load(run, case, real, stats)
    for case, real in zip(disp, rd):
        judge_dispatch(run, case, real)
    walks = 0
    for _, cases, rv in vstages:
        walks += len(cases)
        for case, real in zip(cases, rv):
            judge_visit(run, case, real, stats)
    if walks < 10000 or not any(c["agent"] == "inspect" and c["alias"] and len(c["ref"]) >= 2 for _, cs, _ in vstages for c in cs):
        die(f"X01: walk case space collapsed ({walks} cases)")
    run.extra["cases"] = {"load_clean": len(clean), "load_defect": len(defect), "histories": len(disp), "walks": walks}
    if stats["stand_in"]:
        run.note(f"visit: {stats['stand_in']} inspect case(s) skipped: the helpers read more of ObjectNode than the stand-in nodes offer")
    hidden = sum(v - 3 for v in REPORTED.values() if v > 3)
    if hidden:
        run.note(f"{hidden} further violation(s) of already reported (clause, class, observation) combinations not listed")
    if stats["drift"]:
        run.note(f"load: {stats['drift']} case(s) where the real code differs from the model's transcription (model drift), e.g. {stats.get('drift_example')}")
    if stats["unclassified"]:
        run.note(f"load: {stats['unclassified']} ExtensionNotLoadedError message(s) could not be classified (rephrased?): message-class clause skipped there")
    if stats["tap_dc"]:
        run.note(f"load: optional tap: {stats['tap_dc']} container(s) hold a number of built-in dataclasses extensions other than 1 (not publicly observable)")
    run.finish()
