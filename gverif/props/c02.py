"""C02 - function signatures equal CPython's view; overloads/accessors attach correctly.

TLC: spec/Params.tla (shape of ast.arguments; Impl = transcription of get_parameters, Ref = CPython
rule) and spec/FuncSeq.tla (visitor state machine for overload / property / setter sequences).
Binding: every CASE emitted by TLC is rendered to Python source, visited by the real Griffe and
executed by the real CPython:
   real Griffe  vs  spec reference   -> the property on the code        (VIOLATION)
   real Griffe  vs  spec Impl        -> conformance of the model        (drift note)
   real CPython vs  spec reference   -> validity of the reference model (exit 2 when different)
"""
from __future__ import annotations

import inspect
import json
import random
import typing
from pathlib import Path

from gverif import tlc
from gverif.common import SEED, die, ensure_repo
from gverif.harness import Run

KIND_OF = {
    inspect.Parameter.POSITIONAL_ONLY: "positional-only",
    inspect.Parameter.POSITIONAL_OR_KEYWORD: "positional or keyword",
    inspect.Parameter.VAR_POSITIONAL: "variadic positional",
    inspect.Parameter.KEYWORD_ONLY: "keyword-only",
    inspect.Parameter.VAR_KEYWORD: "variadic keyword",
}

PRELUDE = "\n".join(
    [f"class T_{n}: pass" for n in ["p1", "p2", "p3", "a1", "a2", "a3", "k1", "k2", "k3", "va", "kw", "ret"]]
    + [f"{d} = ('{d}',)" for d in ["d1", "d2", "d3", "d4", "d5", "d6", "kd1", "kd2", "kd3"]]
    # spelling 2 wraps every default / annotation in nested calls with keyword arguments that evaluate to the
    # wrapped object itself, so CPython still records the same defaults and annotations
    + ["def _w(v=None, **kw): return v", "def _a(t, **kw): return t"]
    # spelling 3 puts operator expressions whose value depends on how they are parenthesised next to the default
    + ["def _p(v, *k): return (v[0], *k)"]
) + "\n"


def render_params(case: dict, variant: int = 0) -> str:
    ann = case["annotated"]

    def one(p, star=""):
        s = star + p["name"]
        if ann:
            s += f": _a(T_{p['name']}, m=_w(v=_w(v=0)))" if variant == 2 else f": T_{p['name']}"
        if p["default"] != "none" and not star:
            s += (" = " if ann else "=") + (f"_w(v=_w(v={p['default']}), **_w(v={{}}))" if variant == 2 else
                                            f"_p({p['default']}, (2 ** 3) ** 2, -(1 + 2) * 3, (not 1) + 1, 2 ** -1, (1, 2)[0], (lambda: 7)())" if variant == 3 else p["default"])
        return s

    ref = case["ref"]
    parts = []
    kinds = [p["kind"] for p in ref]
    for i, p in enumerate(ref):
        k = p["kind"]
        if k == "variadic positional":
            parts.append(one(p, "*"))
        elif k == "variadic keyword":
            parts.append(one(p, "**"))
        else:
            if k == "keyword-only" and "variadic positional" not in kinds and (i == 0 or kinds[i - 1] != "keyword-only"):
                parts.append("*")
            parts.append(one(p))
        if k == "positional-only" and (i + 1 == len(ref) or kinds[i + 1] != "positional-only"):
            parts.append("/")
    if variant == 1 and len(parts) > 1:  # multi-line spelling with trailing comma and comments
        return "\n        " + ",\n        ".join(parts) + ",  # end\n    "
    return ", ".join(parts)


def render_case(case: dict, variant: int = 0) -> tuple[str, str]:
    """Returns (source, access path of the function inside the executed namespace)."""
    sig = render_params(case, variant)
    ret = (" -> _a(T_ret, m=_w(v=_w(v=0)))" if variant == 2 else " -> T_ret") if case["annotated"] else ""
    ctx = case["ctx"]
    if ctx == "def":
        return PRELUDE + f"def f({sig}){ret}:\n    return 0\n", "f"
    if ctx == "async":
        return PRELUDE + f"async def f({sig}){ret}:\n    return 0\n", "f"
    if ctx == "method":
        return PRELUDE + f"class C:\n    def f({sig}){ret}:\n        return 0\n", "C.f"
    if ctx == "lambda":
        return PRELUDE + f"def h(x=lambda {sig}: 0):\n    return x\n", "h.__defaults__[0]"
    raise ValueError(ctx)


def project_griffe(griffe, params) -> list:
    out = []
    for p in params:
        out.append(
            {
                "name": p.name,
                "kind": p.kind.value if p.kind is not None else None,
                "default": "none" if p.default is None else str(p.default),
                "annotation": None if p.annotation is None else str(p.annotation),
                "required": bool(p.required) if hasattr(p, "required") else None,
            }
        )
    return out


def norm_variadic(ps: list) -> list:
    return [dict(p, default="none") if p["kind"].startswith("variadic") else p for p in ps]


def strip(ps: list, keys=("name", "kind", "default")) -> list:
    return [{k: p[k] for k in keys} for p in ps]


def _unwrap_defaults(gparams: list, ns: dict) -> list:
    """Spelling 2: a default is written `_w(v=_w(v=dN), ...)`; its value (what CPython binds) is dN's."""
    out = []
    for p in gparams:
        if p["default"] not in ("none", "()", "{}") :
            try:
                p = dict(p, default=eval(p["default"], dict(ns))[0])  # noqa: S307
            except Exception:  # noqa: BLE001
                p = dict(p, default="<unevaluable: " + p["default"] + ">")
        out.append(p)
    return out


def check_params(run: Run, griffe, cases: list, variants=(0, 1, 2, 3)):
    drift = 0
    for case in cases:
        for variant in variants:
            if variant == 2 and not (case["annotated"] or any(p["default"] != "none" for p in case["ref"])):
                continue
            if variant == 3 and not any(p["default"] != "none" for p in case["ref"]):
                continue
            # the expression spellings do not depend on the kind of function: plain `def` and stored lambdas carry them
            if variant in (2, 3) and case["ctx"] not in ("def", "lambda"):
                continue
            src, access = render_case(case, variant)
            sig = {"part": "params", "ctx": case["ctx"], "npos": case["npos"], "nargs": case["nargs"], "ndef": case["ndef"], "vararg": case["vararg"], "nkw": case["nkw"], "kwarg": case["kwarg"], "annotated": case["annotated"]}
            ident = dict(sig, kwmask=case["kwmask"], variant=variant)
            run.evaluated()
            # -- CPython: validates the reference operator PyParams
            ns: dict = {}
            try:
                exec(compile(src, "<c02>", "exec", dont_inherit=True), ns)  # noqa: S102
                fobj = eval(access, ns)  # noqa: S307
                pysig = inspect.signature(fobj)
            except Exception as exc:  # noqa: BLE001
                die(f"C02: rendered case does not execute: {exc!r}\n{src}")
            py = [{"name": p.name, "kind": KIND_OF[p.kind], "default": "none" if p.default is inspect.Parameter.empty else p.default[0]} for p in pysig.parameters.values()]
            if py != case["ref"]:
                die(f"C02: spec reference PyParams disagrees with CPython on {ident}: {py} vs {case['ref']}")
            # -- Griffe
            try:
                mod = griffe.visit("m", filepath=Path("m.py"), code=src)
                if case["ctx"] == "lambda":
                    lam = mod["h"].parameters["x"].default
                    gparams = project_griffe(griffe, lam.parameters)
                    text = str(lam)
                    obj = None
                else:
                    obj = mod[access]
                    gparams = project_griffe(griffe, obj.parameters)
                    text = None
                if variant == 3 and case["ctx"] != "lambda":
                    # the default expression Griffe reports evaluates to the very value CPython bound
                    for gp, pp in zip(gparams, pysig.parameters.values()):
                        if gp["default"] in ("none", "()", "{}") or pp.default is inspect.Parameter.empty:
                            continue
                        try:
                            val = eval(gp["default"], dict(ns))  # noqa: S307
                        except Exception as exc:  # noqa: BLE001
                            val = repr(exc)
                        if val != pp.default:
                            run.violation(dict(sig, clause="default-value"), f"default of {gp['name']}: Griffe reports `{gp['default']}` = {val!r}, CPython bound {pp.default!r}", {"case": ident, "source": src})
                if variant in (2, 3):
                    gparams = _unwrap_defaults(gparams, ns)
            except Exception as exc:  # noqa: BLE001
                run.violation(dict(sig, clause="total"), f"visit raised {exc!r} on\n{src}", {"case": ident, "source": src})
                continue
            run.replayed()
            if any(p["default"] != "none" for p in case["ref"]) or case["vararg"] or case["kwarg"] or case["nkw"]:
                run.nontrivial_case((case["npos"], case["nargs"], case["ndef"], case["vararg"], case["nkw"], tuple(case["kwmask"]), case["kwarg"], case["ctx"], case["annotated"]))
            run.sample({"case": ident, "source": src.replace(PRELUDE, ""), "griffe": strip(gparams)})
            # property: Griffe == reference (names, order, kinds, which have defaults, default expressions)
            if norm_variadic(strip(gparams)) != case["ref"]:
                run.violation(dict(sig, clause="signature"), f"Griffe parameters {strip(gparams)} != CPython {case['ref']} for\n{src.replace(PRELUDE, '')}", {"case": ident, "source": src})
            elif strip(gparams) != case["impl"] and variant not in (2, 3):
                drift += 1
            if case["ctx"] != "lambda":
                # required-ness as CPython binds them (non-variadic)
                for gp, pp in zip(gparams, pysig.parameters.values()):
                    if gp["kind"].startswith("variadic"):
                        continue
                    if gp["required"] != (pp.default is inspect.Parameter.empty):
                        run.violation(dict(sig, clause="required"), f"required({gp['name']})={gp['required']} but CPython default-less={pp.default is inspect.Parameter.empty}\n{src.replace(PRELUDE, '')}", {"case": ident, "source": src})
                # annotation / return expressions evaluate to the very objects CPython recorded
                for gp, pp in zip(gparams, pysig.parameters.values()):
                    want = pp.annotation
                    got = inspect.Parameter.empty if gp["annotation"] is None else eval(gp["annotation"], ns)  # noqa: S307
                    if got is not want:
                        run.violation(dict(sig, clause="annotation"), f"annotation of {gp['name']}: {gp['annotation']!r} vs {want!r}", {"case": ident, "source": src})
                want = pysig.return_annotation
                got = inspect.Signature.empty if obj.returns is None else eval(str(obj.returns), ns)  # noqa: S307
                if got is not want:
                    run.violation(dict(sig, clause="returns"), f"return annotation {obj.returns!r} vs {want!r}", {"case": ident, "source": src})
                if case["ctx"] == "async" and "async" not in obj.labels:
                    run.violation(dict(sig, clause="async-label"), "async def lost its label", {"case": ident, "source": src})
            else:
                # the stored lambda renders back to code with the same signature
                try:
                    re_sig = inspect.signature(eval(text, dict(ns)))  # noqa: S307
                    re_py = [{"name": p.name, "kind": KIND_OF[p.kind], "default": "none" if p.default is inspect.Parameter.empty else p.default[0]} for p in re_sig.parameters.values()]
                    if variant == 3 and [p.default for p in re_sig.parameters.values()] != [p.default for p in pysig.parameters.values()]:
                        re_py = "defaults evaluate differently: " + repr([p.default for p in re_sig.parameters.values()])
                except SyntaxError:
                    re_py = "SyntaxError"
                if re_py != case["ref"]:
                    shape = "vararg+kwonly" if case["vararg"] and case["nkw"] else "other"
                    run.violation({"part": "lambda-render", "shape": shape, "clause": "lambda-render"}, f"str(lambda) = {text!r} re-parses to {re_py}, source signature {case['ref']}", {"case": ident, "source": src})
    if drift:
        run.note(f"params: {drift} case(s) where the real code differs from the model's Impl although it equals the reference (model drift)")


# ---------------------------------------------------------------------------------------------------
def render_prog(case: dict) -> str:
    ind = "    " if case["scope"] == "class" else ""
    lines = ["from typing import overload", "", "def keep(f):", "    return f", ""]
    if case["scope"] == "class":
        lines.append("class C:")
    for i, d in enumerate(case["prog"], 1):
        n, role, deco = d["name"], d["role"], d.get("deco", "none")
        selfarg = "self, " if case["scope"] == "class" else ""
        above = [f"{ind}@keep"] if deco == "above" else []
        below = [f"{ind}@keep"] if deco == "below" else []
        adef = "async def" if d.get("isasync") else "def"
        if role == "overload":
            lines += [*above, f"{ind}@overload", *below, f"{ind}{adef} {n}({selfarg}x{i}: int) -> int:", f'{ind}    """id={i}"""']
        elif role == "plain":
            lines += [*above, f"{ind}{adef} {n}({selfarg}x{i}=None):", f'{ind}    """id={i}"""', f"{ind}    return x{i}"]
        elif role == "property":
            lines += [*above, f"{ind}@property", *below, f"{ind}{adef} {n}({selfarg.rstrip(', ') or 'x'}):", f'{ind}    """id={i}"""', f"{ind}    return {i}"]
        else:
            lines += [*above, f"{ind}@{n}.{role}", *below, f"{ind}{adef} {n}({selfarg}x{i}=None):", f'{ind}    """id={i}"""', f"{ind}    return None"]
        lines.append("")
    return "\n".join(lines) + "\n"


def _doc_id(obj) -> int:
    if obj is None:
        return 0
    doc = obj.docstring.value if obj.docstring else ""
    return int(doc.split("=")[1]) if doc.startswith("id=") else -1


def project_members(scope_obj, names) -> dict:
    out = {}
    for n in names:
        m = scope_obj.members.get(n)
        if m is None:
            out[n] = {"kind": "none", "id": 0, "overloads": [], "setter": 0, "deleter": 0}
        elif m.kind.value == "attribute":
            out[n] = {"kind": "attribute", "id": _doc_id(m), "overloads": [], "setter": _doc_id(m.setter), "deleter": _doc_id(m.deleter)}
        else:
            out[n] = {"kind": m.kind.value, "id": _doc_id(m), "overloads": [_doc_id(o) for o in (m.overloads or [])], "setter": 0, "deleter": 0}
    return out


def cpython_members(src: str, case: dict, names) -> dict:
    ns: dict = {"__name__": "c02mod"}
    typing.clear_overloads()
    exec(compile(src, "<c02seq>", "exec", dont_inherit=True), ns)  # noqa: S102
    scope = vars(ns["C"]) if case["scope"] == "class" else ns

    def fid(f):
        return int(f.__doc__.split("=")[1]) if f is not None else 0

    out = {}
    for n in names:
        if n not in scope:
            out[n] = {"kind": "none", "id": 0, "overloads": [], "setter": 0, "deleter": 0}
            continue
        v = scope[n]
        if isinstance(v, property):
            out[n] = {"kind": "attribute", "id": fid(v.fget), "overloads": [], "setter": fid(v.fset), "deleter": fid(v.fdel)}
        else:
            out[n] = {"kind": "function", "id": fid(v), "overloads": [fid(o) for o in typing.get_overloads(v)], "setter": 0, "deleter": 0}
    return out


def check_progs(run: Run, griffe, cases: list):
    drift = 0
    for case in cases:
        src = render_prog(case)
        names = sorted(case["impl"])
        roles = [d["role"] for d in case["prog"]]
        sig = {"part": "funcseq", "scope": case["scope"], "roles": "-".join(r[:2] for r in roles), "decos": "-".join(d.get("deco", "none")[:1] for d in case["prog"]), "wf": case["wf"]}
        ident = {"prog": case["prog"], "scope": case["scope"]}
        run.evaluated()
        if case["wf"]:
            try:
                py = cpython_members(src, case, names)
            except Exception as exc:  # noqa: BLE001
                die(f"C02: spec says program is executable, CPython raised {exc!r}\n{src}")
            if py != case["ref"]:
                die(f"C02: FuncSeq reference disagrees with CPython/typing on {ident}: {py} vs {case['ref']}")
        try:
            mod = griffe.visit("c02mod", filepath=Path("c02mod.py"), code=src)
            real = project_members(mod["C"] if case["scope"] == "class" else mod, names)
            outcome = "ok"
        except KeyError:
            real, outcome = None, "KeyError"
        except Exception as exc:  # noqa: BLE001
            real, outcome = None, type(exc).__name__
        run.replayed()
        if case["exe"] and outcome != "ok":
            run.violation(dict(sig, clause="total"), f"visit raised {outcome} on an executable program\n{src}", {"case": ident, "source": src})
            continue
        if case["wf"]:
            if len(set(roles)) > 1:
                run.nontrivial_case(("seq", case["scope"], tuple((d["name"], d["role"], d.get("deco")) for d in case["prog"])))
            run.sample({"case": ident, "griffe": real})
            if real != case["ref"]:
                run.violation(dict(sig, clause="overloads-accessors"), f"members {real} != reference {case['ref']} for\n{src}", {"case": ident, "source": src})
                continue
        if outcome != case["outcome"] or (real is not None and real != case["impl"]):
            drift += 1
    if drift:
        run.note(f"funcseq: {drift} program(s) where the real code differs from the model's Impl (outside the property's domain or still equal to the reference)")


def main(tier: str, replay: str | None = None):
    griffe = ensure_repo()
    run = Run("C02", tier)
    run.rule = ("Params.tla: every ast.arguments shape within bounds (npos,nargs,nkw, defaults, variadics, 4 contexts, annotated or not) x 2 spellings; "
                "FuncSeq.tla: every sequence of <=L defs over names {f,g} and roles {plain,overload,property,setter,deleter} in module/class scope. "
                "Non-trivial = shape with at least one default/variadic/keyword-only parameter, or well-formed def sequence mixing >= 2 roles; distinct by abstract case.")
    if replay:
        with open(replay) as fh:
            rec = json.load(fh)
        c = rec["case"]["case"]
        print(rec["what"])
        if "prog" in c:
            res = tlc.must(tlc.run("FuncSeq", f"FuncSeq_{tier}.cfg", workers=8), allow_violations=True)
            hit = [x for x in res.cases if x["prog"] == c["prog"] and x["scope"] == c["scope"]]
            for extra in ("interleave", "async"):
                if hit:
                    break
                res = tlc.must(tlc.run("FuncSeq", f"FuncSeq_{extra}_{tier}.cfg", workers=8), allow_violations=True)
                hit = [x for x in res.cases if x["prog"] == c["prog"] and x["scope"] == c["scope"]]
            check_progs(run, griffe, hit[:1])
        else:
            res = tlc.must(tlc.run("Params", f"Params_{'thorough'}.cfg", workers=1), allow_violations=True)
            keys = ["npos", "nargs", "ndef", "vararg", "nkw", "kwmask", "kwarg", "ctx", "annotated"]
            check_params(run, griffe, [x for x in res.cases if all(x[k] == c[k] for k in keys)])
        run.add_tlc(res)
        run.finish()
    r1 = tlc.run("Params", f"Params_{tier}.cfg", workers=1, timeout=900)
    tlc.must(r1)
    run.add_tlc(r1)
    r2 = tlc.run("FuncSeq", f"FuncSeq_{tier}.cfg", workers=8 if tier == "thorough" else 1, timeout=900)
    tlc.must(r2)
    run.add_tlc(r2)
    # interleaved overload series of several names pending at once: longer programs over {plain, overload}
    r3 = tlc.run("FuncSeq", f"FuncSeq_interleave_{tier}.cfg", workers=8 if tier == "thorough" else 2, timeout=900)
    tlc.must(r3)
    run.add_tlc(r3)
    # coroutines: `async def` crossed with plain / property definitions (label state must not leak between them)
    r4 = tlc.run("FuncSeq", f"FuncSeq_async_{tier}.cfg", workers=8 if tier == "thorough" else 2, timeout=900)
    tlc.must(r4)
    run.add_tlc(r4)
    asyncs = [c for c in r4.cases if any(d.get("isasync") for d in c["prog"])]
    if not any(c["wf"] and c["prog"][0].get("isasync") and c["prog"][0]["role"] == "property" and len(c["prog"]) > 1 for c in asyncs):
        die("C02: async domain generated no program starting with an async property (vacuous)")
    run.exhaustive = True
    check_params(run, griffe, r1.cases)
    seen_progs = {json.dumps([c["prog"], c["scope"]], sort_keys=True) for c in r2.cases}
    inter = [c for c in r3.cases if json.dumps([c["prog"], c["scope"]], sort_keys=True) not in seen_progs]
    if not any(c["wf"] and sum(1 for d in c["prog"] if d["role"] == "overload") >= 2 and len({d["name"] for d in c["prog"] if d["role"] == "overload"}) == 2 for c in inter):
        die("C02: interleave domain generated no well-formed program with two names' overload series (vacuous)")
    progs = r2.cases
    if tier == "thorough" and len(progs) > 60000:
        # all well-formed programs, plus a seeded sample of the rest (totality / drift only)
        rnd = random.Random(SEED)
        wf = [c for c in progs if c["wf"] or c["exe"]]
        rest = [c for c in progs if not (c["wf"] or c["exe"])]
        progs = wf + rnd.sample(rest, 20000)
        run.exhaustive = False
        run.note(f"funcseq: replayed all {len(wf)} executable programs and 20000 sampled non-executable ones of {len(r2.cases)}")
    check_progs(run, griffe, progs)
    check_progs(run, griffe, inter)
    check_progs(run, griffe, asyncs)
    run.finish()
