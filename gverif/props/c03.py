"""C03 - stored expressions render back to equivalent Python code (spec/ExprBuild.tla).

TLC: every expression tree of the case space (chains of node templates: every (parent type, operand position, child
type) edge, two-edge chains, lambda parameter lists) is pushed through the transcription of `_build_*` (flag
environment of **kwargs) and of every `iterate`, and judged against the reference (CPython's grouping rules
`NeedsParens`, `ShouldParse` for string annotations).  Binding, for every CASE TLC emits:
   source         `ast` tree built directly from the abstract tree -> `ast.unparse` (correct by construction)
   real Griffe    get_expression on the parsed source (and `visit` of whole modules for the storage contexts)
   real vs Ref    the property on the code: str(expr) re-parses to the source tree (strings expanded where the property
                  wants them parsed), flat pieces == str, first-layer expansion == flat pieces, every Name of the
                  source is an ExprName element whose canonical_path resolves        -> VIOLATION / KNOWN-FINDING
   real vs Impl   piece-by-piece conformance of the model                             -> drift note
   CPython vs Ref the spec's rendering with minimal parentheses parses to the source tree, and removing any one
                  pair of its grouping parentheses does not                           -> exit 2 when different
"""
from __future__ import annotations

import ast
import json
import os
import time
import random
import warnings
import multiprocessing
from concurrent.futures import ProcessPoolExecutor, ThreadPoolExecutor, as_completed
from pathlib import Path

from gverif import tlc
from gverif.common import SEED, die, ensure_repo
from gverif.harness import Run
from gverif.props import c03_ast as A

PRELUDE = "from typing import Literal\nimport typing as t\n"
CMPOPS = list(A.CMPOPS)
QUICK_STRIDE = 211       # quick: 1/211 of the two-edge chains
THOROUGH_STRIDE, THOROUGH_PARTS = 35, 7   # thorough: 7 residues mod 35 = 1/5 of them
REPLAY_PROCS = 6
APPLIED = "abcdefghpqrstuv"     # repairs committed in /repo: the spec's plain Impl (ExprBuild.tla `Applied`); revertible in the model only
FIX_FLAGS = APPLIED   # + proposed repairs the spec knows (Fix* operators), in effect once their finding is "fixed"
CAUSE_FLAG = {"precedence": "p", "dictcomp-no-space": "a", "dict-unpack-none": "b", "empty-slice-tuple": "c", "int-attribute": "d",
              "fstring-conversion-dropped": "e", "fstring-format-spec-dropped": "f", "in_subscript-leak": "g", "in_formatted_str-leak": "h",
              "bare-genexp": "r", "bare-yield": "s", "lambda-in-fstring": "t", "fstring-brace-start": "u", "fstring-text-unescaped": "v"}


def flag_of(b: dict) -> str:
    """The repair that closes a defect record (ExprBuild.tla FlagOf)."""
    return "q" if b["cause"] == "precedence" and b["pos"] == "unpack" else CAUSE_FLAG.get(b["cause"], "-")


def fixed_flags(findings: list) -> set:
    """Repairs that belong to the baseline: `fix_flag` of every findings.d/C03.json entry whose status is "fixed"
    (VERIF_C03_FIXED=a,g adds flags for trying a proposed fix on a scratch copy before the entry is flipped)."""
    flags = {e["fix_flag"] for e in findings if e.get("status") == "fixed" and e.get("fix_flag")}
    flags |= {f for f in os.environ.get("VERIF_C03_FIXED", "").replace(",", " ").split() if f}
    if not flags <= set(FIX_FLAGS):
        die(f"C03: unknown fix flag(s) {sorted(flags - set(FIX_FLAGS))}")
    return flags - set(APPLIED)      # a..h, p are the code of /repo: the plain Impl of the spec


FIXED: set = set()


class World:
    def __init__(self, griffe):
        self.griffe = griffe
        from _griffe.expressions import Expr, ExprName, get_expression  # noqa: PLC0415

        self.Expr, self.ExprName, self.get_expression = Expr, ExprName, get_expression
        # Expressions are stored in a SUBMODULE `pkg.sub` of a package whose `__init__` has the *opposite* evaluation mode:
        # postponed evaluation is a fact about the module that holds the annotation, not about its package.
        self.mod_now = self.submodule(PRELUDE, postponed=False)              # annotations evaluated; pkg/__init__ postpones
        self.mod_postponed = self.submodule(PRELUDE, postponed=True)         # annotations postponed; pkg/__init__ does not
        for mod, post in ((self.mod_now, False), (self.mod_postponed, True)):
            if mod.imports_future_annotations != post or mod.package.imports_future_annotations == post or mod.package is mod:
                die("C03: the package / submodule pair does not have opposite `from __future__ import annotations`")

    def submodule(self, code: str, *, postponed: bool):
        """Visit `code` as pkg/sub.py below a visited pkg/__init__.py whose future import is the opposite."""
        future = "from __future__ import annotations\n"
        pkg = self.griffe.visit("pkg", filepath=Path("pkg/__init__.py"), code="" if postponed else future)
        sub = self.griffe.visit("sub", filepath=Path("pkg/sub.py"), code=(future if postponed else "") + code, parent=pkg)
        pkg.set_member("sub", sub)
        return sub

    # -- real Griffe on one expression ------------------------------------------------------------
    def build(self, node, top: str, p0: bool):
        if top == "annotation":
            return self.get_expression(node, self.mod_now if p0 else self.mod_postponed)   # parse_strings decided by get_expression
        return self.get_expression(node, self.mod_now, parse_strings=False)                 # what the visitor passes for values

    def pieces(self, expr, flat=True) -> list:
        if isinstance(expr, str):
            return [expr]
        out = []
        for el in expr.iterate(flat=flat):
            if isinstance(el, str):
                out.append(el)
            elif isinstance(el, self.ExprName):
                out.append(("n", el.name, el))
            elif flat:
                raise TypeError(f"flat iteration yielded {type(el).__name__}")
            else:
                out += self.pieces(el, flat=False)
        return out


def variant_maps(i: int):
    """Rotate the concrete operators of each precedence class / the comparison operator with the case number."""
    binmap = {rep: ops[i % len(ops)] for rep, ops in A.BIN_CLASS.items()}
    return binmap, i % len(CMPOPS)


def case_id(case: dict) -> str:
    if case["chain"]:
        return "/".join(f"{l['s']}.{l['k']}" if l["k"] else l["s"] for l in case["chain"]) + f"@{case['top']}{'+P' if case['P0'] else ''}"
    return "lambda(" + ",".join(f"{p['name']}:{p['kind']}{'=' if p['d'] else ''}" for p in case["tree"]["ps"]) + ")"


def check_case(run: Run, w: World, case: dict, variant: int, stats: dict):
    top, p0 = case["top"], case["P0"]
    binmap, cmpop = variant_maps(variant)
    tree, itree, rtree = (A.map_ops(case[k] or case["tree"], binmap, cmpop) for k in ("tree", "itree", "rtree"))
    impl_t = A.map_tokens(case["impl"], binmap, A.compare_ops_in_order(itree, skip_spec=False))
    ref_t = A.map_tokens(case["ref"], binmap, A.compare_ops_in_order(itree, skip_spec=False))
    cid = case_id(case)
    ident = {"id": cid, "variant": variant, "top": top, "P0": p0, "chain": case["chain"], "tree": case["tree"]}
    run.evaluated()
    stats["clean"] += bool(case["clean"])
    # ---- the source and the trees the property compares with (CPython decides the spelling) ------------------
    try:
        src = ast.unparse(A.to_ast(tree))
        src_node = A.parse_in(top, src)
        want_node = A.parse_in(top, ast.unparse(A.to_ast(rtree)))     # strings the property wants parsed are expanded
        built_node = A.parse_in(top, ast.unparse(A.to_ast(itree)))    # strings the model says the code parses are expanded
    except Exception as exc:  # noqa: BLE001
        die(f"C03: cannot concretise case {cid}: {exc!r}")
    if src_node is None or want_node is None or built_node is None or A.dump(src_node) != A.dump(A.parse_in(top, ast.unparse(src_node))):
        die(f"C03: the spec emitted a case CPython does not accept at a {top} position: {cid}: {src!r}")
    # ---- CPython validates the reference (NeedsParens / RefRender) ---------------------------------------------
    ref_text = A.text(A.concretise(ref_t, A.strings_in_order(itree, skip_spec=False)))
    if A.dump(A.parse_in(top, ref_text)) != A.dump(built_node):
        die(f"C03: the spec's reference rendering {ref_text!r} of case {cid} does not parse back to the source {ast.unparse(built_node)!r} (NeedsParens/RefRender wrong)")
    for a, b in A.group_pairs(ref_t):
        less = A.text(A.concretise([t for i, t in enumerate(ref_t) if i not in (a, b)], A.strings_in_order(itree, skip_spec=False)))
        if A.dump(A.parse_in(top, less)) == A.dump(built_node):
            die(f"C03: NeedsParens demands parentheses CPython does not need: {ref_text!r} vs {less!r} (case {cid})")
        stats["parens_validated"] += 1
    # ---- real Griffe -------------------------------------------------------------------------------------------
    try:
        expr = w.build(src_node, top, p0)
        flat = w.pieces(expr, flat=True)
        layered = w.pieces(expr, flat=False)
        s = str(expr)
        for p in flat:
            if not isinstance(p, str):
                _ = p[2].canonical_path
    except Exception as exc:  # noqa: BLE001
        run.violation({"clause": "total", "cause": "unmodelled", "parent": case["tree"]["t"], "pos": "", "child": ""},
                      f"{cid}: building / iterating / resolving {src!r} raised {exc!r}", {"case": ident, "source": src})
        return
    run.replayed()
    real = A.merged([p if isinstance(p, str) else ("n", p[1]) for p in flat])
    model = A.merged(A.concretise(impl_t, A.strings_in_order(itree, skip_spec=False)))
    strict = real == model
    # The model's Impl explains the real output when both are the same code as far as the property can tell: they parse to
    # the same tree (redundant parentheses, spacing and literal spelling aside) or - when neither parses - are the same
    # text up to white space; and they carry the same ExprName elements.
    conforms = strict
    if not strict and [p for p in real if not isinstance(p, str)] == [p for p in model if not isinstance(p, str)]:
        r_node, m_node = A.parse_in(top, A.text(real)), A.parse_in(top, A.text(model))
        same_modulo_space = "".join(A.text(real).split()) == "".join(A.text(model).split())
        if r_node is not None and m_node is not None:
            conforms = A.dump(r_node) == A.dump(m_node) or same_modulo_space
        elif r_node is None and m_node is None:
            conforms = same_modulo_space
    if not strict:
        stats["drift"] += 1
        if len(stats["drift_examples"]) < 5:
            stats["drift_examples"].append(f"{cid}: real {A.text(real)!r} model {A.text(model)!r}")
    # ---- the property on the real objects ----------------------------------------------------------------------
    failed = []
    got_node = A.parse_in(top, s)
    if A.dump(got_node) != A.dump(want_node):
        failed.append(("ast", f"str(expr) = {s!r} " + ("is not valid Python" if got_node is None else f"parses to {ast.unparse(got_node)!r}") + f", source {ast.unparse(want_node)!r}"))
    if "".join(p if isinstance(p, str) else p[1] for p in flat) != s:
        failed.append(("pieces", f"flat pieces {flat!r} do not concatenate to str(expr) = {s!r}"))
    if [p if isinstance(p, str) else p[1] for p in layered] != [p if isinstance(p, str) else p[1] for p in flat]:
        failed.append(("layers", f"expanding iterate(flat=False) recursively differs from iterate(flat=True) for {s!r}"))
    want_names = sorted(x.id for x in ast.walk(want_node) if isinstance(x, ast.Name))
    got_names = sorted(p[1] for p in flat if not isinstance(p, str))
    missing = [x for x in set(want_names) if want_names.count(x) > got_names.count(x)]
    if missing:
        failed.append(("names", f"names {missing} of {ast.unparse(want_node)!r} are not ExprName elements of {s!r}"))
    nontrivial = len(case["chain"]) >= 2 or bool(case["tree"]["ps"])
    if nontrivial:
        run.nontrivial_case(cid)
    run.sample({"case": cid, "source": src, "str": s, "model_defects": [b["cause"] for b in case["bad"]]})
    if not failed:
        if conforms and any(b["sev"] == "breaks" for b in case["bad"]):
            # the model predicts a defect, the real text is the model's text, and yet the property holds: the reference is too strict
            die(f"C03: spec reports {[b['cause'] for b in case['bad']]} for {cid} but str(expr) = {s!r} re-parses to the source {src!r}")
        if any(b["sev"] == "breaks" for b in case["bad"]):
            stats["not_reproduced"] += 1
        return
    what = f"{cid}: source {src!r} -> " + "; ".join(m for _, m in failed)
    base = {"family": "lambda" if not case["chain"] else "chain", "top": top}
    predicted = [b for b in case["bad"] if b["sev"] == "breaks"]
    if conforms and predicted:
        for b in predicted:            # exactly the defect(s) the model exhibits on this case
            run.violation(dict(base, **b), what, {"case": ident, "source": src})
    else:
        leaf = case["chain"][-1]["s"] if case["chain"] else "Lambda"
        run.violation(dict(base, clause=failed[0][0], cause="unmodelled" if not conforms else "unpredicted",
                           parent=case["chain"][0]["s"] if case["chain"] else "Lambda", pos=str(case["chain"][0]["k"]) if case["chain"] else "", child=leaf),
                      what + ("" if conforms else f" [model expected {A.text(model)!r}]"), {"case": ident, "source": src})


# ---------------------------------------------------------------------------------------------------
CONTEXTS = ["value", "annotation", "default", "returns", "decorator", "base"]


def check_contexts(run: Run, w: World, cases: list, stats: dict):
    """The storage sites: one module per batch, visited by the real visitor; every stored expression must be the one
    get_expression builds for the same node (so that the per-expression verdicts above are verdicts about what is stored)."""
    griffe = w.griffe
    for postponed in (False, True):
        lines = [PRELUDE]
        want = []
        for i, case in enumerate(cases):
            src = ast.unparse(A.to_ast(case["tree"]))
            if A.parse_in("base", src) is None or A.parse_in("annotation", src) is None:
                continue   # bare yield etc: only storable as a value
            lines += [f"v{i} = {src}", f"a{i}: {src}", f"def f{i}(p: {src} = {src}) -> {src}: pass", f"@{src}\ndef d{i}(): pass", f"class C{i}({src}): pass"]
            want.append((i, src))
        code = "\n".join(lines) + "\n"
        try:
            mod = w.submodule(code, postponed=postponed)
        except Exception as exc:  # noqa: BLE001
            run.violation({"clause": "total", "cause": "unmodelled", "parent": "visit", "pos": "", "child": ""}, f"visit raised {exc!r} on a module of stored expressions", {"source": code})
            return
        for i, src in want:
            node = A.parse_in("value", src)
            as_value = str(w.get_expression(node, mod, parse_strings=False))
            as_annotation = str(w.get_expression(node, mod))
            stored = {
                "value": (mod[f"v{i}"].value, as_value), "annotation": (mod[f"a{i}"].annotation, as_annotation),
                "default": (mod[f"f{i}"].parameters["p"].default, as_value), "param-annotation": (mod[f"f{i}"].parameters["p"].annotation, as_annotation),
                "returns": (mod[f"f{i}"].returns, as_annotation), "decorator": (mod[f"d{i}"].decorators[0].value, as_value),
                "base": (mod[f"C{i}"].bases[0], as_value),
            }
            for site, (got, expect) in stored.items():
                run.evaluated()
                stats["sites"] += 1
                if got is None or str(got) != expect:
                    run.violation({"clause": "stored", "cause": "unmodelled", "parent": site, "pos": "postponed" if postponed else "now", "child": cases[i]["tree"]["t"]},
                                  f"{site} of {src!r} is stored as {None if got is None else str(got)!r}, get_expression gives {expect!r}", {"source": src, "site": site})


def tlc_jobs(tier: str) -> dict:
    FIXED_TLA = ", ".join(f'"{f}"' for f in sorted(FIXED))
    jobs = {
        "depth2": dict(constants=dict(DEPTH=2, FAMILY="chain", STRIDE=1, OFFSET=0, DOMAIN="all", EMIT="TRUE", FIXED=FIXED_TLA, REVERTED=""), workers=5),
    }
    if tier == "quick":
        jobs["depth3"] = dict(constants=dict(DEPTH=3, FAMILY="chain", STRIDE=QUICK_STRIDE, OFFSET=SEED % QUICK_STRIDE, DOMAIN="all", EMIT="TRUE", FIXED=FIXED_TLA, REVERTED=""), workers=5)
    else:
        for i in range(THOROUGH_PARTS):   # THOROUGH_PARTS residues of THOROUGH_STRIDE: a seeded THOROUGH_PARTS/THOROUGH_STRIDE of all two-edge chains
            jobs[f"depth3-{i}"] = dict(constants=dict(DEPTH=3, FAMILY="chain", STRIDE=THOROUGH_STRIDE, OFFSET=(SEED + i * 5) % THOROUGH_STRIDE, DOMAIN="all", EMIT="TRUE", FIXED=FIXED_TLA, REVERTED=""), workers=6, heap="3g")
    # lambda parameter lists: <= DEPTH positional-only, <= DEPTH + 1 positional-or-keyword, every number of defaults
    jobs["lambda"] = dict(constants=dict(DEPTH=2 if tier == "quick" else 3, FAMILY="lambda", STRIDE=1, OFFSET=0, DOMAIN="all", EMIT="TRUE", FIXED=FIXED_TLA, REVERTED=""), workers=1)
    jobs["defect"] = dict(cfg="ExprBuild_defect.cfg", constants=dict(DEPTH=2, FAMILY="chain", STRIDE=1, OFFSET=0, DOMAIN="defect", EMIT="FALSE", FIXED=FIXED_TLA, REVERTED=""), workers=1, dump_trace=True)
    if tier == "quick":    # model-only regression domain in one job: every repair reverted = the transcription of the pinned code
        jobs["regress-all"] = dict(cfg="ExprBuild_regressall.cfg", workers=3,
                                   constants=dict(DEPTH=2, FAMILY="chain", STRIDE=1, OFFSET=0, DOMAIN="defect", EMIT="FALSE", FIXED=FIXED_TLA,
                                                  REVERTED=", ".join(f'"{x}"' for x in APPLIED)))
    else:                  # one job per committed repair (depth-first: the first old defect of that repair ends the job)
        for x in APPLIED:
            jobs[f"regress-{x}"] = dict(cfg="ExprBuild_regress.cfg", workers=1, dump_trace=True, dfs_queue=True,
                                        constants=dict(DEPTH=2, FAMILY="chain", STRIDE=1, OFFSET=0, DOMAIN="defect", EMIT="FALSE", FIXED=FIXED_TLA, REVERTED=f'"{x}"'))
    return jobs


class Collector:
    """What check_case reports, gathered in a worker process and merged into the Run by the parent."""

    def __init__(self):
        self.n_eval = self.n_replayed = 0
        self.nontrivial, self.samples, self.violations = [], [], []

    def evaluated(self, n=1):
        self.n_eval += n

    def replayed(self, n=1):
        self.n_replayed += n

    def nontrivial_case(self, key):
        self.nontrivial.append(key)

    def sample(self, case):
        if len(self.samples) < 2:
            self.samples.append(case)

    def violation(self, sig, what, case=None):
        self.violations.append((sig, what, case))


_WORLD = None


def _replay_chunk(chunk: list, fixed: list):
    """Worker: replay [(case, [variants])...] on the real code; returns (Collector, stats)."""
    global _WORLD  # noqa: PLW0603
    FIXED.update(fixed)
    if _WORLD is None:
        warnings.filterwarnings("ignore", category=SyntaxWarning)
        _WORLD = World(ensure_repo())
    col, stats = Collector(), new_stats()
    for case, variants in chunk:
        for v in variants:
            check_case(col, _WORLD, case, v, stats)
    return col, stats


def new_stats() -> dict:
    return {"drift": 0, "drift_examples": [], "parens_validated": 0, "not_reproduced": 0, "sites": 0, "clean": 0}


def merge(run: Run, stats: dict, col: Collector, st: dict):
    run.evaluated(col.n_eval)
    run.replayed(col.n_replayed)
    for key in col.nontrivial:
        run.nontrivial_case(key)
    for x in col.samples:
        run.sample(x)
    for v in col.violations:
        run.violation(*v)
    for k, v in st.items():
        stats[k] = stats[k] + v if k != "drift_examples" else (stats[k] + v)[:5]


def main(tier: str, replay: str | None = None):
    griffe = ensure_repo()
    w = World(griffe)
    run = Run("C03", tier)
    FIXED.update(fixed_flags(run.findings))
    if os.environ.get("VERIF_C03_FIXED"):
        # trying a fix before its entry is flipped: the matching entries must not excuse anything
        run.findings = [e for e in run.findings if e.get("fix_flag") not in FIXED]
    if FIXED:
        run.note(f"baseline includes the proposed repairs {sorted(FIXED)}: the model's Impl is the repaired behaviour for them")
    run.rule = ("ExprBuild.tla: chains of node templates (80 shapes over the 28 node types of _node_map, 13 binary / 4 unary / 2 boolean / 10 comparison operators): "
                "every single shape, every (parent shape, slot, child shape) edge, two-edge chains (all in thorough, a seeded 1/37 in quick), each as value and - when strings "
                "occur - as annotation with and without postponed evaluation; every lambda parameter list with <=2/3 positional-only, <=3/4 positional-or-keyword, every number of "
                "right-aligned defaults, <=2 keyword-only with every default mask, *args, **kwargs. Non-trivial = a chain with at least one edge or a lambda with parameters; distinct by chain / parameter list.")
    stats = new_stats()
    warnings.filterwarnings("ignore", category=SyntaxWarning)
    if replay:
        with open(replay) as fh:
            rec = json.load(fh)
        print(rec["what"])
        for e in run.findings:
            e.pop("expect_every_run", None)      # a single case cannot re-observe every finding
        c = rec["case"]["case"]
        fam = "lambda" if not c["chain"] else "chain"
        depth = max(2, len(c["chain"])) if c["chain"] else 3
        res = tlc.must(tlc.run("ExprBuild", "ExprBuild_check.cfg", workers=4, timeout=1100,
                               constants=dict(DEPTH=depth, FAMILY=fam, STRIDE=1, OFFSET=0, DOMAIN="all", EMIT="TRUE",
                                              FIXED=", ".join(f'"{f}"' for f in sorted(FIXED)), REVERTED="")))
        run.add_tlc(res)
        hit = [x for x in res.cases if x["chain"] == c["chain"] and x["tree"] == c["tree"] and x["top"] == c["top"] and x["P0"] == c["P0"]]
        if not hit:
            die(f"C03: replay case {c['id']} is not in the case space any more")
        for x in hit:
            check_case(run, w, x, c["variant"], stats)
        run.finish()
    jobs = tlc_jobs(tier)
    counts = {"depth<=2": 0, "lambda": 0, "depth3": 0}
    keep: list = []          # depth <= 2 cases (context check, counterexample witness)
    rnd = random.Random(SEED)
    seq = 0
    dres = None
    pending = []
    regress: dict = {}
    with ProcessPoolExecutor(max_workers=REPLAY_PROCS, mp_context=multiprocessing.get_context("spawn")) as pool, \
            ThreadPoolExecutor(max_workers=8 if tier == "quick" else 4) as ex:
        futs = {ex.submit(tlc.run, "ExprBuild", j.pop("cfg", "ExprBuild_check.cfg"), timeout=1100 if tier == "thorough" else 170, **j): name for name, j in jobs.items()}
        for fut in as_completed(futs):
            name, res = futs[fut], fut.result()
            if name == "defect":
                dres = res
                continue
            if name == "regress-all":
                tlc.must(res)
                run.add_tlc(res)
                for note in res.notes:
                    regress.setdefault(note["flag"], {"chain": "/".join(l["s"] for l in note["chain"]), "cause": note["cause"]})
                continue
            if name.startswith("regress-"):
                # model-only regression domain: with the repair reverted in the model TLC must exhibit the old defect again
                flag = name[-1]
                tlc.must(res, allow_violations=True)
                run.add_tlc(res)
                old = [b for b in (res.trace[-1]["bad"] if res.trace else []) if flag_of(b) == flag]
                if "OldDefectGone" not in res.violated or not old:
                    die(f"C03: with repair {flag} reverted in the model TLC does not exhibit the old defect any more")
                regress[flag] = {"chain": "/".join(l["s"] for l in res.trace[-1]["chain"]), "cause": old[0]["cause"]}
                continue
            tlc.must(res)
            run.add_tlc(res)
            chunk = []
            for case in res.cases:
                seq += 1
                depth = len(case["chain"])
                counts["lambda" if depth == 0 else "depth3" if depth == 3 else "depth<=2"] += 1
                variants = [seq + SEED]
                if tier == "thorough" and depth <= 2:
                    variants.append(seq + SEED + 1 + rnd.randrange(8))      # another operator of each class
                chunk.append((case, variants))
                if len(chunk) == 400:
                    pending.append(pool.submit(_replay_chunk, chunk, sorted(FIXED)))
                    chunk = []
                if 0 < depth <= 2:
                    keep.append(case)
            if chunk:
                pending.append(pool.submit(_replay_chunk, chunk, sorted(FIXED)))
            res.cases = []
        t_tlc = time.time()
        for fut in pending:
            merge(run, stats, *fut.result())
        t_replay = time.time()
    # the defect domain: TLC must exhibit a violation of the property on the model, and the real code must reproduce it
    tlc.must(dres, allow_violations=True)
    run.add_tlc(dres)
    if "NoDefect" not in dres.violated or not dres.trace:
        die("C03: TLC does not exhibit any defect outside the clean domain any more (spec or cfg changed?)")
    ce = dres.trace[-1]
    witness = [x for x in keep if x["chain"] == ce["chain"] and x["top"] == ce["top"] and x["P0"] == ce["P0"]]
    if not witness or {b["cause"] for b in witness[0]["bad"]} != {b["cause"] for b in ce["bad"]}:
        die(f"C03: TLC's counterexample {ce['chain']} is not among the emitted cases")
    run.extra["tlc_counterexample"] = {"chain": ce["chain"], "bad": sorted(b["cause"] for b in ce["bad"]), "replayed_as": case_id(witness[0])}
    # vacuity: the case space has the expected size
    if counts["depth<=2"] < 5000 or counts["lambda"] < 1000 or counts["depth3"] < (3000 if tier == "quick" else 80000):
        die(f"C03: case space shrank: {counts}")
    if not stats["clean"] or stats["clean"] == seq:
        die(f"C03: the clean domain ({stats['clean']} of {seq} cases) is empty or everything - CleanHolds / NoDefect are vacuous")
    if set(regress) != set(APPLIED):
        die(f"C03: regression domain incomplete: {sorted(regress)}")
    run.extra["old_defects_exhibited_by_tlc_when_reverted"] = regress
    run.extra["cases"] = counts
    singles = [c for c in keep if len(c["chain"]) == 1 and c["top"] == "value"]
    edges = [c for c in keep if len(c["chain"]) == 2 and c["top"] == "value"]
    t_ctx0 = time.time()
    check_contexts(run, w, singles + (edges if tier == "thorough" else rnd.sample(edges, 600)), stats)
    run.extra["phase_seconds"] = {"tlc_and_overlapped_replay": round(t_tlc - run.t0, 1), "replay_tail": round(t_replay - t_tlc, 1),
                                  "storage_sites": round(time.time() - t_ctx0, 1)}
    run.exhaustive = False      # exhaustive at depth <= 2 and for lambda parameter lists; depth 3 is a seeded residue class
    run.extra["exhaustive_up_to_depth"] = 2
    run.extra.update(parentheses_validated_against_cpython=stats["parens_validated"], storage_sites_checked=stats["sites"],
                     model_defects_not_reproduced=stats["not_reproduced"], clean_cases=stats["clean"])
    if stats["drift"]:
        run.note(f"{stats['drift']} case(s) where the real pieces differ from the model's Impl (model drift); e.g. {stats['drift_examples'][:3]}")
    if stats["not_reproduced"]:
        run.note(f"{stats['not_reproduced']} case(s) where the model predicts a defect that the real code does not show (fixed upstream? model drift)")
    run.finish()
