"""C12 - docstring parsers are total and terminating on arbitrary text.

TLC: spec/DocGoogle.tla, DocNumpy.tla, DocSphinx.tla in "seq" mode - a docstring is a sequence of line classes,
the parser an offset machine (main loop + readers as actions).  TLC decides on the model: no crash beyond the
documented crash sites, progress of every main-loop iteration, bounded offsets, well-formed sections, nothing
modified, the plain-text clause.  Binding: every CASE (final state) TLC emits is concretised (spellings per class,
keyword tables extracted from the working tree), checked cleandoc-stable, parsed by the real parser under a
wall-clock guard for every candidate parent and a filling of the unread options:
   real parser vs the property clauses (no exception, terminates, well-formed, unmodified, plain text) -> VIOLATION
   real parser vs the spec's final state (outcome, section kinds, items, consumed lines)             -> drift note
Beyond TLC's bounds hypothesis (seeded with VERIF_SEED) draws long class sequences from the same grammar; only the
clauses that need no model (no exception, terminates, well-formed, unmodified, plain text) are evaluated there.
"""
from __future__ import annotations

import json
import random
import time
import traceback
from concurrent.futures import ThreadPoolExecutor

from gverif import tlc
from gverif.common import SEED, die, ensure_repo
from gverif.harness import Run
from gverif.props.c12_common import Parents, blank_normalised, option_fills, real_parse, well_formed

PROP = "C12"


def load_styles(griffe, which=("google", "numpy", "sphinx")):
    out = {}
    if "google" in which:
        from gverif.props.c12_google import Google  # noqa: PLC0415

        out["google"] = Google(griffe)
    if "numpy" in which:
        from gverif.props.c12_numpy import Numpy  # noqa: PLC0415

        out["numpy"] = Numpy(griffe)
    if "sphinx" in which:
        from gverif.props.c12_sphinx import Sphinx  # noqa: PLC0415

        out["sphinx"] = Sphinx(griffe)
    return out


# ---- abstract signature of a crash of the real code ------------------------------------------------------------------
def crash_pattern(style: str, excobj: BaseException) -> str:
    """Line pattern at the point of the crash, read from the frame of the public parse_<style> function when its locals are the
    ones of the pinned tree; purely descriptive (part of a violation's signature) - "?" when they are not there."""
    try:
        return _crash_pattern(style, excobj)
    except Exception:  # noqa: BLE001
        return "?"


def _crash_pattern(style: str, excobj: BaseException) -> str:
    frames = [f for f, _ in traceback.walk_tb(excobj.__traceback__)]
    inner = frames[-1].f_code.co_name if frames else "?"
    if inner == "_get_parts":
        return "empty-name-lookup"
    if type(excobj).__name__ == "AliasResolutionError":
        return "unresolvable-alias-lookup"
    if style == "numpy" and inner in ("_read_returns_section", "_read_receives_section") and isinstance(excobj, IndexError):
        return "untyped-item-beyond-tuple-arity"
    top = next((f for f in frames if f.f_code.co_name == f"parse_{style}"), None)
    if top is None:
        return "?"
    loc = top.f_locals
    if style == "google" and inner == "parse_google" and isinstance(excobj, AttributeError) and loc.get("sections"):
        return "first-section=" + loc["sections"][0].kind.value
    lines, off = loc.get("lines"), loc.get("offset", loc.get("curr_line_index"))
    if not isinstance(lines, list) or not isinstance(off, int):
        return "?"
    letters = []
    for j in range(off, min(off + 3, len(lines))):
        ln = lines[j]
        letters.append("H" if j == off else "B" if not ln.strip() else "I" if ln.startswith(" ") else "T")
    return ",".join(letters)


RELEVANT_OPTION = {
    "_read_returns_section": "returns_multiple_items", "_read_yields_section": "returns_multiple_items",
    "_read_receives_section": "receives_multiple_items",
}


def crash_sig(style: str, r: dict, options: dict, parent: str) -> dict:
    frames = r["frames"] or ""
    opt = "-"
    for fn, o in RELEVANT_OPTION.items():
        if fn in frames and o in options:
            opt = f"{o}={options[o]}"
    if style == "google" and frames.endswith("parse_google|parse_google"):
        opt = f"returns_type_in_property_summary={options.get('returns_type_in_property_summary')}"
    return {"style": style, "clause": "no-exception", "exc": r["exc"], "frames": frames, "option": opt,
            "pattern": crash_pattern(style, r["excobj"]) if r.get("excobj") is not None else "?", "parent": "none" if parent == "none" else "object"}


# ---- clauses evaluated on the real code alone (no model needed) ----------------------------------------------------------
def check_real_clauses(run: Run, st, griffe, r: dict, text: str, lines: list, options: dict, parent: str, flags: dict | None, origin: str) -> bool:
    """Returns True when the real parse completed (sections available)."""
    style = st.style
    case = {"style": style, "text": text, "parent": parent, "options": options, "lines": lines, "origin": origin}
    if r["exc"] == "Timeout":
        run.violation({"style": style, "clause": "terminates", "parent": parent}, f"{style} parser did not return within the wall-clock guard on {text!r} (parent={parent}, options={options})", case)
        return False
    if r["exc"] is not None:
        sig = crash_sig(style, r, options, parent)
        run.violation(sig, f"{style} parser raised {r['exc']}({r.get('message')}) at {r['frames']} on {text!r} (parent={parent}, options={ {k: v for k, v in options.items()} })", case)
        return False
    if r["modified"]:
        what = ("docstring-attributes" if r["modified"].startswith("docstring attributes") else "shared-options" if "shared" in r["modified"]
                else "parent" if r["modified"].startswith("parent") else "history")
        run.violation({"style": style, "clause": "unmodified", "what": what}, f"{style}: {r['modified']} after parsing {text!r} (options={options})", case)
    wf = well_formed(griffe, r["sections"])
    if wf:
        run.violation({"style": style, "clause": "well-formed", "what": wf.split(" ")[0]}, f"{style}: {wf} for {text!r} (parent={parent}, options={options})", case)
    # plain-text clause: no section syntax -> one text section whose text is the cleaned docstring
    applies = st.no_syntax(lines) and not st.summary_altered(lines, options, parent)
    if applies:
        secs = r["sections"]
        ok = len(secs) == 1 and secs[0].kind.value == "text" and blank_normalised(secs[0].value) == blank_normalised(r["value"])
        if not ok:
            got = [(s.kind.value, s.value if isinstance(s.value, str) else "...") for s in secs]
            run.violation({"style": style, "clause": "plain-text", "empty": text == "", "nsections": min(len(secs), 2)},
                          f"{style}: text without section syntax {text!r} came back as {got} (parent={parent}, options={options})", case)
    return True


# ---- replay of TLC cases --------------------------------------------------------------------------------------------------
class Stats:
    def __init__(self):
        self.parses = 0
        self.timeouts = 0
        self.drift: dict = {}
        self.soft: dict = {}
        self.model_crash_not_real = 0
        self.examples: list = []


ALL_PARENTS = 16


def replay_cases(run: Run, st, griffe, parents: Parents, cases: list, rnd: random.Random, stats: Stats, origin: str, max_parents: int = ALL_PARENTS):
    style = st.style
    for n, case in enumerate(cases):
        lines = case["lines"]
        pcand = sorted(case["pcand"])
        if len(pcand) > max_parents:      # quick tier: a rotating choice among the candidates the path did not distinguish
            pcand = [pcand[(n + j * 3) % len(pcand)] for j in range(max_parents)]
            pcand = sorted(set(pcand))
        predicted_crash = case["outcome"] == "crashed"
        run.evaluated()
        key = (style, json.dumps(lines, sort_keys=True))
        if predicted_crash or any(s["kind"] != "text" for s in case["sections"]):
            run.nontrivial_case((style, st.code(lines), json.dumps(case["opts"], sort_keys=True), ",".join(pcand)))
        for j, parent in enumerate(pcand):
            which = (n + j) % 3
            v = (n * 7 + j) % 12
            options = option_fills(style, case["opts"], case.get("excl", []), parent, which, rnd)
            text, parts = st.concretise(lines, v)
            history = 2 if (n + j) % 12 == 0 else 1 if (n + j) % 3 == 0 else 0       # second / third parse of the same docstring
            r = real_parse(griffe, parents, style, text, parent, options, timeout=2.0 if stats.timeouts == 0 else 0.5, history=history)
            stats.parses += 1
            if r["exc"] == "Timeout":
                stats.timeouts += 1
            if r["unstable"]:
                die(f"{PROP}: concretised docstring is not a cleandoc fixed point: {text!r} -> {r['value']!r} (classes {lines})")
            completed = check_real_clauses(run, st, griffe, r, text, lines, options, parent, case.get("flags"), origin)
            # conformance: real code vs the spec's final state
            if predicted_crash:
                if completed:
                    stats.model_crash_not_real += 1
                    stats.drift.setdefault("model-crash-not-real", []).append((text, parent, options, case["crash"]))
                elif r["exc"] != case["crash"]["exc"]:
                    stats.drift.setdefault("crash-type", []).append((text, parent, options, case["crash"], r["exc"]))
            elif not completed:
                stats.drift.setdefault("real-crash-not-model", []).append((text, parent, options, r["exc"], r["frames"]))
            else:
                hard, soft = st.compare(st.project_real(r["sections"]), st.project_spec(case["sections"], parts, case.get("flags") or {}))
                if hard:
                    stats.drift.setdefault("sections", []).append((text, parent, options, hard))
                elif soft:
                    stats.soft.setdefault("values", []).append((text, parent, options, soft))
        run.replayed()
        if stats.timeouts >= 4:
            run.note(f"{style}: the real parser ran into the wall-clock guard {stats.timeouts} times - replay of this batch stopped after {n + 1} of {len(cases)} cases")
            break
        if n < 3:
            run.sample({"style": style, "lines": st.code(lines), "opts": {k: v for k, v in case["opts"].items() if v != "U"}, "parents": pcand, "outcome": case["outcome"],
                        "sections": [s["kind"] for s in case["sections"]], "text": st.concretise(lines, 0)[0]}, limit=9)


def report_drift(run: Run, style: str, stats: Stats):
    for kind, items in list(stats.drift.items()) + list(stats.soft.items()):
        run.note(f"{style}: model drift [{kind}] on {len(items)} parse(s), e.g. {items[0]!r}"[:900])


# ---- long sequences beyond TLC's bounds (hypothesis) ------------------------------------------------------------------------
def long_sequences(run: Run, styles: dict, griffe, parents: Parents, n_examples: int, max_len: int, skip: set = frozenset()):
    from hypothesis import HealthCheck, Phase, given, seed, settings  # noqa: PLC0415
    from hypothesis import strategies as hs  # noqa: PLC0415

    count = {"n": 0}
    for style, st in styles.items():
        if style in skip:
            run.note(f"{style}: long sequences skipped (the parser already ran into the step budget several times)")
            continue
        _long_one(run, style, st, griffe, parents, n_examples, max_len, count)
    return count["n"]


def _long_one(run: Run, style: str, st, griffe, parents: Parents, n_examples: int, max_len: int, count: dict):
    from hypothesis import HealthCheck, Phase, given, seed, settings  # noqa: PLC0415
    from hypothesis import strategies as hs  # noqa: PLC0415

    if True:
        alphabet = st.long_alphabet()
        first = [c for c in alphabet if st.can_be_first(c)]
        last = [c for c in alphabet if st.can_be_last(c)]
        opt_names = sorted(__import__("gverif.props.c12_common", fromlist=["DEFAULTS"]).DEFAULTS[style])

        @seed(SEED)
        @settings(max_examples=n_examples, database=None, deadline=None, derandomize=False, phases=[Phase.generate],
                  suppress_health_check=list(HealthCheck))
        @given(hs.sampled_from(first), hs.lists(hs.sampled_from(alphabet), min_size=5, max_size=max_len), hs.sampled_from(last),
               hs.sampled_from(sorted(["none", "module", "class", "function", "init", "property", "tuplefn", "genfn", "aliasmod", "tupleprop", "tuple0fn", "gen1fn", "gen2fn", "iterfn", "detachedinit", "nsfunc"])),
               hs.lists(hs.booleans(), min_size=len(opt_names), max_size=len(opt_names)), hs.integers(0, 11))
        def prop(a, mid, z, parent, optvals, v):
            lines = st.make_fixed_point([a, *mid, z])
            options = dict(zip(opt_names, optvals))
            text, _parts = st.concretise(lines, v)
            if count.get("timeouts", 0) >= 4:
                return
            r = real_parse(griffe, parents, style, text, parent, options, history=v % 3)
            if r["exc"] == "Timeout":
                count["timeouts"] = count.get("timeouts", 0) + 1
            if r["unstable"]:
                die(f"{PROP}: long sequence is not a cleandoc fixed point: {text!r}")
            check_real_clauses(run, st, griffe, r, text, lines, options, parent, None, "hypothesis")
            run.evaluated()
            count["n"] += 1

        prop()


# ---- main -----------------------------------------------------------------------------------------------------------------
def run_tlc(module: str, cfg: str, **kw):
    """tlc.run, with an optional on-disk cache of the result (development aid, enabled by VERIF_TLC_CACHE=<dir>)."""
    import hashlib  # noqa: PLC0415
    import os  # noqa: PLC0415
    import pickle  # noqa: PLC0415

    cache = os.environ.get("VERIF_TLC_CACHE")
    if not cache:
        return tlc.run(module, cfg, **kw)
    with open(os.path.join(tlc.SPEC_DIR, module + ".tla"), "rb") as fh, open(os.path.join(tlc.SPEC_DIR, "cfg", cfg), "rb") as fc:
        key = hashlib.sha1(fh.read() + fc.read() + json.dumps({k: v for k, v in kw.items() if k not in ("workers", "timeout", "heap")}, sort_keys=True, default=str).encode()).hexdigest()
    path = os.path.join(cache, f"{module}-{key}.pkl")
    if os.path.exists(path):
        with open(path, "rb") as fh:
            return pickle.load(fh)  # noqa: S301
    res = tlc.run(module, cfg, **kw)
    os.makedirs(cache, exist_ok=True)
    with open(path, "wb") as fh:
        pickle.dump(res, fh)
    return res


# regression domains: the small alphabets on which the crashes repaired in /repo (findings.d/C12.json, status fixed) were reachable;
# NoCrash must hold on the model and every final state is replayed with every candidate parent, so a regression is a VIOLATION.
# defect domain: the one recorded defect left (numpy: the empty docstring gives no section) - PlainText fails on the model.
SMALL_DOMAINS = {
    ("google", "regress"): [], ("google", "regress2"): [], ("numpy", "regress"): [], ("numpy", "regress2"): [], ("sphinx", "regress"): [],
    ("numpy", "defect"): ["PlainText"],
}

TLC_JOBS = {
    # style -> tier -> list of (cfg constants, workers, replay cap or None).  TLC checks every state of the bounded space; EMITMOD > 1 makes it
    # hand only the final states whose checksum is 0 mod EMITMOD to the replay (deterministic sample), the cap bounds the replay further.
    "google": {"quick": [({"LEN": 3, "ALPHA": "mid", "EMITMOD": 4}, 3, 3500), ({"LEN": 4, "ALPHA": "core", "EMITMOD": 12}, 6, 4500)],
               "thorough": [({"LEN": 3, "ALPHA": "rich", "EMITMOD": 2}, 4, 20000), ({"LEN": 5, "ALPHA": "core", "EMITMOD": 48}, 8, 25000)]},
    "numpy": {"quick": [({"LEN": 3, "ALPHA": "mid", "EMITMOD": 4}, 3, 3500), ({"LEN": 4, "ALPHA": "core", "EMITMOD": 8}, 4, 4500)],
              "thorough": [({"LEN": 3, "ALPHA": "mid", "EMITMOD": 2}, 4, 20000), ({"LEN": 5, "ALPHA": "core", "EMITMOD": 24}, 8, 25000)]},
    "sphinx": {"quick": [({"LEN": 3, "ALPHA": "core", "EMITMOD": 2}, 2, 3500), ({"LEN": 4, "ALPHA": "mini", "EMITMOD": 3}, 2, 3500)],
               "thorough": [({"LEN": 3, "ALPHA": "rich", "EMITMOD": 2}, 4, 20000), ({"LEN": 4, "ALPHA": "core", "EMITMOD": 8}, 6, 25000), ({"LEN": 5, "ALPHA": "mini", "EMITMOD": 6}, 6, 20000)]},
}


def run_replay_file(run: Run, griffe, path: str):
    with open(path) as fh:
        rec = json.load(fh)
    print(rec["what"])
    for e in run.findings:
        e.pop("expect_every_run", None)      # a replay re-executes one case: the other findings are not expected to show
    c = rec["case"]
    styles = load_styles(griffe, (c["style"],))
    st = styles[c["style"]]
    parents = Parents(griffe)
    r = real_parse(griffe, parents, c["style"], c["text"], c["parent"], c["options"])
    print("re-executed:", {k: v for k, v in r.items() if k in ("exc", "frames", "message", "modified")}, "sections:", None if r["sections"] is None else [s.kind.value for s in r["sections"]])
    check_real_clauses(run, st, griffe, r, c["text"], c["lines"], c["options"], c["parent"], None, "replay")
    run.evaluated()
    run.replayed()
    run.states = run.transitions = 1
    run.finish()


def main(tier: str, replay: str | None = None):
    griffe = ensure_repo()
    run = Run(PROP, tier)
    run.rule = ("Doc{Google,Numpy,Sphinx}.tla seq mode: every cleandoc-stable sequence of line classes up to the length bound, lazily chosen options and parent; "
                "one case = one final state of the offset machine (lines, options read, parent candidates). Non-trivial = the spec's result has a non-text section "
                "or a crash; distinct by (style, class sequence, options read, parent candidates).")
    if replay:
        run_replay_file(run, griffe, replay)
    rnd = random.Random(SEED)
    import os  # noqa: PLC0415

    only = [x for x in os.environ.get("VERIF_C12_STYLES", "").split(",") if x]     # development aid: restrict the styles
    styles = load_styles(griffe, tuple(only or TLC_JOBS))
    parents = Parents(griffe)
    t0 = time.time()
    for st in styles.values():
        n = st.check_classifier()
        run.extra.setdefault("classifier_checks", {})[st.style] = n
    jobs = {}
    pool = ThreadPoolExecutor(max_workers=14)
    for style, st in styles.items():
        for consts, workers, cap in TLC_JOBS[style][tier]:
            jobs[style, json.dumps(consts, sort_keys=True)] = (pool.submit(run_tlc, st.module, f"{st.module}_seq.cfg", workers=workers, constants=dict(consts, EMIT="TRUE"), timeout=3000, heap="6g"), cap)
        for (dstyle, dlabel) in SMALL_DOMAINS:
            if dstyle == style:
                jobs[style, dlabel] = (pool.submit(run_tlc, st.module, f"{st.module}_{dlabel}.cfg", workers=1, timeout=600, extra=["-continue"]), None)
    order = list(jobs)
    if tier == "quick":
        pool.shutdown(wait=True)
        print(f"TLC done after {time.time() - t0:.1f}s", flush=True)
    else:
        # thorough: replay the small jobs while TLC still works on the deepest ones (they are taken last)
        order.sort(key=lambda k: ("LEN" in k[1] and json.loads(k[1])["LEN"] >= 5, "LEN" in k[1] and json.loads(k[1])["LEN"]))
    run.exhaustive = True
    stuck: set = set()
    for (style, label) in order:
        fut, cap = jobs[style, label]
        st = styles[style]
        res = fut.result()
        if style in stuck and (style, label) not in SMALL_DOMAINS:
            tlc.must(res)
            run.add_tlc(res)
            run.note(f"{style} {label}: replay skipped (the parser already ran into the step budget several times)")
            continue
        if (style, label) in SMALL_DOMAINS:
            tlc.must(res, allow_violations=True)
            res.violated = sorted(set(res.violated))       # -continue reports every violating state
            run.add_tlc(res)
            run.extra.setdefault("small_domains", {})[f"{style}:{label}"] = res.violated
            if res.violated != sorted(SMALL_DOMAINS[style, label]):
                print(res.tail)
                die(f"{PROP}: {style} {label} domain: TLC reports {res.violated} violated on the model, expected {sorted(SMALL_DOMAINS[style, label])}")
            stats = Stats()
            before = sum(h["count"] for h in run.known_hits.values()) + len(run.violations)
            # every candidate parent, except in the one large domain (numpy, 5 lines), where the choice rotates over the cases
            replay_cases(run, st, griffe, parents, res.cases, rnd, stats, f"tlc:{label}-domain", 3 if len(res.cases) > 6000 and tier == "quick" else ALL_PARENTS)
            after = sum(h["count"] for h in run.known_hits.values()) + len(run.violations)
            if SMALL_DOMAINS[style, label]:
                run.note(f"{style}: {label} domain: TLC reports {res.violated} violated on the model; {after - before} violation(s) of the real parser in its {len(res.cases)} final states")
            report_drift(run, style, stats)
            continue
        tlc.must(res)
        run.add_tlc(res)
        cases = res.cases
        if cap is not None and len(cases) > cap:
            # stratified: two cases of every skeleton (sequence of line kinds + outcome + section kinds the spec produced), the rest at random
            strata: dict = {}
            for c in cases:
                key = (tuple(ln["k"] for ln in c["lines"]), c["outcome"], tuple(x["kind"] for x in c["sections"]))
                strata.setdefault(key, []).append(c)
            picked, rest = [], []
            for group in strata.values():
                rnd.shuffle(group)
                picked += group[:2]
                rest += group[2:]
            if len(picked) < cap:
                picked += rnd.sample(rest, min(len(rest), cap - len(picked)))
            run.note(f"{style} {label}: replayed {len(picked)} of {len(cases)} emitted cases ({len(strata)} skeletons, at least two cases of each, the rest a seeded sample)")
            run.exhaustive = False
            cases = picked
        if json.loads(label).get("EMITMOD", 1) != 1:
            run.exhaustive = False
        stats = Stats()
        t1 = time.time()
        replay_cases(run, st, griffe, parents, cases, rnd, stats, f"tlc:{label}", 3 if tier == "quick" else 4)
        print(f"{style} {label}: {len(cases)} cases, {stats.parses} parses in {time.time() - t1:.1f}s", flush=True)
        if stats.timeouts >= 4:
            stuck.add(style)
        report_drift(run, style, stats)
    n_long = long_sequences(run, styles, griffe, parents, 400 if tier == "quick" else 8000, 14 if tier == "quick" else 40, stuck)
    pool.shutdown(wait=True)
    run.extra["long_sequences"] = n_long
    run.finish()
