"""C20 - loading from Git leaves repository and filesystem untouched on every path (spec/GitWorktree.tla).

TLC decides the clauses on the model (a crash-point protocol with exhaustive fault placement), in
separate domains: `clean-*` / `dirty-*` / `all-clean` (must hold; the baseline is Variant = "force", i.e.
`git worktree remove --force`, what the code does since the repo fix), `window` / `finally` (exhibit the
two recorded interrupt defects) and `regression-no-force` (Variant = "orig", model only: documents the
fixed defect; the real code behaving like it again is a VIOLATION).  Binding, both directions:

  * REPLAY  every fault schedule TLC enumerates (plan + interrupt positions) is executed by
    gverif/props/c20_worker.py on the REAL load_git / check against a REAL git repository; the terminal
    invariant is evaluated on the real before/after snapshots (that is the verdict on the code);
  * TRACE   the per-step snapshots of each execution form a trace that spec/Trace_GitWorktree.tla
    (re-using GitWorktree's actions) must accept; a corrupted copy of a trace must be rejected
    (binding self-test, every run).
"""
from __future__ import annotations

import copy
import json
import multiprocessing
import os
import random
import time
from concurrent.futures import ProcessPoolExecutor, ThreadPoolExecutor

from gverif import tlc
from gverif.common import SEED, die, ensure_repo, scratch
from gverif.harness import Run
from gverif.props import c20_worker

# What the code does NOW: `git worktree remove --force` (repo commit "fix: force removal of the temporary git
# worktree").  Variant "orig" (no --force) is kept only as a regression domain of the model.
BASELINE = "force"
REGRESSION = "orig"
TLC_HEAP = "1g"
ALL_REFS = ["v1", "feat/x", "feat-x", "x", "bad", "v0", "nope", "HEAD", "HEAD~1", "refs/tags/v1", "side/y"]
SAFE = ["LoadWT", "LatestTag", "RepoRoot", "AssertRepo", "MkTmp", "WorktreeAdd", "Find", "Analyse", "ExtensionHook", "ResolveAliases", "Return", "RmTmp"]
FINALLY = ["WorktreeRemove", "Prune", "BranchDelete"]
CLEAN_AN = ["static", "inspect-off", "inspect-ignored"]
ACTIONS = ["LatestTag", "RepoRoot", "AssertRepo", "MkTmp", "WorktreeAdd", "EnterTry", "Find", "Analyse", "ExtensionHook", "ResolveAliases",
           "Return", "WorktreeRemove", "Prune", "BranchDelete", "RmTmp", "EndLoad", "LoadWT", "Diff", "Interrupt", "Finish"]
CLAUSES = ["head", "status", "worktree-files", "branches", "userbranch", "worktrees", "tmpdirs", "lines", "ordering", "outcome", "location"]


def tset(xs) -> str:
    return "{" + ",".join(json.dumps(x) if isinstance(x, str) else str(x) for x in xs) + "}"


def consts(**kw) -> dict:
    c = dict(KEYMODE="filepath", DELMODE="-D", VARIANT=BASELINE, OPS=["load"], REFS1=ALL_REFS, REFS2=["HEAD"], ANALYSES=CLEAN_AN, STATUS=["clean", "dirty"], EXTATS=[0, 1],
             INTRAT=SAFE, MAXINTR=1, NOTREPO=False, LATEST=False, NOTAGS=False)
    c.update(kw)
    return {k: (tset(v) if isinstance(v, list) else ("TRUE" if v is True else "FALSE" if v is False else v)) for k, v in c.items()}


def domains(tier: str) -> list:
    """(name, constants, expectation): 'hold' = all clauses must hold on the model; 'leak' = the model must exhibit
    the defect (a clause is violated); model_only domains are not replayed."""
    q = tier == "quick"
    everything = [*CLEAN_AN, "inspect-on"]
    regression = ("regression-no-force", consts(VARIANT=REGRESSION, OPS=["load", "check"], ANALYSES=["inspect-on"], STATUS=["clean"], EXTATS=[0], REFS1=["v1", "feat/x"],
                                                REFS2=["HEAD", "v1"]), "leak", False)
    if q:
        # few, merged domains: every TLC invocation waits for a machine-wide slot.  "leak-gen": a single
        # enumeration run; TLC evaluates the clauses (field `untouched` of every CASE) instead of stopping at
        # the first violated invariant - thorough runs the same domains with the INVARIANT cfg + -dumpTrace
        return [
            # load_git: every ref x 4 analyses (incl. inspection writing __pycache__) x extension fault x not-a-repo x
            # one interrupt at every safe step boundary; user's status clean
            ("load", consts(NOTREPO=True, STATUS=["clean"], ANALYSES=everything), "hold", True),
            # check(): latest tag, repo root, two load_git, diff; the user's index / working tree are DIRTY here
            ("check", consts(OPS=["check"], REFS1=["v1", "bad"], REFS2=["HEAD", "WT"], STATUS=["dirty"], EXTATS=[0, 2], ANALYSES=["static", "inspect-on"], LATEST=True, NOTAGS=True), "hold", True),
            # KeyboardInterrupt between a successful `worktree add` and `try:`, and inside the finally clause
            ("interrupts", consts(OPS=["load", "check"], INTRAT=["EnterTry", *FINALLY], REFS1=["v1", "feat/x", "bad"], STATUS=["clean"], EXTATS=[0],
                                  ANALYSES=["static", "inspect-on"]), "leak-gen", True),
        ]
    d = [
        ("clean-load", consts(NOTREPO=True), "hold", True),
        ("clean-check", consts(OPS=["check"], REFS1=["v1", "feat/x", "x", "bad", "v0", "nope", "HEAD~1", "side/y"], REFS2=["HEAD", "feat-x", "nope", "WT", "side/y"], STATUS=["clean"],
                               ANALYSES=["static", "inspect-off"], EXTATS=[0, 1, 2], LATEST=True, NOTAGS=True), "hold", True),
        ("clean-check-userdirty", consts(OPS=["check"], REFS1=["v1", "bad"], REFS2=["HEAD", "WT"], STATUS=["dirty"], ANALYSES=["static", "inspect-ignored"], EXTATS=[0, 2],
                                         LATEST=True), "hold", True),
        # inspection with bytecode writing enabled: __pycache__ in the checkout; removed thanks to --force
        ("dirty-load", consts(ANALYSES=["inspect-on"]), "hold", True),
        ("dirty-check", consts(OPS=["check"], ANALYSES=["inspect-on"], REFS1=["v1", "feat/x", "bad", "HEAD"], REFS2=["HEAD", "v1"], STATUS=["clean"], EXTATS=[0, 1, 2], LATEST=True), "hold", True),
        # KeyboardInterrupt between a successful `worktree add` and `try:`
        ("window", consts(OPS=["load", "check"], INTRAT=["EnterTry"], STATUS=["clean"], EXTATS=[0], ANALYSES=["static", "inspect-off"]), "leak", True),
        # KeyboardInterrupt inside the finally clause
        ("finally", consts(OPS=["load", "check"], INTRAT=FINALLY, STATUS=["clean"], ANALYSES=["static", "inspect-on"]), "leak", True),
        # the whole clean space at once on the model (both ops, all analyses incl. bytecode on)
        ("all-clean", consts(OPS=["load", "check"], REFS2=["HEAD", "v1"], ANALYSES=everything, EXTATS=[0, 1, 2], NOTREPO=True, LATEST=True), "hold", False),
        # regression domain (model only): the code BEFORE the fix (no --force) leaks when inspection writes
        # __pycache__; if the real code ever behaves like this again the replay reports a VIOLATION
        # (finding C20-untracked-files-block-worktree-remove is "fixed" and suppresses nothing)
        regression,
        # regression domain (model only): lines keyed by the symlink-resolved path - the symlinked module loses its lines
        ("regression-lines-realpath", consts(KEYMODE="realpath", OPS=["load", "check"], REFS1=["v1"], REFS2=["HEAD", "WT"], ANALYSES=["static"], STATUS=["clean"],
                                             EXTATS=[0], INTRAT=[]), "leak", False),
        # regression domain (model only): `git branch -d` instead of `-D` - refused for refs that are not merged into
        # the user's HEAD (diverging branch side/y): the temporary branch leaks
        ("regression-branch-d", consts(DELMODE="-d", OPS=["load", "check"], REFS1=["v1", "side/y"], REFS2=["HEAD", "side/y"], ANALYSES=["static"], STATUS=["clean"],
                                       EXTATS=[0]), "leak", False),
    ]
    if not q:
        # two interrupts per behaviour (the second one strikes during the unwinding caused by the first)
        d.append(("double", consts(MAXINTR=2, INTRAT=[p for p in SAFE + ["EnterTry"] + FINALLY if p not in ("RmTmp", "LatestTag", "RepoRoot", "LoadWT")], STATUS=["clean"],
                                   ANALYSES=["static", "inspect-on"]), "leak", True))
    return d


def case_key(c: dict) -> str:
    return json.dumps([c["plan"], c["intrs"]], sort_keys=True)


def an_name(plan: dict) -> str:
    return "static" if plan["analysis"] == "static" else "inspect-" + plan["bc"]


def causes(r: dict) -> dict:
    """phase -> (step, fault): the first cleanup step of that load_git that was skipped or failed."""
    out = {}
    prev_dirty = False
    for e in r["events"]:
        ph = e["phase"]
        if ph not in out:
            if e["ev"] == "Interrupt" and e["at"] in ("EnterTry", *FINALLY):
                out[ph] = (e["at"], "interrupt")
            elif e["ev"] == "WorktreeRemove" and e.get("rc"):
                out[ph] = ("WorktreeRemove", "untracked-files" if prev_dirty else "failed")
            elif e["ev"] in ("Prune", "BranchDelete") and e.get("rc"):
                out[ph] = (e["ev"], "failed")
        prev_dirty = e.get("post", {}).get("wtDirty", False)
    # a worktree was created in that load_git but `worktree remove` was never even attempted, and none of the
    # recorded windows explains it: the whole cleanup was skipped (e.g. cleanup no longer in a `finally`)
    for ph in {e["phase"] for e in r["events"] if e["ev"] == "WorktreeAdd" and e.get("rc") == 0}:
        evs = [e for e in r["events"] if e["phase"] == ph]
        if ph not in out and not any(e["ev"] == "WorktreeRemove" for e in evs):
            at = next((e["at"] for e in reversed(evs) if e["ev"] == "Interrupt"), "-")
            out[ph] = (at, "cleanup-skipped")
    return out


def judge(run: Run, r: dict, spec_case: dict | None, domain: str, stats: dict):
    """The property on the real execution `r` (+ drift against the model's prediction)."""
    plan = r["plan"]
    case = {"plan": plan, "intrs": r["intrs"]}
    run.replayed()
    run.evaluated(len(CLAUSES))
    added = any(e["ev"] == "WorktreeAdd" and e.get("rc") == 0 for e in r["events"])
    if added:
        run.nontrivial_case(case_key(case))
    run.sample({"domain": domain, "plan": plan, "intrs": r["intrs"], "real_outcome": r["outcome"], "real_exitcode": r["exitcode"],
                "steps": [e["ev"] + (str(e["rc"]) if "rc" in e else "") for e in r["events"]], "violated": [b["clause"] for b in r["bad"]]}, limit=6)
    cs = causes(r)
    by_branch = {v: int(k) for k, v in (r.get("tmp_branch") or {}).items()}
    first = cs[min(cs)] if cs else ("-", "-")
    for b in r["bad"]:
        ph = by_branch.get(b.get("branch"))
        step, fault = cs.get(ph, first) if ph is not None else first
        step, fault = {"ordering": ("ResolveAliases", "after-worktree-removal"), "outcome": ("Find", "absent-package-loaded"),
                       "worktree-files": (step, fault) if step != "-" else ("Find", "user-tree-written")}.get(b["clause"], (step, fault))
        sig = {"clause": b["clause"], "step": step, "fault": fault, "op": plan["op"], "analysis": an_name(plan)}
        what = (f"{plan['op']}(ref={plan['ref1']!r}{'' if plan['op'] == 'load' else ', base_ref=' + repr(plan['ref2'])}, {an_name(plan)}, interrupts={[(i['phase'], i['at']) for i in r['intrs']]}) "
                f"-> {r['outcome']}: {b['what']} [cleanup broke at {step}/{fault}]")
        run.violation(sig, what, case)
    for k in ("errors", "unfired"):
        if r.get(k):
            stats["drift"] += 1
            if stats["drift"] <= 5:
                run.note(f"drift: {k} = {r[k]} for plan {plan} intrs {r['intrs']}")
    if spec_case is not None:
        real_leak = any(b["clause"] in ("head", "status", "worktree-files", "branches", "userbranch", "worktrees", "tmpdirs") for b in r["bad"])
        if real_leak == spec_case["untouched"] or r["outcome"] != spec_case["outcome"] or r["exitcode"] != spec_case["exitcode"]:
            stats["drift"] += 1
            if stats["drift"] <= 5:
                run.note(f"drift: model predicts untouched={spec_case['untouched']} outcome={spec_case['outcome']} exit={spec_case['exitcode']}; real code: "
                         f"leak={real_leak} outcome={r['outcome']} exit={r['exitcode']} ({r.get('exc', '')[:120]}) for plan {plan} intrs {r['intrs']}")


def corruptions(traces: list, rnd: random.Random) -> list:
    """Binding self-test: copies of recorded traces with ONE field changed; Trace_GitWorktree must reject each."""
    out = []
    full = [t for t in traces if any(e["ev"] == "BranchDelete" and e.get("rc") == 0 for e in t["events"])]
    leaky = [t for t in traces if any(e["ev"] == "WorktreeRemove" and e.get("rc") == 1 for e in t["events"])]
    if not full:
        return out

    def mk(src, name, fn):
        t = copy.deepcopy(src)
        t["tid"] = f"selftest:{name}"
        t["src"] = src["tid"]
        try:
            fn(t["events"])
        except (StopIteration, ValueError, IndexError, KeyError):
            return          # the recorded execution does not have the shape this corruption needs (mutated code)
        out.append(t)

    def idx(src, pred):
        return next((k for k, e in enumerate(src["events"]) if pred(e)), 10**6)

    src = rnd.choice(full)
    k_add = idx(src, lambda e: e["ev"] == "WorktreeAdd" and e.get("rc") == 0)
    k_del = idx(src, lambda e: e["ev"] == "BranchDelete" and e.get("rc") == 0)
    tmpb = next((b for b in src["events"][k_add]["post"]["branches"] if b not in src["init"]["branches"]), "griffe-none") if k_add < 10**6 else "griffe-none"
    # the temporary branch is NOT deleted by `branch -D` (a leak the spec does not allow on this path)
    mk(src, "branch-survives-delete", lambda ev: [ev[k_del]] and [e["post"]["branches"].append(tmpb) for e in ev[k_del:]])
    # the temporary directory is still listed after RmTmp
    k_rm = idx(src, lambda e: e["ev"] == "RmTmp")
    mk(src, "tmpdir-survives", lambda ev: [ev[k_rm]] and [e["post"]["tmpDirs"].append("tmp1") for e in ev[k_rm:] if "tmp1" not in e["post"]["tmpDirs"]])
    # a user branch disappears at worktree add
    mk(src, "user-branch-lost", lambda ev: ev[k_add]["post"]["branches"].remove("griffe-x"))
    # a return code is flipped
    mk(src, "rc-flipped", lambda ev: ev[k_del].__setitem__("rc", 1))
    # steps swapped: prune before remove
    k_rmv = idx(src, lambda e: e["ev"] == "WorktreeRemove")
    mk(src, "steps-swapped", lambda ev: ev.__setitem__(slice(k_rmv, k_rmv + 2), [ev[k_rmv + 1], ev[k_rmv]]))
    forced = [t for t in traces if any(e["ev"] == "WorktreeRemove" and e.get("rc") == 0 and t["events"][k - 1]["post"].get("wtDirty") for k, e in enumerate(t["events"]) if k)]
    if forced:
        s3 = rnd.choice(forced)
        k3 = idx(s3, lambda e: e["ev"] == "WorktreeRemove")
        # the pre-fix behaviour: removal of the dirty checkout logged as failed, entry still registered
        def unforce(ev):
            ev[k3]["rc"] = 1
            ev[k3]["post"] = copy.deepcopy(ev[k3 - 1]["post"])
        mk(s3, "dirty-remove-fails-like-before-the-fix", unforce)
    if leaky:
        s2 = rnd.choice(leaky)
        k = idx(s2, lambda e: e["ev"] == "WorktreeRemove" and e.get("rc") == 1)
        # `worktree remove` is logged as successful although the checkout was dirty
        mk(s2, "dirty-remove-succeeds", lambda ev: ev[k].__setitem__("rc", 0))
    return out


def validate_traces(run: Run, traces: list, workdir: str, variant: str, nchunks: int) -> dict:
    """Run Trace_GitWorktree over the batch; returns tid -> (consumed, total, first mismatch note)."""
    chunks = [traces[k::nchunks] for k in range(nchunks)]
    chunks = [c for c in chunks if c]
    paths = []
    for k, c in enumerate(chunks):
        p = os.path.join(workdir, f"traces-{k}.ndjson")
        with open(p, "w") as fh:
            for t in c:
                fh.write(json.dumps(t) + "\n")
        paths.append(p)
    with ThreadPoolExecutor(max_workers=len(paths) or 1) as pool:
        results = list(pool.map(lambda p: tlc.run("Trace_GitWorktree", "Trace_GitWorktree.cfg", workers=1, constants={"VARIANT": variant},
                                                  env={"TRACE_FILE": p}, timeout=1500, heap=TLC_HEAP), paths))
    verdict = {}
    for res, c in zip(results, chunks):
        tlc.must(res)
        run.add_tlc(res)
        prog = {}
        for rec in res.cases:
            prog[rec["tid"]] = max(prog.get(rec["tid"], -1), rec["i"])
        notes = {}
        summary = None
        for n in res.notes:
            if n.get("why") == "summary":
                summary = n
            else:
                cur = notes.get(n["tid"])
                if cur is None or n["i"] > cur["i"]:
                    notes[n["tid"]] = n
        for t in c:
            got = prog.get(t["tid"], -1)
            verdict[t["tid"]] = (got, len(t["events"]), notes.get(t["tid"]))
        acc = sum(1 for t in c if prog.get(t["tid"], -1) == len(t["events"]))
        if summary is None or summary["accepted"] != acc or summary["total"] != len(c):
            die(f"C20: Trace_GitWorktree POSTCONDITION summary {summary} disagrees with the per-trace verdicts ({acc} of {len(c)} accepted)")
    return verdict


def describe_reject(v) -> str:
    got, n, note = v
    if note and note["i"] >= got:
        exp = note.get("expected")
        log = note.get("logged")
        if isinstance(exp, dict) and isinstance(log, dict):
            diff = {k: (exp[k], log[k]) for k in log if k in exp and (sorted(map(json.dumps, exp[k])) if isinstance(exp[k], list) else exp[k]) != (sorted(map(json.dumps, log[k])) if isinstance(log[k], list) else log[k])}
            if "rc" in note and note["rc"] != exp.get("lastrc"):
                diff["rc"] = (exp.get("lastrc"), note["rc"])
            if "ok" in note and note["ok"] != (exp.get("pending") == "none"):
                diff["ok"] = (exp.get("pending") == "none", note["ok"])
            return f"matched {got}/{n} events; event {note['i'] + 1} ({note['ev']}): {note['why']} differs (spec, logged): {diff}"
        return f"matched {got}/{n} events; event {note['i'] + 1} ({note['ev']}): {note['why']}: spec {exp} logged {log}"
    return f"matched {got}/{n} events; the next event is not an enabled action of the spec"


def main(tier: str, replay: str | None = None):
    griffe = ensure_repo()
    run = Run("C20", tier)
    rnd = random.Random(SEED)
    run.rule = ("GitWorktree.tla: one behaviour = (op in load_git/check, ref(s) out of 7 incl. slash / unknown / colliding temp name / syntax error / "
                "package absent, static | inspection with bytecode off/on/git-ignored, user status clean/dirty, raising extension, not-a-repo, "
                "<= MaxIntr KeyboardInterrupts at any step boundary); every terminal state TLC prints is one schedule executed on the real code "
                "against a real repository; non-trivial = a temporary worktree was really created (so cleanup is exercised); distinct by (plan, interrupts).")
    stats = {"drift": 0}
    import _griffe.git as ggit

    for ref, tmp in c20_worker.TMP_BRANCH_TABLE.items():
        if "griffe-" + ggit._normalize(ref) != tmp:
            run.note(f"drift: GitWorktree.TmpBranch({ref!r}) = {tmp!r} but _normalize gives {'griffe-' + ggit._normalize(ref)!r}")

    if replay:
        with open(replay) as fh:
            rec = json.load(fh)
        print(rec["what"])
        with scratch("c20-") as d:
            c20_worker.init_worker(d)
            r = c20_worker.run_batch([rec["case"]])[0]
            if "crash" in r:
                die("C20 replay crashed: " + r["crash"])
            for e in r["events"]:
                print("  ", e["phase"], e["ev"], e.get("rc", ""), e.get("at", ""), "branches+", sorted(set(e["post"]["branches"]) - set(r["init"]["branches"])),
                      "worktrees", [w for w in e["post"]["worktrees"] if w["tmp"] != "user"], "tmp", e["post"]["tmpDirs"])
            print("   final:", json.dumps(r["final"])[:900])
            judge(run, r, None, "replay", stats)
            v = validate_traces(run, [{"tid": "replay", "plan": r["plan"], "init": r["init"], "events": r["events"]}], d, BASELINE, 1)["replay"]
            print("   trace:", "accepted" if v[0] == v[1] else "REJECTED: " + describe_reject(v))
        run.finish()

    doms = domains(tier)
    nproc = max(2, min(14, (os.cpu_count() or 4) - 2))
    with scratch("c20-") as work:
        ctx = multiprocessing.get_context("spawn")
        pool = ProcessPoolExecutor(max_workers=nproc, mp_context=ctx, initializer=c20_worker.init_worker, initargs=(work,))
        try:
            warm = [pool.submit(c20_worker.run_batch, []) for _ in range(nproc)]     # start + initialise the workers while TLC runs
            # ---- TLC: decide the clauses on the model, enumerate the fault schedules ------------------------
            jobs = {}
            with ThreadPoolExecutor(max_workers=4) as tp:
                for name, cs, expect, _rp in doms:
                    if expect == "leak-gen":
                        jobs[name, "check"] = tp.submit(tlc.run, "GitWorktree", "GitWorktree_gen.cfg", workers=1, constants=cs, timeout=1500, heap=TLC_HEAP)
                    elif expect == "hold":
                        jobs[name, "check"] = tp.submit(tlc.run, "GitWorktree", "GitWorktree_check.cfg", workers=1, constants=dict(cs, EMIT="TRUE"), timeout=1500, heap=TLC_HEAP)
                    else:
                        jobs[name, "check"] = tp.submit(tlc.run, "GitWorktree", "GitWorktree_check.cfg", workers=1, constants=dict(cs, EMIT="FALSE"), timeout=1500, dump_trace=True, heap=TLC_HEAP)
                        if _rp:
                            jobs[name, "gen"] = tp.submit(tlc.run, "GitWorktree", "GitWorktree_gen.cfg", workers=1, constants=cs, timeout=1500, heap=TLC_HEAP)
            cases, seen, verdicts, cx = [], set(), {}, []
            for name, cs, expect, rp in doms:
                res = jobs[name, "check"].result()
                tlc.must(res, allow_violations=True)
                run.add_tlc(res)
                verdicts[name] = res.violated
                if expect == "hold" and res.violated:
                    print(res.tail)
                    die(f"C20: GitWorktree.tla violates {res.violated} in domain {name}, which must be clean: the model is wrong")
                if expect == "leak-gen":
                    leaking = [c for c in res.cases if not c["untouched"]]
                    if res.violated or not leaking:
                        die(f"C20: domain {name}: TLC must find terminal states violating the Untouched clauses (and nothing else): violated={res.violated} leaking={len(leaking)}")
                    verdicts[name] = [f"Untouched false in {len(leaking)} of {len(res.cases)} terminal states"]
                    first = min(leaking, key=lambda c: (len(c["intrs"]), case_key(c)))
                    cx.append((name, ["Untouched"], dict(first)))
                if expect == "leak":
                    if not res.violated or not res.trace:
                        die(f"C20: domain {name} must exhibit the recorded defect on the model but TLC found no violation (vacuous model)")
                    last = res.trace[-1]
                    if not rp:
                        continue        # model-only regression domain: documented, not replayed
                    cx.append((name, res.violated, {"plan": last["plan"], "intrs": last["intrs"], "outcome": last["outcome"], "exitcode": last["exitcode"], "untouched": False}))
                    gen = jobs[name, "gen"].result()
                    tlc.must(gen)
                    run.add_tlc(gen)
                    res = gen
                if not rp:
                    continue
                if not res.cases:
                    die(f"C20: domain {name} enumerated no behaviour")
                for c in res.cases:
                    k = case_key(c)
                    if k not in seen:
                        seen.add(k)
                        cases.append(dict(c, key=k, domain=name))
            run.extra["model_verdicts"] = verdicts
            timing = {"tlc_model_s": round(time.time() - run.t0, 1)}
            for name, violated, c in cx:
                k = case_key(c)
                if k not in seen:
                    seen.add(k)
                    cases.append(dict(c, key=k, domain=name))
            # ---- replay every schedule on the real code ---------------------------------------------------------
            for w in warm:
                w.result()
            order = list(cases)
            rnd.shuffle(order)
            order.sort(key=lambda c: c["plan"]["op"] != "check")          # long ones first
            bs = 4
            futs = [pool.submit(c20_worker.run_batch, [{"plan": c["plan"], "intrs": c["intrs"], "key": c["key"]} for c in order[k:k + bs]]) for k in range(0, len(order), bs)]
            results = {}
            for f in futs:
                for r in f.result():
                    if "crash" in r:
                        die(f"C20: harness crashed on {r['plan']} {r['intrs']}:\n{r['crash']}")
                    results[r["key"]] = r
        finally:
            pool.shutdown(wait=True, cancel_futures=True)
        timing["replay_s"] = round(time.time() - run.t0 - timing["tlc_model_s"], 1)
        if len(results) != len(cases):
            die(f"C20: {len(cases)} schedules enumerated but {len(results)} executed")
        run.exhaustive = True
        per_domain = {}
        for c in cases:
            r = results[c["key"]]
            judge(run, r, c, c["domain"], stats)
            d = per_domain.setdefault(c["domain"], {"schedules": 0, "leaking_real": 0, "leaking_model": 0})
            d["schedules"] += 1
            d["leaking_real"] += bool([b for b in r["bad"] if b["clause"] != "lines"])
            d["leaking_model"] += not c["untouched"]
        run.extra["per_domain"] = per_domain
        for name, violated, c in cx:
            r = results[case_key(c)]
            ok = bool(r["bad"])
            run.note(f"domain {name}: TLC counterexample for {violated} (plan {an_name(c['plan'])} {c['plan']['op']} ref {c['plan']['ref1']}, interrupts {[(i['phase'], i['at']) for i in c['intrs']]}) "
                     + ("REPRODUCED on the real code: " + "; ".join(b["what"][:90] for b in r["bad"][:2]) if ok else "does NOT reproduce on the real code (model over-approximates)"))
        # ---- trace validation: the real executions are behaviours of the spec --------------------------------
        traces = [{"tid": f"t{k}", "src": "", "plan": results[c["key"]]["plan"], "init": results[c["key"]]["init"], "events": results[c["key"]]["events"]} for k, c in enumerate(cases)]
        selftest = corruptions(traces, rnd)
        verdict = validate_traces(run, traces + selftest, work, BASELINE, 1 if tier == "quick" else 6)
        timing["trace_tlc_s"] = round(time.time() - run.t0 - timing["tlc_model_s"] - timing["replay_s"], 1)
        run.extra["timing"] = timing
        rejected = [t for t in traces if verdict[t["tid"]][0] != verdict[t["tid"]][1]]
        if rejected:
            # diagnosis only: does the code behave like the pre-fix variant (no --force) again?  The verdict is
            # the terminal invariant on the real snapshots (judge), which reports the leak as a VIOLATION.
            v2 = validate_traces(run, rejected, work, REGRESSION, 2)
            old = [t for t in rejected if v2[t["tid"]][0] == v2[t["tid"]][1]]
            if old:
                run.note(f"REGRESSION: {len(old)} trace(s) are rejected by GitWorktree(Variant={BASELINE}) but accepted by GitWorktree(Variant={REGRESSION}): "
                         "the code behaves as before the `worktree remove --force` fix")
                run.extra["traces_accepted_by_regression_variant"] = len(old)
        run.extra["traces_accepted"] = len(traces) - len(rejected)
        run.extra["traces_rejected"] = len(rejected)
        for t in rejected[:5]:
            run.note(f"drift: trace of plan {t['plan']} rejected by Trace_GitWorktree: {describe_reject(verdict[t['tid']])}")
        stats["drift"] += len(rejected)
        if not selftest:
            run.note("binding self-test skipped: no complete trace to corrupt")
        for t in selftest:
            v = verdict[t["tid"]]
            vs = verdict[t["src"]]
            if v[0] == v[1] and vs[0] == vs[1]:
                die(f"C20: binding self-test failed: corrupted trace {t['tid']} was ACCEPTED by Trace_GitWorktree")
        run.extra["selftest_rejected"] = {t["tid"]: describe_reject(verdict[t["tid"]])[:200] for t in selftest}
        # vacuity: every action of the spec was matched by a real event in an accepted trace
        fired = set()
        for t in traces:
            if verdict[t["tid"]][0] == verdict[t["tid"]][1]:
                fired.update(e["ev"] for e in t["events"])
        missing = [a for a in ACTIONS if a not in fired]
        if missing and not rejected:
            die(f"C20: spec actions never exercised by an accepted real trace: {missing}")
        run.extra["drift"] = stats["drift"]
        run.extra["events_validated"] = sum(len(t["events"]) for t in traces)
    run.finish()
