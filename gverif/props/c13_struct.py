"""C13 binding: a structure (TLC CASE of a Doc*.tla module in "struct" mode) -> concrete docstring + documented object,
the exact values the property demands (derived from the generating structure `expect`), and the exact projection of
what the real parser returned.

`expect` / `sections` use the vocabulary of the spec (line indices, categories); the concrete strings come from the
spellings of the C12 concretisers (gverif/props/c12_<style>.py), restricted to their well-formed variants.
"""
from __future__ import annotations

import re
from pathlib import Path

from gverif.common import die

RET_KINDS = ("returns", "yields", "receives")


def join(lines: list) -> str:
    return "\n".join(lines).rstrip("\n")


def squash(text) -> str:
    return " ".join(str(text if text is not None else "").split())


class Binding:
    """Common part: parent construction from the `sig` flags of the case, exact projection of real sections."""

    variants: tuple = (0,)

    def __init__(self, griffe, st):
        self.g = griffe
        self.st = st
        self._cache: dict = {}

    # ---- the documented object ------------------------------------------------------------------------------------
    def name_of(self, parts: list, i: int) -> str:
        p = parts[i]
        return p.get("name") or (p.get("names") or [None])[0]

    def build_parent(self, case: dict, parts: list):
        """Returns (parent object, ann: {line: str}, dflt: {line: str}).  A class when an attribute annotation must come
        from the parent, a function otherwise."""
        expect = case["expect"]
        sig = case["sig"]
        params, attrs, ann, dflt = [], [], {}, {}
        ret = None
        wrap = case.get("wrap", "plain")
        for sec in expect:
            kind = sec["kind"]
            els = sec.get("items", [])
            if kind in ("parameters", "other_parameters"):
                for el in els:
                    i = el["first"]
                    nm = self.name_of(parts, i)
                    a = f"A{i}" if sig[i]["ann"] else None
                    d = f"'v{i}'" if sig[i]["def"] else None
                    if a is None and d is None and (i % 2):
                        continue          # the signature may simply not have the parameter
                    params.append(nm + (f": {a}" if a else "") + ((" = " if a else "=") + d if d else ""))
                    if a:
                        ann[i] = a
                    if d:
                        dflt[i] = d
            elif kind == "attributes":
                for el in els:
                    i = el["first"]
                    if sig[i]["ann"]:
                        attrs.append(f"    {self.name_of(parts, i)}: B{i} = 0")
                        ann[i] = f"B{i}"
            elif kind in RET_KINDS:
                idx = [el["first"] for el in els]
                if any(sig[i]["ann"] for i in idx):
                    slot = f"R{idx[0]}" if len(idx) == 1 else "tuple[" + ", ".join(f"R{i}" for i in idx) + "]"
                    for i in idx:
                        if sig[i]["ann"]:
                            ann[i] = f"R{i}"
                    ret = self.return_annotation(kind, slot, wrap)
                    ann["whole"] = ret
        # python needs defaults last
        params.sort(key=lambda s: "=" in s)
        src = ["from typing import Iterator, Generator", ""]
        rets = f" -> {ret}" if ret else ""
        if attrs:
            src += ["class K:", *attrs, f"    def __init__(self{''.join(', ' + p for p in params)}){rets}:", "        pass"]
            path = "K"
        else:
            src += [f"def f({', '.join(params)}){rets}:", "    pass"]
            path = "f"
        code = "\n".join(src) + "\n"
        mod = self._cache.get(code)
        if mod is None:
            try:
                compile(code, "<c13-parent>", "exec", dont_inherit=True)
            except SyntaxError as exc:
                die(f"C13: generated parent does not compile: {exc}\n{code}")
            mod = self.g.visit("m", filepath=Path("m.py"), code=code)
            if len(self._cache) > 20000:
                self._cache.clear()
            self._cache[code] = mod
        return mod[path], ann, dflt, code

    @staticmethod
    def return_annotation(kind: str, slot: str, wrap: str) -> str:
        """The return annotation of the documented object: `slot` is the part the section takes its types from."""
        if wrap == "plain":
            return slot
        if wrap == "iter":
            return f"Iterator[{slot}]"
        parts = {"yields": 0, "receives": 1, "returns": 2}
        elements = ["None", "None", "None"]
        elements[parts[kind]] = slot
        return "Generator[" + ", ".join(elements) + "]"

    # ---- exact projection of the real sections ---------------------------------------------------------------------------
    @staticmethod
    def actual(sections) -> list:
        out = []
        for s in sections:
            kind = s.kind.value.replace(" ", "_")
            rec = {"kind": kind, "title": s.title}
            if kind == "text":
                rec["text"] = s.value
            elif kind == "admonition":
                rec["text"] = s.value.description
                rec["admkind"] = s.value.annotation
            elif kind == "examples":
                rec["subs"] = [(k.value, t) for k, t in s.value]
            else:
                rec["items"] = [{"name": getattr(el, "name", None), "annotation": None if el.annotation is None else str(el.annotation),
                                 "value": None if getattr(el, "value", None) is None else str(el.value), "description": el.description} for el in s.value]
            out.append(rec)
        return out

    # ---- comparison: list of (field, cause, message) ------------------------------------------------------------------------
    def diff(self, actual: list, expected: list, ordered: bool = True) -> list:
        out = []
        ak, ek = [a["kind"] for a in actual], [e["kind"] for e in expected]
        if (ak != ek) if ordered else (sorted(ak) != sorted(ek)):
            return [("sections", "kinds", f"section kinds {ak} != written {ek}")]
        if not ordered:
            actual = sorted(actual, key=lambda a: a["kind"])
            expected = sorted(expected, key=lambda e: e["kind"])
        for j, (a, e) in enumerate(zip(actual, expected)):
            kind = e["kind"]
            if a["title"] != e["title"]:
                out.append((kind, "title", f"section {j} ({kind}) title {a['title']!r} != written {e['title']!r}"))
            for f in ("text", "admkind", "subs"):
                if f in e and self.norm_text(a.get(f)) != self.norm_text(e[f]):
                    cause = "trailing-newline" if isinstance(a.get(f), str) and a[f].rstrip("\n") == e[f] else f
                    out.append((kind, cause, f"section {j} ({kind}) {f} {a.get(f)!r} != written {e[f]!r}"))
            if "items" in e:
                if len(a["items"]) != len(e["items"]):
                    out.append((kind, "item-count", f"section {j} ({kind}) has {len(a['items'])} items, written {len(e['items'])}"))
                    continue
                prev = None
                for m, (ai, ei) in enumerate(zip(a["items"], e["items"])):
                    for f in ("name", "annotation", "value", "description"):
                        if f not in ei:
                            continue
                        av, ev = ai[f], ei[f]
                        if f == "description":
                            av, ev = self.norm_desc(av), self.norm_desc(ev)
                        if f == "annotation":
                            av, ev = (None if av is None else squash(av)), (None if ev is None else squash(ev))
                        if av != ev:
                            cause = f
                            if f == "description" and isinstance(ai[f], str) and ai[f] != ei[f] and ai[f].rstrip("\n") == ei[f]:
                                cause = "trailing-newline"
                            elif f == "annotation" and ev is None and prev is not None and av == prev:
                                cause = "previous-item-annotation"
                            elif f == "annotation" and ev is not None and av is not None and av == ei.get("sig_annotation"):
                                cause = "signature-over-written-" + ei.get("type_pos", "type")
                            out.append((kind, cause, f"section {j} ({kind}) item {m} {f} {ai[f]!r} != written {ei[f]!r}"))
                    prev = None if ai["annotation"] is None else squash(ai["annotation"])
        return out

    @staticmethod
    def norm_text(v):
        return v

    @staticmethod
    def norm_desc(v):
        return v


class GoogleBinding(Binding):
    variants = (0, 4, 6, 10)        # spellings without `, optional` and without an empty first description line

    def expected(self, case: dict, parts: list, ann: dict, dflt: dict) -> list:
        lines = case["lines"]
        out = []

        def dedent(i, n):
            t = parts[i]["text"]
            return t[n:] if t.strip() else ""

        for sec in case["expect"]:
            kind = sec["kind"]
            hdr = parts[sec["hdr"]] if sec["hdr"] >= 0 else {}
            title = {"none": None, "given": hdr.get("title"), "type": hdr.get("admtype")}[sec["title"]]
            rec = {"kind": kind, "title": title}
            if kind == "text":
                rec["text"] = join([parts[i]["text"] if parts[i]["text"].strip() else parts[i]["text"] for i in sec["tl"]])
            elif kind == "admonition":
                rec["text"] = join([dedent(i, 4) for i in sec["tl"]])
                rec["admkind"] = hdr["admtype"].lower().replace(" ", "-")
            elif kind == "examples":
                # trim_doctest_flags (documented option): console blocks lose `# doctest:` comments and `<BLANKLINE>` markers iff it is on
                trim = case["opts"].get("trim_doctest_flags", "T") != "F"

                def console(i):
                    t = dedent(i, 4)
                    if trim:
                        t = re.sub(r"^\s*<BLANKLINE>\s*$", "", re.sub(r"(\s*#\s*doctest:.+)$", "", t))
                    return t

                rec["subs"] = [(sub["kind"], "\n".join(console(i) for i in sub["tl"]) if sub["kind"] == "examples" else join([dedent(i, 4) for i in sub["tl"]]))
                               for sub in sec["subs"]]
            else:
                items = []
                for el in sec["items"]:
                    i = el["first"]
                    p = parts[i]
                    form = lines[i]["a"]
                    first = p["desc"] if el["d"] == "c" else p["text"].strip()
                    it = {"description": join([first] + [parts[b]["text"].strip() for b in el["body"]])}
                    if el["name"] != "-":
                        it["name"] = p["name"] if el["name"] == "n" else ""
                    if el["ann"] == "doc":
                        if kind in ("raises", "warns") or (kind in RET_KINDS and form == "F1"):
                            it["annotation"] = p["name"]
                        elif kind in ("functions", "classes"):
                            it["annotation"] = p["pre"]
                        else:
                            it["annotation"] = p["type"]
                    elif el["ann"] == "sig":
                        it["annotation"] = ann[i]
                    elif el["ann"] == "sigw":
                        it["annotation"] = ann["whole"]
                    elif el["ann"] == "none":
                        it["annotation"] = None
                    if el["dflt"] == "sig":
                        it["value"] = dflt[i]
                    elif el["dflt"] == "none":
                        it["value"] = None
                    items.append(it)
                rec["items"] = items
            out.append(rec)
        return out


class NumpyBinding(Binding):
    variants = (0, 4, 8)            # clean identifiers, exactly four spaces of indentation, the three `default` spellings

    def expected(self, case: dict, parts: list, ann: dict, dflt: dict) -> list:
        lines = case["lines"]
        out = []

        def body_line(i):
            t = parts[i]["text"]
            return t[4:] if t.strip() else ""

        def raw_line(i):
            t = parts[i]["text"]
            return t if t.strip() else ""

        for sec in case["expect"]:
            kind = sec["kind"]
            rec = {"kind": kind, "title": None}
            if kind == "text":
                rec["text"] = join([raw_line(i) for i in sec["tl"]])
            elif kind == "admonition":
                title = parts[sec["hdr"]]["text"]
                rec["title"] = title
                k = title.lower().replace(" ", "-")
                rec["admkind"] = k[:-1] if k in ("warnings", "notes") else k
                rec["text"] = join([raw_line(i) for i in sec["tl"]])
            elif kind == "examples":
                rec["subs"] = [(sub["kind"], join([raw_line(i) for i in sub["tl"]])) for sub in sec["subs"]]
            else:
                items = []
                for el in sec["items"]:
                    i = el["first"]
                    p = parts[i]
                    form = lines[i]["a"]
                    it = {"description": join([body_line(b) for b in el["body"]])}
                    if el["name"] != "-":
                        it["name"] = (p.get("names") or [""])[0] if el["name"] == "n" else ""
                    if el["ann"] == "doc":
                        it["annotation"] = p["type"]
                    elif el["ann"] == "l":
                        it["annotation"] = p["text"].strip()
                    elif el["ann"] == "sig":
                        it["annotation"] = ann[i]
                    elif el["ann"] == "none":
                        it["annotation"] = None
                    if el["dflt"] == "doc":
                        it["value"] = p["default"]
                    elif el["dflt"] == "sig":
                        it["value"] = dflt[i]
                    elif el["dflt"] == "none":
                        it["value"] = None
                    _ = form
                    items.append(it)
                rec["items"] = items
            out.append(rec)
        return out


class SphinxBinding(Binding):
    variants = tuple(range(12))

    @staticmethod
    def norm_desc(v):
        # the Sphinx parser joins the lines of a field with single spaces (reST paragraph): compared modulo white space
        return squash(v)

    def build_parent(self, case: dict, parts: list):
        # the names are x / y; the main field line of each documented parameter carries the sig flags
        return super().build_parent(case, parts)

    def expected(self, case: dict, parts: list, ann: dict, dflt: dict) -> list:
        out = []
        for sec in case["expect"]:
            kind = sec["kind"]
            rec = {"kind": kind, "title": None}
            if kind == "text":
                rec["text"] = join([parts[i]["text"] if parts[i]["text"].strip() else "" for i in sec["tl"]])
            else:
                items = []
                for el in sec["items"]:
                    i = el["first"]
                    p = parts[i]
                    it = {"description": " ".join([p["value"]] + [parts[b]["text"].strip() for b in el["body"]])}
                    if kind in ("parameters", "attributes"):
                        it["name"] = el["name"]
                    elif kind == "returns":
                        it["name"] = ""
                    if el["ann"] == "inline":
                        it["annotation"] = p["inline"] if kind != "raises" else el["name"]
                    elif el["ann"] == "field":
                        it["annotation"] = parts[el["tf"]]["value"].strip().replace(" or ", " | ")      # `A or B` is written back as `A | B`
                    elif el["ann"] == "sig":
                        it["annotation"] = ann[i]
                    elif el["ann"] == "none":
                        it["annotation"] = None
                    if kind == "parameters":
                        it["value"] = dflt.get(i) if el["dflt"] == "sig" else None
                    # not compared: what the signature holds and where the written type stands (they classify a difference)
                    it["sig_annotation"] = ann.get(i)
                    it["type_pos"] = "inline" if el["ann"] == "inline" else "none" if el["tf"] < 0 else "type-before" if el["tf"] < i else "type-after"
                    items.append(it)
                rec["items"] = items
            out.append(rec)
        return out
