"""C14 CPython oracle (runs in a subprocess): what the import system and pkgutil's package walker do
with a materialised layout.  stdin: JSON list of jobs {id, paths: [p1, p2], name, candidates: [dotted]};
stdout: JSON list {id, sys_path, top, walk, imp} with real paths (the parent maps them back).

sys.path is set to the given search paths; every one of them is treated as a site directory
(site.addsitedir), which is how Griffe treats its search paths (it reads the .pth files of every one)
and how CPython treats site-packages: .pth additions are appended after the existing entries.
"""
from __future__ import annotations

import importlib
import importlib.util
import json
import pkgutil
import site
import sys


def describe(spec):
    if spec is None:
        return {"kind": "none"}
    locs = list(spec.submodule_search_locations) if spec.submodule_search_locations is not None else None
    if locs is None:
        kind = "module"
    elif spec.origin is None or spec.loader is None or type(spec.loader).__name__ in ("NamespaceLoader", "_NamespaceLoader"):
        kind = "namespace"
    else:
        kind = "package"
    return {"kind": kind, "origin": spec.origin, "locations": locs, "loader": type(spec.loader).__name__ if spec.loader else None}


def purge(name):
    for k in [k for k in sys.modules if k == name or k.startswith(name + ".")]:
        del sys.modules[k]
    importlib.invalidate_caches()
    sys.path_importer_cache.clear()


def one(job, base_path):
    name = job["name"]
    purge(name)
    sys.path[:] = list(job["paths"])
    for p in job["paths"]:
        site.addsitedir(p)
    out = {"id": job["id"], "sys_path": list(sys.path)}
    sys.path.extend(base_path)   # stdlib last: needed by the import machinery itself, never shadows `name`
    try:
        top = importlib.util.find_spec(name)
    except Exception as exc:  # noqa: BLE001
        top = None
        out["top_error"] = repr(exc)
    out["top"] = describe(top)
    walk = []
    errors = []
    if top is not None and top.submodule_search_locations is not None:
        try:
            mod = importlib.import_module(name)
            for info in pkgutil.walk_packages(mod.__path__, name + ".", onerror=errors.append):
                walk.append([info.name, bool(info.ispkg)])
        except Exception as exc:  # noqa: BLE001
            out["walk_error"] = repr(exc)
    out["walk"] = walk
    out["walk_onerror"] = errors
    # after pkgutil-style extend_path ran, the live __path__ is what sub-imports use
    if name in sys.modules and hasattr(sys.modules[name], "__path__"):
        out["top"]["live_path"] = list(sys.modules[name].__path__)
    imp = {}
    for dotted in sorted(set(job["candidates"]) | {w[0] for w in walk}):
        try:
            imp[dotted] = describe(importlib.util.find_spec(dotted))
        except ModuleNotFoundError as exc:
            imp[dotted] = {"kind": "none", "why": str(exc)}
        except ImportError as exc:
            imp[dotted] = {"kind": "none", "why": "ImportError: " + str(exc)[:80], "broken_parent": True}
        except Exception as exc:  # noqa: BLE001
            imp[dotted] = {"kind": "error", "why": repr(exc)}
    out["imp"] = imp
    purge(name)
    return out


def main():
    jobs = json.load(sys.stdin)
    base_path = [p for p in sys.path if p]
    res = [one(job, base_path) for job in jobs]
    json.dump(res, sys.stdout)


if __name__ == "__main__":
    main()
