"""C08 - JSON serialisation round-trips without loss (spec/Serde.tla).

TLC decides, for every shape descriptor within the bounds (three parts: object-level lattice "shape", expression
trees "expr", parsed docstrings "doc"): Encode is total, Decode(Encode(d, minimal)) is defined, re-encoding the
decoded tree gives the same abstract JSON in minimal and full form, the decoded tree is equivalent, every name of
the reloaded expressions has the parent it had, expressions render the same.  Three domains per part:
  clean   - the literal clauses as INVARIANTs, must hold
  defect  - the complement: TLC must report a violation (the model exhibits the recorded defects)
  all     - invariant Characterisation (each clause fails exactly outside its declarative Clean-predicate);
            every descriptor is emitted as a CASE
Binding: every CASE is concretised as a real package (static / inspected with and without sources / namespace
package / CPython built-in module) that exhibits exactly that shape, and the real code is run on it:
   real vs property   as_json -> from_json -> as_json byte for byte (minimal, full), equivalent tree, canonical_path
                      and str() of every expression before/after, dump() and `python -m griffe dump` output
                      -> VIOLATION / KNOWN-FINDING
   real vs model      abstract JSON of the real dump = Encode(d), decode outcome = Decode, parents of the names
                      before/after = model, expression tree = MkExpr -> drift note (property still decided on the
                      real code); a concretiser that does not produce the described shape -> exit 2
"""
from __future__ import annotations

import concurrent.futures as cf
import json
import multiprocessing
import os
import random
import subprocess
import time

from gverif import tlc
from gverif.common import PY, SEED, child_env, die, ensure_repo, scratch
from gverif.harness import Run
from gverif.props import c08_pkg as P

CLAUSES = ["EncodeTotal", "DecodeDefined", "RoundTripMinimal", "RoundTripFull", "TreeEquivalent", "NamesResolveAsBefore", "ExpressionsSame"]
INV_CLAUSES = "\n".join("INVARIANT " + c for c in CLAUSES)
INV_ALL = "INVARIANT Characterisation"
ALL_ORIGINS = '{"static", "inspect_src", "inspect_nosrc", "builtin", "namespace"}'
ALL_SLOTS = ('{"class.bases", "class.decorator", "function.decorator", "function.param.annotation", "function.param.default", '
             '"function.returns", "attribute.value", "attribute.annotation"}')


def tset(xs) -> str:
    return "{" + ", ".join('"' + x + '"' for x in xs) + "}"


INV_COMBINED = INV_ALL + "\n" + "\n".join("INVARIANT Clean_" + c for c in CLAUSES)


def jobs(tier: str) -> list:
    """(label, module, cfg, constants, emits, expect_violation).

    `x/all` runs check, over the whole space, the characterisation AND the literal clauses restricted to the clean
    domain (Clean_<clause>), and emit every descriptor.  `x/clean` and `x/defect` run the clean and the defect
    domain as separate configurations (literal clauses as INVARIANTs: must hold / must be violated)."""
    out = []
    none = {"MAXSPINE": 0, "FULLDEPTH": 0, "SLOTSET": "{}", "SPINESLOTS": "{}", "DEEPLEAVES": "{}", "DOCORIGINS": "{}", "LATTICE": "small",
            "ORIGINS": '{"static"}'}

    def part(label, consts, domains=("all", "clean", "defect")):
        consts = dict(none, **consts)
        if "all" in domains:
            out.append((label + "/all", "Serde", "Serde.cfg", dict(consts, DOMAIN="all", EMIT="TRUE", INVARIANTS=INV_COMBINED), True, False))
        if "clean" in domains:
            out.append((label + "/clean", "Serde", "Serde.cfg", dict(consts, DOMAIN="clean", EMIT="FALSE", INVARIANTS=INV_CLAUSES), False, False))
        if "defect" in domains:
            out.append((label + "/defect", "Serde", "Serde.cfg", dict(consts, DOMAIN="defect", EMIT="FALSE", INVARIANTS=INV_CLAUSES), False, True))

    if tier == "quick":
        # one TLC run over the three parts: the object lattice (small) for the five origins; every step x every leaf in
        # every slot and pairs of core steps in two slots; every docstring section kind
        part("all-parts", {"PARTS": '{"shape", "expr", "doc"}', "ORIGINS": ALL_ORIGINS, "DOCORIGINS": '{"static", "inspect_nosrc"}',
                           "MAXSPINE": 2, "FULLDEPTH": 1, "SLOTSET": ALL_SLOTS, "SPINESLOTS": '{"function.returns", "attribute.value"}',
                           "DEEPLEAVES": '{"name", "attr2", "strattr"}'}, domains=("all",))
        part("shape", {"PARTS": '{"shape"}', "ORIGINS": '{"inspect_nosrc", "namespace"}'}, domains=("defect",))
    else:
        part("shape", {"PARTS": '{"shape"}', "ORIGINS": ALL_ORIGINS, "LATTICE": "large"})
        part("doc", {"PARTS": '{"doc"}', "ORIGINS": ALL_ORIGINS, "DOCORIGINS": '{"static", "inspect_src", "inspect_nosrc"}'})
        # spines of length <= 2 over all steps in every slot (one TLC run per slot keeps the case lists small),
        # length 3 over the core steps in `returns`
        slots = ["class.bases", "class.decorator", "function.decorator", "function.param.annotation", "function.param.default",
                 "function.returns", "attribute.value", "attribute.annotation"]
        for s in slots:
            part(f"expr2[{s}]", {"PARTS": '{"expr"}', "MAXSPINE": 2, "FULLDEPTH": 2, "SLOTSET": tset([s]), "SPINESLOTS": tset([s]),
                                 "DEEPLEAVES": tset(["name", "attr2", "attr3", "strattr", "str"])}, domains=("all",))
        # model-only regression domain: the decoder that does not load the members of functions must violate
        out.append(("regress-function-members", "Serde", "Serde_regress_members.cfg", {}, False, True))
        out.append(("regress-docstring-cleaned-again", "Serde", "Serde_regress_cleandoc.cfg", {}, False, True))
        part("expr3", {"PARTS": '{"expr"}', "MAXSPINE": 3, "FULLDEPTH": 2, "SLOTSET": '{"function.returns"}', "SPINESLOTS": '{"function.returns"}',
                       "DEEPLEAVES": '{"name", "attr2", "strattr"}'}, domains=("all", "clean"))   # (no defect is left in the expr part)
    return out


def run_tlc(job, workers):
    label, module, cfg, consts, emits, expect_violation = job
    res = tlc.run(module, cfg, workers=workers, constants=dict(consts), timeout=1700, heap="6g")
    return job, res


# ---------------------------------------------------------------------------------------------------
def uniq(items):
    out = []
    for x in items:
        if x not in out:
            out.append(x)
    return out


def canon(j):
    j = P.norm(j)

    def rec(j):
        if j.get("t") == "object" and "f" in j:
            return {"t": "object", "f": {k: rec(v) for k, v in j["f"].items()}}
        if j.get("t") == "array" and "items" in j:
            return {"t": "array", "items": uniq([rec(x) for x in j["items"]])}
        return j

    return rec(j)


UNATTACHED = {"bases", "annotation"}


def name_cause(slot: str, mb: dict | None, ma: dict | None, k: int) -> str:
    """Root-cause class of a changed name, from the model's prediction for that name (abstract vocabulary)."""
    if mb is None or k >= len(mb["pars"]):
        return "unpredicted"
    if ma is None or k >= len(ma["pars"]):
        # the model has no reloaded tree for this descriptor (it predicts that decoding fails): only the causes that
        # follow from the original tree alone can be named
        return "init-scope" if mb["scope"] == "init" else "slot-not-attached" if slot in UNATTACHED else "unpredicted"
    b, a = mb["pars"][k], ma["pars"][k]
    if b == a == "prev" and k > 0:
        # a link of an attribute chain resolves through the head of its chain
        return name_cause(slot, mb, ma, k - 1)
    if b == a and mb["scope"] == ma["scope"]:
        return "unpredicted"
    if b == a == "scope" and mb["scope"] == "init":
        return "init-scope"
    if slot in UNATTACHED:
        return "slot-not-attached"
    if b == "scope" and a == "none":
        return "below-first-layer"
    if b in ("prev", "none") and a == "scope":
        return "toplevel-attribute-chain"
    if b == "str":
        return "str-first-attribute"
    return f"{b}->{a}"


def sig_of(case: dict, **kw) -> dict:
    s = {"part": case["part"], "origin": case["origin"], "kind": case["kind"]}
    s.update(kw)
    return s


def judge(run: Run, case: dict, res: dict, stats: dict):
    """Compare one evaluated case with the property (violations) and with the model (drift)."""
    cid = P.case_id(case)
    rec = {"case": cid, "files": res.get("layout", {}).get("files"), "tlc_case": {k: case[k] for k in case if k not in ("enc", "tree")}}
    if res["error"]:
        die(f"C08: concretiser/harness failure on {cid}:\n{res['error']}")
    if res.get("runtime") is not None and case["kind"] != "root" and res["runtime"] != (case.get("guard", "none") in ("none", "stubsig")):
        die(f"C08: concretisation of {cid}: runtime={res['runtime']} but the descriptor's guard is {case.get('guard')}")
    dref = res.get("docref")
    if dref:
        if not dref["loaded_ok"]:
            die(f"C08: the docstring of {cid} was loaded as {dref['got']!r}, inspect.cleandoc says {dref['want']!r}")
        mj = case["enc"]["min"]
        for nm in res["layout"]["names"]:
            mj = mj["f"]["members"]["f"][nm if nm in mj["f"]["members"]["f"] else case["mname"]]
        if (mj["f"]["docstring"]["f"]["value"]["v"] == "fix") != dref["fixpoint"]:
            die(f"C08: Serde!CleanedOnce({case['dtext']}) disagrees with inspect.cleandoc on {dref['want']!r}")
    run.replayed()
    run.evaluated()
    nontrivial = case["part"] != "shape" or any(case[k] not in ("na", "none", "absent", "nopar", False, "x", "pkg", "container")
                                                for k in ("mname", "doc", "bases", "deco", "pann", "pdef", "pdoc", "ret", "val", "ann", "where", "alno", "resolved")) \
        or case["origin"] != "static"
    if nontrivial:
        run.nontrivial_case(json.dumps(cid, sort_keys=True))
    drift = []
    # concretiser validity: the kinds along the chain are those of the descriptor
    want_kinds = {"root": "module"}.get(case["kind"], case["kind"])
    if res["kinds"][-1] != want_kinds:
        die(f"C08: concretisation of {cid} has a {res['kinds'][-1]} where the descriptor has a {want_kinds}")

    # ---- Encode total ------------------------------------------------------------------------------
    for form in ("min", "full"):
        m, r = case["enc"][form], res["enc"][form]
        if not r["ok"]:
            field = m.get("key", "unpredicted") if m["t"] == "raise" else "unpredicted"
            shape = {"builtin": "built-in-module", "namespace": "namespace-cwd-elsewhere"}.get(case["origin"], case["origin"]) if m["t"] == "raise" else "unpredicted"
            run.violation(sig_of(case, clause="encode-total", form=form, field=field, shape=shape, exc=r["exc"]),
                          f"as_json({'full=True' if form == 'full' else ''}) raised {r['exc']}: {r['msg']} on {cid}", rec)
            stats["encode-raise"] += 1
            if m["t"] != "raise" or m["exc"] != r["exc"]:
                drift.append(f"enc.{form}: model {m.get('exc', 'ok')} real {r['exc']}")
        elif m["t"] == "raise":
            drift.append(f"enc.{form}: model raises {m['exc']}, real code does not")
        else:
            a, b = canon(m), canon(r["alpha"])
            if a != b:
                drift.append(f"enc.{form}: {P._first_diff(a, b)}")
    if not res["enc"]["min"]["ok"]:
        return _finish(run, case, drift, stats)

    # ---- Decode defined ----------------------------------------------------------------------------
    md, rd = case["dec"], res["dec"]
    if not rd["ok"]:
        predicted = (not md["ok"]) and md["exc"] == rd["exc"] and (md["key"] == rd["key"] or (md["key"] == "members:kind" and rd["key"] == "name"))
        field = md["key"] if predicted else rd["key"]
        okind = md["kind"] if predicted else "unpredicted"
        run.violation(sig_of(case, clause="decode-defined", field=field, object=okind, exc=rd["exc"]),
                      f"from_json(as_json()) raised {rd['exc']}: {rd['msg']} on {cid}", rec)
        stats["decode-raise"] += 1
        if not predicted:
            drift.append(f"dec: model {md} real {rd}")
        return _finish(run, case, drift, stats)
    if not md["ok"]:
        drift.append(f"dec: model predicts {md['exc']}({md['key']}), real code decodes")

    # ---- the full form loaded back ------------------------------------------------------------------
    df = res.get("decfull")
    if df is not None:
        if not df["ok"]:
            run.violation(sig_of(case, clause="reload-full-form", field=df["key"], exc=df["exc"]),
                          f"from_json(as_json(full=True)) raised {df['exc']}: {df['msg']} on {cid}", rec)
            stats["reload-full-raise"] += 1
        if df["ok"] != case["decfull"]:
            drift.append(f"reload of the full form: model {case['decfull']} real {df}")

    # ---- identical JSON in both forms --------------------------------------------------------------
    for form in ("min", "full"):
        same = res["same"].get(form)
        if same is None:
            continue
        if not same:
            diff = res["same"].get(form + "_diff") or ""
            lost_members = "key disappears" in diff and ".members." in diff and any(d[1] == "<object>" and d[4] in ("function", "attribute") for d in res["tree_diff"])
            field = "docstring.parsed" if ".parsed" in diff else "members" if lost_members else (diff.split(":")[0].split(".")[-1].split("[")[0] or "?")
            run.violation(sig_of(case, clause="roundtrip", form=form, field=field,
                                 shape="docstring-parser-configured" if case["doc"] == "google" else "members-of-function" if lost_members else "other"),
                          f"as_json({form}) differs after reload on {cid}: {diff}", rec)
            stats["roundtrip-" + form] += 1
        if md["ok"] and same != case["same"][form]:
            drift.append(f"same.{form}: model {case['same'][form]} real {same}")

    # ---- equivalent tree ---------------------------------------------------------------------------
    for okind, field, cls, path, parent in res["tree_diff"]:
        if cls == "data":
            run.violation(sig_of(case, clause="tree-equal", object=okind, field=field,
                                 shape="members-of-function" if field == "<object>" and parent in ("function", "attribute") else "other"),
                          f"{okind} {path}: field {field} differs after reload on {cid}", rec)
            stats["tree-equal"] += 1

    # ---- names resolve as before, expressions render the same ----------------------------------------
    if res["names_after"] is None:
        # the focus is gone (reported by tree-equal / roundtrip above): no reloaded expressions to compare
        if md["ok"] and case["clean"]["members"]:
            drift.append("the focus object is lost on reload, the model keeps it")
        return _finish(run, case, drift, stats)
    if md["ok"] and not case["clean"]["members"]:
        drift.append("the model predicts that the focus object is lost on reload, the real code keeps it")
    nb, na = res["names_before"], res["names_after"]
    mb, ma = case["names"]["before"], case["names"]["after"]
    strip = lambda xs: [{k: x[k] for k in ("slot", "pars", "scope")} for x in xs]  # noqa: E731
    if strip(nb) != mb:
        die(f"C08: concretisation of {cid} does not have the expression parents of the descriptor:\n real {strip(nb)}\n spec {mb}\n{res['layout']['files']}")
    if md["ok"] and strip(na) != ma:
        drift.append(f"names.after: model {ma} real {strip(na)}")
    if case["part"] == "expr" and P.norm_tree(case["tree"]) != res["tree"]:
        die(f"C08: concretisation of {cid} is not the expression tree of the descriptor:\n real {json.dumps(res['tree'])[:600]}\n spec {json.dumps(P.norm_tree(case['tree']))[:600]}")
    for i, before in enumerate(nb):
        after = na[i] if i < len(na) else None
        if after is None or after["slot"] != before["slot"] or len(after["paths"]) != len(before["paths"]):
            run.violation(sig_of(case, clause="names-resolve", slot=before["slot"], cause="names-disappeared"),
                          f"{before['slot']}: names {before['paths']} -> {after and after['paths']} on {cid}", rec)
            continue
        pm_b = mb[i] if i < len(mb) else None
        pm_a = ma[i] if md["ok"] and i < len(ma) else None
        causes = set()
        for k, (p, q) in enumerate(zip(before["paths"], after["paths"])):
            if p != q:
                causes.add(name_cause(before["slot"], pm_b, pm_a, k))
        for cause in sorted(causes):
            run.violation(sig_of(case, clause="names-resolve", slot=before["slot"], cause=cause),
                          f"{before['slot']} `{before['str']}`: canonical paths {before['paths']} -> {after['paths']} after reload ({cause}) on {cid}", rec)
            stats["names-" + cause] += 1
        if before["str"] != after["str"]:
            cause = "lambda-parameter-kind" if md["ok"] and not case["render"] else "unpredicted"
            run.violation(sig_of(case, clause="expr-render", slot=before["slot"], cause=cause),
                          f"{before['slot']}: `{before['str']}` renders as `{after['str']}` after reload on {cid}", rec)
            stats["render"] += 1
    if md["ok"]:
        real_render = all(b["str"] == a["str"] for b, a in zip(nb, na))
        if real_render != case["render"]:
            drift.append(f"render: model {case['render']} real {real_render}")

    # ---- dump() ------------------------------------------------------------------------------------
    for form, d in (res.get("dump") or {}).items():
        bad = d.get("same") is False or (d.get("raised") is not None) != d.get("expected_raise", False) or d.get("rc", 0) != 0
        if bad:
            run.violation(sig_of(case, clause="dump-equals", form=form, how="function"),
                          f"griffe.dump(full={form == 'full'}) does not emit as_json of the package on {cid}: {d}", rec)
            stats["dump"] += 1
        else:
            stats["dump-ok"] += 1
    return _finish(run, case, drift, stats)


def _finish(run, case, drift, stats):
    if drift:
        stats["drift"] += 1
        if stats["drift"] <= 5:
            run.note(f"model drift on {P.case_id(case)}: {drift[:3]}")
    return None


# ---------------------------------------------------------------------------------------------------
def cli_case(args):
    """Runs in a worker: one SerdeCli.tla case = one real `python -m griffe dump REQ1 REQ2 [options]`.  The two
    packages are concretised shape descriptors; the requests are spelled in the form of the case (by name with -s,
    by directory path relative to the cwd, by dotted path of a member); the emitted document / files are compared
    with the spec (which entries) and with as_json of each package (their content)."""
    import griffe  # noqa: PLC0415
    import re  # noqa: PLC0415

    cc, cases, base, num = args
    how = f"cli:{cc['form']}:{cc['out']}:{cc['agent']}"
    form_txt = "full" if cc["full"] else "min"
    out = {"how": how, "form": form_txt, "n": len(cases), "problems": [], "cmd": None}
    work = os.path.join(base, f"cli_{num}")
    src = os.path.join(work, "src")
    os.makedirs(src, exist_ok=True)
    lays = []
    for pos, (_i, c) in enumerate(cases):
        # fresh package names: this worker may have imported the package of the same descriptor from another directory
        lay = P.layout(c, 1_000_000 + 100 * num + pos)
        if cc["form"] == "file":       # a single-file top-level module: <pkg>.py instead of <pkg>/__init__.py
            lay["files"] = {f"{lay['pkg']}.py": text for _rel, text in lay["files"].items()}
        for rel, text in lay["files"].items():
            p = os.path.join(src, rel)
            os.makedirs(os.path.dirname(p), exist_ok=True)
            with open(p, "w") as fh:
                fh.write(text)
        lays.append(lay)
    pkgs = [lay["pkg"] for lay in lays]
    if cc["form"] == "name":
        requests, search = pkgs, ["-s", src]
    elif cc["form"] == "path":
        requests, search = [os.path.join("src", p) for p in pkgs], []          # relative to the cwd, no search path
    elif cc["form"] == "file":
        requests, search = [os.path.join("src", p + ".py") for p in pkgs], []
    else:
        requests, search = [".".join([lay["pkg"], *lay["real_names"]]) for lay in lays], ["-s", src]
    flags = (["-f"] if cc["full"] else []) + {"static": [], "static-resolved": ["-r", "-I"], "inspect": ["-x"]}[cc["agent"]]
    # -P: as the installed `griffe` script, without the cwd on sys.path (else `src/p` is found as member of a namespace package `src`)
    cmd = [PY, "-P", "-m", "griffe", "dump", *requests, *search, "-L", "CRITICAL", *flags]
    outfile = None
    if cc["out"] == "files":
        outfile = os.path.join(work, "out_{package}.json")
        cmd += ["-o", outfile]
    out["cmd"] = " ".join(cmd)
    proc = subprocess.run(cmd, capture_output=True, text=True, cwd=work, env=child_env(), timeout=900, check=False)
    if proc.returncode != 0:
        out["problems"].append(f"exit status {proc.returncode}: {proc.stderr[-400:]}")
        return out
    cwd0 = os.getcwd()
    os.chdir(work)
    try:
        expected = {}
        loader = griffe.GriffeLoader(search_paths=[src], force_inspection=cc["agent"] == "inspect", store_source=False)
        for lay in lays:
            loader.load(lay["pkg"])
        if cc["agent"] == "static-resolved":
            loader.resolve_aliases(implicit=True, external=None)
        for lay in lays:
            expected[lay["pkg"]] = loader.modules_collection.members[lay["pkg"]].as_json(full=cc["full"])
    finally:
        os.chdir(cwd0)
    # which entries: the spec's `keys` (p1, p2 stand for the two packages)
    want_keys = sorted(pkgs[int(k[1:]) - 1] for k in cc["keys"])
    mask = (lambda t: re.sub(r"0x[0-9a-f]+", "0x?", t)) if cc["agent"] == "inspect" else (lambda t: t)   # addresses in reprs differ between processes
    if outfile:
        got_keys = sorted(f[4:-5] for f in os.listdir(work) if f.startswith("out_") and f.endswith(".json"))
        if got_keys != want_keys:
            out["problems"].append(f"files for {got_keys}, requested {want_keys}")
        for pkg in got_keys:
            if pkg in expected:
                with open(outfile.format(package=pkg)) as fh:
                    got = fh.read().rstrip("\n")
                want = json.dumps(json.loads(expected[pkg]), indent=2, sort_keys=True)
                if mask(got) != mask(want):
                    out["problems"].append(f"{pkg}: file differs: {_diff_text(want, got)}")
    else:
        got = proc.stdout.rstrip("\n")
        try:
            got_keys = sorted(json.loads(got))
        except Exception as exc:  # noqa: BLE001
            out["problems"].append(f"unparsable output: {exc}")
            return out
        if got_keys != want_keys:
            out["problems"].append(f"entries {got_keys}, requested {want_keys}")
        elif mask(got) != mask(P.canonical_dump(expected)):
            out["problems"].append(f"stdout differs: {_diff_text(P.canonical_dump(expected), got)}")
    return out


def _diff_text(want: str, got: str) -> str:
    try:
        return str(P._first_diff(json.loads(want), json.loads(got)))
    except Exception as exc:  # noqa: BLE001
        return f"unparsable output ({exc}): {got[:200]!r}"


def replay_cases(run: Run, cases: list, stats: dict, base: str, pool, cli_n: int):
    chunks = []
    numbered = list(enumerate(cases, start=stats["next_idx"]))
    stats["next_idx"] += len(cases)
    size = 40
    # dump() is independent of the expression shapes: checked on every shape/doc descriptor, on 1 in 8 of the others
    for i in range(0, len(numbered), size):
        chunk = numbered[i:i + size]
        flags = {"want_c08": True, "want_c09": False, "want_dump": chunk[0][1]["part"] != "expr" or (i // size) % 8 == 0}
        chunks.append((chunk, base, None, flags))
    by_idx = dict(numbered)
    for results in pool.map(P.evaluate_chunk, chunks):
        for res in results:
            case = by_idx[res["idx"]]
            judge(run, case, res, stats)
            if res["error"] is None:
                run.sample({"case": P.case_id(case), "files": res["layout"]["files"], "dec": res.get("dec"), "same": res.get("same")})
    # ---- the command line: every case of SerdeCli.tla on two concretised packages ---------------------------------
    if cli_n and stats.get("cli_cases"):
        rnd = random.Random(SEED)
        jobs_ = []
        for num, cc in enumerate(stats["cli_cases"]):
            origins = ("inspect_nosrc",) if cc["agent"] == "inspect" else ("static",)
            pool_cases = [(i, c) for i, c in numbered if c["origin"] in origins and c["part"] == "shape" and c["cwdrel"] and c["kind"] != "root"
                          and c["enc"]["full"]["t"] != "raise" and not P.patched(c) and c["guard"] != "stub"]
            if cc["form"] == "dotted":  # the member must exist when the loader looks it up: the __init__ synthesised by the
                # dataclasses extension appears only afterwards (on_package_loaded), `griffe dump pkg.H.__init__` is a KeyError
                pool_cases = [(i, c) for i, c in pool_cases if c["host"] != "dataclass"]
            if cc["form"] == "file":    # packages that consist of their __init__ module only
                pool_cases = [(i, c) for i, c in pool_cases if c["kind"] not in ("module", "alias")]
            if len(pool_cases) < 2:
                continue
            jobs_.append((cc, rnd.sample(pool_cases, 2), base, num))
        for out in pool.map(cli_case, jobs_):
            stats["cli-packages"] += out["n"]
            stats["cli-invocations"] += 1
            run.replayed()
            run.evaluated(out["n"])
            for prob in out["problems"]:
                run.violation({"part": "cli", "clause": "dump-equals", "form": out["form"], "how": out["how"]},
                              f"`{out['cmd']}`: {prob}", {"cmd": out["cmd"], "how": out["how"]})
        stats["cli_cases"] = None


def vacuity(cases: list):
    """Every dimension of the case space and both outcomes of every clause must occur in what TLC enumerated."""
    import griffe  # noqa: PLC0415

    def seen(f):
        return {json.dumps(f(c), sort_keys=True) for c in cases}

    problems = []
    if seen(lambda c: c["part"]) != {'"shape"', '"expr"', '"doc"'}:
        problems.append("parts")
    if seen(lambda c: c["origin"]) != {json.dumps(o) for o in ("static", "inspect_src", "inspect_nosrc", "builtin", "namespace")}:
        problems.append("origins")
    for flag in ("encode", "names", "full"):      # (decode, render, members: no failing shape is left since the fixes)
        if {c["clean"][flag] for c in cases} != {True, False}:
            problems.append(f"clean.{flag} takes one value only")
    steps = {s for c in cases for s in c["spine"]}
    if steps != set(P.STEP_TMPL):
        problems.append(f"steps never used / unknown: {sorted(steps ^ set(P.STEP_TMPL))}")
    if {c["leaf"] for c in cases if c["part"] == "expr"} != set(P.LEAF_SRC):
        problems.append("leaves")
    if len({c["slot"] for c in cases if c["part"] == "expr"}) != 8:
        problems.append("slots")
    if {c["section"] for c in cases if c["part"] == "doc"} != set(P.GOOGLE):
        problems.append("docstring sections")
    if not any(c["dec"]["ok"] and not c["same"]["full"] for c in cases):
        problems.append("full-form differences")
    if problems:
        die(f"C08: vacuous enumeration: {problems}")
    # the expression classes the templates do not build (model table vs the real module)
    built = {"Expr" + s.split(".")[0].split("/")[0] for s in P.STEP_TMPL} | {"Expr" + x.split(".")[0] for s in P.STEP_TMPL for x in s.split("/")[1:]} \
        | {"ExprName", "ExprAttribute", "ExprParameter"}
    real = {n for n in dir(griffe) if n.startswith("Expr") and isinstance(getattr(griffe, n), type) and n != "Expr"}
    return sorted(real - built), sorted(built - real)


def main(tier: str, replay: str | None = None):
    ensure_repo()
    run = Run("C08", tier)
    run.rule = ("Serde.tla descriptors: part shape = origin x kind x host x member name x docstring x kind-specific optional fields; "
                "part expr = slot x spine of expression classes x leaf; part doc = kind x docstring section with a parser configured. "
                "Non-trivial = any descriptor other than the all-defaults static one (an optional field in a non-default alternative, a "
                "non-static origin, or any expr/doc descriptor); distinct by descriptor.")
    import collections  # noqa: PLC0415

    stats: dict = collections.Counter()
    stats["next_idx"] = 1
    t0 = time.time()
    # the command-line clause: SerdeCli.tla enumerates the invocations (request form x full x output x agent)
    cli_inv = "INVARIANT DumpSucceeds\nINVARIANT EachRequestedPackage\nINVARIANT NothingElse"
    cli_agents = '{"static", "static-resolved", "inspect"}'
    rc = tlc.must(tlc.run("SerdeCli", "SerdeCli.cfg", constants={"FORMS": '{"name", "path", "dotted"}', "AGENTS": cli_agents, "KEYRULE": "registered",
                                                                  "EMIT": "TRUE", "INVARIANTS": cli_inv}))
    run.add_tlc(rc)
    if len(rc.cases) != 36:
        die(f"C08: SerdeCli.tla emitted {len(rc.cases)} invocations, expected 36")
    # defect domain: a single-file module requested by the path of its file (recorded finding); enumerated without the
    # invariants (TLC would stop at the first case), the model must predict the failure in every case
    rf = tlc.must(tlc.run("SerdeCli", "SerdeCli.cfg", constants={"FORMS": '{"file"}', "AGENTS": '{"static"}', "KEYRULE": "registered", "EMIT": "TRUE",
                                                                  "INVARIANTS": ""}))
    run.add_tlc(rf)
    if len(rf.cases) != 4 or not all(c["exc"] == "KeyError" for c in rf.cases):
        die("C08: SerdeCli.tla no longer exhibits the failure of requests by module file path")
    stats["cli_cases"] = rc.cases + rf.cases
    if tier == "thorough":
        # model-only regression domain: keeping only the entries named like the request text loses path requests
        rr = tlc.must(tlc.run("SerdeCli", "SerdeCli.cfg", constants={"FORMS": '{"name", "path", "dotted"}', "AGENTS": '{"static"}', "KEYRULE": "request-prefix",
                                                                      "EMIT": "FALSE", "INVARIANTS": cli_inv}), allow_violations=True)
        run.add_tlc(rr)
        if "EachRequestedPackage" not in rr.violated:
            die("C08: SerdeCli.tla with KeyRule = request-prefix no longer violates EachRequestedPackage")
        rd = tlc.must(tlc.run("SerdeCli", "SerdeCli.cfg", constants={"FORMS": '{"file"}', "AGENTS": '{"static"}', "KEYRULE": "registered", "EMIT": "FALSE",
                                                                      "INVARIANTS": cli_inv}), allow_violations=True)
        run.add_tlc(rd)
        if "DumpSucceeds" not in rd.violated:
            die("C08: SerdeCli.tla, requests by file: DumpSucceeds is no longer violated")
    ncpu = os.cpu_count() or 4
    nproc = max(2, min(12, ncpu - 2))
    ctx = multiprocessing.get_context("fork")

    if replay:
        with open(replay) as fh:
            stored = json.load(fh)
        print(stored["what"])
        tc = (stored.get("case") or {}).get("tlc_case")
        main_job = jobs("quick")[0]
        if tc is None:
            # a command-line finding: re-run the CLI batches
            tc_cases = []
        else:
            # the stored record lacks the abstract documents: re-enumerate the neighbourhood and pick the descriptor
            consts = dict(main_job[3], PARTS=tset([tc["part"]]))
            if tc["part"] == "expr":
                consts.update(MAXSPINE=max(1, len(tc["spine"])), FULLDEPTH=3, SLOTSET=tset([tc["slot"]]), SPINESLOTS=tset([tc["slot"]]),
                              DEEPLEAVES=tset([tc["leaf"]]))
            elif tc["part"] == "shape":
                consts.update(LATTICE="large", ORIGINS=tset([tc["origin"]]))
            else:
                consts.update(DOCORIGINS=tset([tc["origin"]]))
            _j, res2 = run_tlc((main_job[0], main_job[1], main_job[2], consts, True, False), 8)
            tlc.must(res2, allow_violations=True)
            run.add_tlc(res2)
            want = P.case_id(tc)
            tc_cases = [c for c in res2.cases if P.case_id(c) == want]
            if not tc_cases:
                die(f"C08 replay: descriptor {want} is not in the enumerated space")
        with scratch("c08-") as base, cf.ProcessPoolExecutor(max_workers=2, mp_context=ctx) as pool:
            if tc_cases:
                replay_cases(run, tc_cases, stats, base, pool, 0)
            else:
                _j, res3 = run_tlc((main_job[0], main_job[1], main_job[2], dict(main_job[3], PARTS='{"shape"}'), True, False), 8)
                tlc.must(res3)
                run.add_tlc(res3)
                replay_cases(run, res3.cases, stats, base, pool, 6)
        run.finish()

    all_jobs = jobs(tier)
    par = 4 if tier == "quick" else 3
    wk = max(2, (ncpu - 2) // par)
    counts = {}
    slim = []   # what the vacuity check needs of every descriptor (the case lists themselves are dropped after their replay)
    with scratch("c08-") as base, cf.ProcessPoolExecutor(max_workers=nproc, mp_context=ctx) as pool:
        list(pool.map(int, range(nproc)))        # fork the workers now, before the TLC threads exist
        with cf.ThreadPoolExecutor(max_workers=par) as tp:
            # TLC: several runs at once; each result is replayed as soon as it is complete (in job order)
            for job, res in tp.map(lambda j: run_tlc(j, wk), all_jobs):
                label, _m, _c, _k, emits, expect_violation = job
                run.add_tlc(res)
                if expect_violation:
                    tlc.must(res, allow_violations=True)
                    if not res.violated:
                        die(f"C08: the defect domain {label} violates no clause any more: Serde.tla no longer exhibits the recorded defects")
                    run.extra.setdefault("defect_domain_violates", {})[label] = res.violated
                else:
                    tlc.must(res)
                if emits:
                    if not res.cases:
                        die(f"C08: {label} emitted no case")
                    counts[label] = len(res.cases)
                    slim += [{k: c[k] for k in ("part", "origin", "clean", "spine", "leaf", "slot", "section", "dec", "same", "render")} for c in res.cases]
                    replay_cases(run, res.cases, stats, base, pool, (6 if tier == "quick" else 25) if label.startswith(("shape", "all-parts")) else 0)
                res.cases = []
    run.extra["tlc_and_replay_wall_s"] = round(time.time() - t0, 1)
    run.exhaustive = True
    unmodelled, unknown = vacuity(slim)
    if unknown:
        die(f"C08: Serde.tla builds expression classes the working tree does not have: {unknown}")
    if unmodelled != ["ExprConstant", "ExprExtSlice"]:
        run.note(f"expression classes without a template in Serde.tla: {unmodelled} (expected: ExprConstant, ExprExtSlice - never instantiated on 3.12)")
    run.extra["expression_classes_not_modelled"] = unmodelled
    # vacuity: every clause must have been exercised, every origin and kind replayed
    need = {"dump-ok", "cli-packages", "cli-invocations"}
    missing = [k for k in need if not stats[k]]
    if missing:
        die(f"C08: vacuous run, never observed: {missing}")
    stats.pop("next_idx", None)
    stats.pop("cli_cases", None)
    run.extra["cases_per_part"] = counts
    run.extra["observations"] = dict(stats)
    run.finish()
