"""X01 - replay of the cases of spec/ExtVisit.tla on the real Extension.visit / generic_visit / inspect /
generic_inspect (runs in the worker).

agent "visit":   the abstract tree becomes real `ast` nodes.  Kinds k1, k2, k3 are ClassDef, FunctionDef, If; the children
                 are spread over the AST fields in field order (ClassDef: first child in `bases`, the rest in `body`;
                 FunctionDef: all in `body`; If: first child is `test`, second in `body`, the rest in `orelse`), so that
                 single-node fields and list fields are both walked.  CPython's ast.iter_child_nodes must give the
                 children back in the abstract order (else the concretisation is wrong -> machinery error).
agent "inspect": object nodes are stand-ins with the public attributes the helpers read (`kind` = a real
                 griffe.ObjectKind, `children`, `alias_target_path`); kinds k1, k2, k3 are MODULE, CLASS, FUNCTION.
The subclass of griffe.Extension defines visit_<kind> / inspect_<kind> for the kinds whose mode is not "none".
"""
from __future__ import annotations

import ast

AST_KINDS = {"k1": ast.ClassDef, "k2": ast.FunctionDef, "k3": ast.If}
OBJ_KINDS = {"k1": "MODULE", "k2": "CLASS", "k3": "FUNCTION"}


class FakeObjectNode:
    def __init__(self, kind, index, aliased):
        self.kind = kind
        self.x01 = index
        self.name = f"n{index}"
        self.children = []
        self.alias_target_path = f"elsewhere.n{index}" if aliased else None


def build_ast(case: dict):
    nodes = {}
    kids = {i: [j for j in range(1, case["n"] + 1) if case["parent"][j - 1] == i] for i in range(1, case["n"] + 1)}
    for i in range(case["n"], 0, -1):
        cls = AST_KINDS[case["kind"][i - 1]]
        ch = [nodes[j] for j in kids[i]]
        if cls is ast.ClassDef:
            node = cls(name=f"n{i}", bases=ch[:1], keywords=[], body=ch[1:], decorator_list=[])
        elif cls is ast.FunctionDef:
            node = cls(name=f"n{i}", body=ch, decorator_list=[])
        else:
            node = cls(body=ch[1:2], orelse=ch[2:])
            if ch:
                node.test = ch[0]
        node.x01 = i
        nodes[i] = node
    for i, node in nodes.items():
        if [c.x01 for c in ast.iter_child_nodes(node)] != kids[i]:
            raise AssertionError(f"concretisation: CPython children of node {i} are {[c.x01 for c in ast.iter_child_nodes(node)]}, abstract {kids[i]}")
    return nodes[1]


def build_objects(griffe, case: dict):
    nodes = {}
    for i in range(1, case["n"] + 1):
        nodes[i] = FakeObjectNode(getattr(griffe.ObjectKind, OBJ_KINDS[case["kind"][i - 1]]), i, i in case["alias"])
        p = case["parent"][i - 1]
        if p:
            nodes[p].children.append(nodes[i])
    return nodes[1]


def make_extension(griffe, case: dict, log: list):
    prefix, generic = ("visit_", "generic_visit") if case["agent"] == "visit" else ("inspect_", "generic_inspect")
    names = {k: v.__name__.lower() for k, v in AST_KINDS.items()} if case["agent"] == "visit" else {k: str(getattr(griffe.ObjectKind, v).value) for k, v in OBJ_KINDS.items()}

    def hook(mode):
        def stop(self, node):
            log.append(node.x01)

        def descend(self, node):
            log.append(node.x01)
            getattr(self, generic)(node)

        def post(self, node):
            getattr(self, generic)(node)
            log.append(node.x01)

        return {"stop": stop, "descend": descend, "post": post}[mode]

    body = {prefix + names[k]: hook(mode) for k, mode in case["handlers"].items() if mode != "none"}
    return type("X01Walker", (griffe.Extension,), body)()


def run_case(griffe, case: dict) -> dict:
    log: list = []
    ext = make_extension(griffe, case, log)
    root = build_ast(case) if case["agent"] == "visit" else build_objects(griffe, case)
    method = {("visit", "node"): "visit", ("visit", "generic"): "generic_visit", ("inspect", "node"): "inspect", ("inspect", "generic"): "generic_inspect"}[case["agent"], case["entry"]]
    try:
        getattr(ext, method)(root)
    except Exception as exc:  # noqa: BLE001
        return {"status": f"{type(exc).__name__}: {exc}"[:200], "log": log, "stand_in": case["agent"] == "inspect" and isinstance(exc, AttributeError) and "FakeObjectNode" in str(exc)}
    return {"status": "ok", "log": log}
