"""C14 helpers: abstract layout (spec/Finder.tla vocabulary) -> files on disk; real Griffe run under a
TLC-chosen directory listing order; projection of the loaded tree onto the spec's vocabulary.

Abstract vocabulary (shared with Finder.tla):
  * a layout is `files`: {"1": [relpath, ...], "2": [...], "3": [...]}; a relpath is a list of abstract
    names, e.g. ["pkg", "s", "x.py"].  Directories exist exactly as prefixes of files.
  * abstract file names are tokens; the ones that are not literal file names:
        "X.so"          -> X + EXTENSION_SUFFIXES[0]   (fake, never importable)
        "__init__.py!"  -> __init__.py with pkgutil-style `extend_path` content
        "c14.pth"       -> .pth file whose single line names search path 3 ("pthform": abs | rel)
  * a file id is [path index, relpath]; a listing is {"<p>/<dir relpath joined by />": {"files": [...], "dirs": [...]}}
    giving, for the directories whose order TLC chose, the order in which a directory listing must report
    the (abstract) file names and sub-directory names.
"""
from __future__ import annotations

import contextlib
import importlib.machinery
import importlib.util
import os
import shutil
import sys
from pathlib import Path

EXT = importlib.machinery.EXTENSION_SUFFIXES[0]
PKGUTIL = '__path__ = __import__("pkgutil").extend_path(__path__, __name__)\n'
PTH = "c14.pth"


def real_extension(name: str) -> str:
    """File of the stdlib extension module `name` (family ext: copied as <name>/__init__.<abi>.so, so that CPython and an
    inspecting Griffe can really import the compiled sub-package)."""
    spec = importlib.util.find_spec(name)
    if spec is None or not spec.origin or not spec.origin.endswith(EXT):
        raise RuntimeError(f"no ABI-tagged stdlib extension module {name} in this interpreter")
    return spec.origin


def real_name(tok: str) -> str:
    if tok.endswith(".so"):
        return tok[: -len(".so")] + EXT
    if tok == "__init__.py!":
        return "__init__.py"
    return tok


def abs_name(name: str) -> str:
    """Inverse of real_name as far as the projection needs it (pkgutil-style inits project to __init__.py)."""
    if name.endswith(EXT):
        return name[: -len(EXT)] + ".so"
    return name


def ident(pidx: int, rel: list) -> str:
    return f"{pidx}_" + "_S_".join(t.replace(".", "_D_").replace("-", "_H_").replace("!", "") for t in rel)


def content(tok: str, rel: list, pidx: int = 0) -> str:
    """Tiny bodies.  Every source file defines one attribute named after itself, every stub file declares
    one: after stub merging the members of a module tell which files contributed to it."""
    if tok == "__init__.py!":
        return PKGUTIL + f"SRC_{ident(pidx, rel)} = 1\n"
    if tok.endswith(".pyi"):
        return f"STUB_{ident(pidx, rel)}: int\n"
    if tok.endswith(".py"):
        return f"SRC_{ident(pidx, rel)} = 1\n"
    if tok.endswith(".txt"):
        return "data\n"
    return "\x7fELF-not-really\n"


class Layout:
    """A materialised layout: root/p1, root/p2, root/p3."""

    def __init__(self, root: str, case: dict):
        self.root = Path(root).resolve()
        self.case = case
        self.paths = {i: self.root / f"p{i}" for i in (1, 2, 3)}
        files = case["files"]
        self.idents: dict = {}
        for i in (1, 2, 3):
            rels = files.get(str(i), [])
            if i < 3 or rels or case.get("pth", 0):
                self.paths[i].mkdir(parents=True, exist_ok=True)
            for rel in rels:
                target = self.paths[i].joinpath(*[real_name(t) for t in rel])
                target.parent.mkdir(parents=True, exist_ok=True)
                if rel[-1] == PTH:
                    line = str(self.paths[3]) if case.get("pthform", "abs") == "abs" else os.path.join("..", "p3")
                    target.write_text("# c14\n\n" + line + "\n")
                elif rel[-1] == "__init__.so":
                    shutil.copy(real_extension(rel[-2]), target)      # a real extension module: importable as <pkg>.<dir name>
                elif rel[-1].endswith(".pyc"):
                    target.write_bytes(b"\x00\x00\x00\x00")
                else:
                    target.write_text(content(rel[-1], rel, i))
                    self.idents[ident(i, rel)] = [i, [("__init__.py" if t == "__init__.py!" else t) for t in rel]]

    def search_paths(self) -> list:
        """What the user passes: p1, p2 (p3 is reachable through the .pth file only); with given = only1 / only2 just
        that one (the other is reached through a request by the path of its package directory)."""
        given = self.case.get("given", "both")
        if given == "only1":
            return [str(self.paths[1])]
        if given == "only2":
            return [str(self.paths[2])]
        return [str(self.paths[1]), str(self.paths[2])]

    def reference_paths(self) -> list:
        """sys.path for the CPython oracle: the parent of a directory requested from outside the search paths comes first."""
        if self.case.get("given", "both") == "only1":
            return [str(self.paths[2]), str(self.paths[1])]
        return [str(self.paths[1]), str(self.paths[2])]

    def fid(self, p) -> list | None:
        """Real path -> abstract file id [path index, relpath] (None when outside the layout)."""
        p = Path(p)
        for i in (1, 2, 3):
            try:
                rel = p.relative_to(self.paths[i])
            except ValueError:
                continue
            return [i, [abs_name(x) for x in rel.parts]]
        return None

    def dirkey(self, p) -> str | None:
        f = self.fid(p)
        if f is None:
            return None
        return "/".join([str(f[0]), *f[1]])


class _ScandirResult:
    """What os.scandir returns (iterator + context manager + close), over an already ordered list of DirEntry."""

    def __init__(self, entries: list):
        self._it = iter(entries)

    def __iter__(self):
        return self

    def __next__(self):
        return next(self._it)

    def __enter__(self):
        return self

    def __exit__(self, *exc):
        self.close()

    def close(self):
        self._it = iter(())


@contextlib.contextmanager
def listing_order(layout: Layout, listing: dict, flip_unlisted: bool = False):
    """Make the interpreter report directory entries in the order TLC chose, whatever enumeration primitive the
    code under test uses: `os.scandir` and `os.listdir` are wrapped (in CPython 3.12 `os.walk` is built on
    `os.scandir`, `Path.iterdir`/`glob` on `os.listdir`/`os.scandir`).  Only directories inside the layout are
    touched.  One listing = TLC's order of the files, then TLC's order of the sub-directories (sub-directories first
    when `flip_unlisted`); directories without a chosen order are reported sorted (reversed when `flip_unlisted`),
    never in raw OS order, so that every run is reproducible.  Yields the log of the directories listed."""
    real_scandir = os.scandir
    real_listdir = os.listdir
    log = []

    def arrange(key, names, kind):
        want = (listing.get(key) or {}).get(kind)
        names = sorted(names, reverse=flip_unlisted)
        if want is None:
            return names
        pos = {real_name(t): n for n, t in enumerate(want)}
        return sorted(names, key=lambda x: (pos.get(x, len(pos)), x))

    def ordered(path, entries: dict) -> list | None:
        """entries: name -> is_dir.  None when `path` is outside the layout (leave the OS order alone)."""
        try:
            key = layout.dirkey(os.path.abspath(os.fsdecode(path)))
        except (TypeError, ValueError):
            return None
        if key is None:
            return None
        files = arrange(key, [n for n, d in entries.items() if not d], "files")
        dirs = arrange(key, [n for n, d in entries.items() if d], "dirs")
        log.append((key, dirs, files))
        return (dirs + files) if flip_unlisted else (files + dirs)

    def scandir(path="."):
        if isinstance(path, int):
            return real_scandir(path)
        with real_scandir(path) as it:
            entries = list(it)
        byname = {e.name: e for e in entries}
        order = ordered(path, {e.name: e.is_dir() for e in entries}) if not isinstance(path, bytes) else None
        return _ScandirResult(entries if order is None else [byname[n] for n in order])

    def listdir(path="."):
        names = real_listdir(path)
        if isinstance(path, (int, bytes)):
            return names
        try:
            base = os.fsdecode(path)
            order = ordered(path, {n: os.path.isdir(os.path.join(base, n)) for n in names})
        except TypeError:
            order = None
        return names if order is None else order

    os.scandir = scandir
    os.listdir = listdir
    try:
        yield log
    finally:
        os.scandir = real_scandir
        os.listdir = real_listdir


def not_injected(listing: dict, log: list, tree: list) -> list:
    """Directories whose order TLC chose (>= 2 files or >= 2 sub-directories) and from which a module *was* loaded
    (so the finder enumerated them) although none of the wrapped primitives listed them: the injection did not
    reach the code there (another enumeration primitive is in use)."""
    seen = {key for key, _d, _f in log}
    used = {"/".join([str(f[0]), *f[1][:-1]]) for n in tree for f in n["files"] if f and not n["ns"]}
    return sorted(k for k, ent in listing.items()
                  if (len(ent.get("files", [])) > 1 or len(ent.get("dirs", [])) > 1) and k in used and k not in seen)


def classify(mod) -> str:
    flags = (mod.is_package, mod.is_subpackage, mod.is_namespace_package, mod.is_namespace_subpackage)
    names = ("package", "subpackage", "namespace", "namespace-sub")
    on = [n for n, f in zip(names, flags) if f]
    if len(on) > 1:
        return "+".join(on)
    return on[0] if on else "module"


def project(layout: Layout, top) -> list:
    """Loaded tree -> sorted list of nodes {path, files, cls, init} over the spec's vocabulary."""
    out = []

    def walk(mod, parts, depth):
        fp = mod._filepath
        files = [layout.fid(f) for f in fp] if isinstance(fp, list) else [layout.fid(fp) if fp is not None else None]
        contrib = sorted(layout.idents.get(n.split("_", 1)[1]) or [0, [n]] for n in mod.members if n.startswith(("SRC_", "STUB_")))
        node = {"path": parts, "files": files, "cls": classify(mod), "init": bool(mod.is_init_module), "ns": isinstance(fp, list), "contrib": contrib}
        if mod.path != ".".join(parts):
            node["bad_path"] = mod.path
        out.append(node)
        if depth > 6:
            return
        for name, member in mod.members.items():
            if not member.is_alias and member.is_module:
                walk(member, [*parts, name], depth + 1)

    walk(top, [top.name], 0)
    out.sort(key=lambda n: n["path"])
    return out


def run_griffe(griffe, layout: Layout, listing: dict, request: str, *, find_stubs: bool = False, flip: bool = False, name: str = "pkg", inspect: bool = False) -> dict:
    """One real load.  request: "name" | "dotted:<x.y>" | "path<i>" | "spath<i>" (str path) | "file<i>:<tok>"."""
    out = {"outcome": "ok", "tree": [], "json": None, "search_paths": None}
    with listing_order(layout, listing, flip) as log:
        try:
            loader = griffe.GriffeLoader(search_paths=layout.search_paths(), allow_inspection=inspect)
            if request == "name":
                spec = name
            elif request.startswith("dotted:"):
                spec = request.split(":", 1)[1]
            elif request.startswith("path"):
                spec = layout.paths[int(request[4:])] / name
            elif request.startswith("spath"):
                spec = str(layout.paths[int(request[5:])] / name)
            elif request.startswith("file"):
                idx, tok = request[4:].split(":", 1)
                spec = layout.paths[int(idx)] / real_name(tok)
            else:
                raise ValueError(request)
            try:
                loader.load(spec, find_stubs_package=find_stubs)
            except KeyError as exc:
                # the package was loaded; the requested *member* does not exist (dotted request)
                out["member_missing"] = str(exc)
            out["search_paths"] = [layout.fid(p) or str(p) for p in loader.finder.search_paths]
            if name not in loader.modules_collection.members:
                out["outcome"] = "NotInCollection:" + ",".join(sorted(loader.modules_collection.members))
            else:
                top = loader.modules_collection.members[name]
                out["tree"] = project(layout, top)
                try:
                    out["json"] = top.as_json(sort_keys=True, full=False)
                except Exception as exc:  # noqa: BLE001
                    out["json"] = f"<as_json raised {type(exc).__name__}>"
        except ModuleNotFoundError:
            out["outcome"] = "ModuleNotFoundError"
        except FileNotFoundError:
            out["outcome"] = "FileNotFoundError"
        except griffe.LoadingError as exc:
            out["outcome"] = "LoadingError"
            out["detail"] = str(exc)
        except Exception as exc:  # noqa: BLE001
            out["outcome"] = "Other:" + type(exc).__name__
            out["detail"] = repr(exc)
    if inspect:      # inspection imports for real: forget the modules of this layout
        for k in [k for k in sys.modules if k == name or k.startswith(name + ".")]:
            del sys.modules[k]
        importlib.invalidate_caches()
    out["walked"] = len(log)
    out["not_injected"] = not_injected(listing, log, out["tree"])
    return out
