"""Sphinx style: concretiser, classifier (with the field table of the working tree), projections for spec/DocSphinx.tla."""
from __future__ import annotations

from gverif.common import die
from gverif.props.c12_common import norm_lines, norm_list

TYPES = ["int", "list[str]", "Foo or None", "a.b.C"]


def squash(text: str | None) -> str:
    return " ".join((text or "").split())


class Sphinx:
    style = "sphinx"
    module = "DocSphinx"

    ORDER = ["type", "param", "vartype", "var", "raises", "returns", "rtype"]     # DocSphinx.tla: first match wins (prefix match)

    def __init__(self, griffe):
        from gverif.props.c12_probe import probe_sphinx_fields  # noqa: PLC0415

        self.griffe = griffe
        self.fields = probe_sphinx_fields(griffe)           # PROBED through the public parser at check time
        missing = [fk for fk in self.ORDER if not self.fields.get(fk)]
        if missing:
            die(f"sphinx: the parser accepts no field name for {missing} (probed {self.fields})")

    def first_match(self, line: str):
        for fk in self.ORDER:
            if any(line.startswith(f":{name}") for name in self.fields[fk]):
                return fk
        return None

    # ---- concretiser -----------------------------------------------------------------------------------------
    def spell(self, ln: dict, i: int, v: int) -> dict:
        k = ln["k"]
        if k == "blank":
            return {"text": ("", "", "   ")[v % 3]}
        if k == "text":
            if ln["sh"] == "colon":
                return {"text": [f"see: d{i}", f"a: b: d{i}", f"http://d{i}"][v % 3]}
            return {"text": [f"alpha d{i} beta", f"Ünï d{i} — x", f"d{i}"][v % 3]}
        if k == "cont":
            if ln["sh"] == "role":
                return {"text": [f"    :class:`Beta{i}` that is d{i}", f"  :func:`pkg.f{i}` returns d{i}", f"        :py:obj:`x{i}`"][v % 3]}
            if ln["sh"] == "colon":
                return {"text": [f"  :param y: fake d{i}", f"        deep d{i} :", f"    see: d{i}"][v % 3]}
            return {"text": [f"    more d{i}", f"  d{i}", f"        deep d{i}"][v % 3]}
        if k == "other":
            return {"text": [f":foo: d{i}", f":meta d{i}", f":: d{i}"][v % 3]}
        fk, sh, nm = ln["fk"], ln["sh"], ln["nm"]
        names = self.fields[fk]
        f = names[(v + i) % len(names)]
        typ = TYPES[(v + i) % len(TYPES)]
        is_type = fk in ("type", "vartype", "rtype")
        value = typ if is_type else f"d{i} words"
        if sh == "bare":
            text, name, inline = f":{f}: {value}", None, None
        elif sh == "name":
            text, name, inline = f":{f} {nm}: {value}", nm, None
        elif sh == "typed":
            text, name, inline = f":{f} {typ.split(' ')[0]} {nm}: {value}", nm, typ.split(" ")[0]
        elif sh == "long":
            text, name, inline = f":{f} a b {nm}: {value}", nm, None
        elif sh == "empty":
            text, name, inline = f":{f} : {value}", "", None
        elif sh == "open":
            text, name, inline = f":{f} {nm} {value.replace(' or ', ' ')}", nm, None
        else:
            raise ValueError(ln)
        return {"text": text, "name": name, "inline": inline, "value": value if sh != "open" else None, "fk": fk}

    def concretise(self, lines: list, v: int, wf: bool = False) -> tuple[str, list]:
        """wf: well-formed rendering (C13): blank lines are really empty."""
        parts = [self.spell(ln, i, v) for i, ln in enumerate(lines)]
        if wf:
            for p, ln in zip(parts, lines):
                if ln["k"] == "blank":
                    p["text"] = ""
        if len(parts) == 1 and not parts[0]["text"].strip():
            parts[0]["text"] = ""          # the empty docstring
        return "\n".join(p["text"] for p in parts), parts

    # ---- classifier ------------------------------------------------------------------------------------------
    def classify(self, line: str) -> dict:
        none = {"fk": "-", "sh": "-", "nm": "-"}
        if not line or line.isspace():
            return {"k": "blank", **none}
        fk = self.first_match(line)
        if fk is None:
            if line.startswith(":"):
                return {"k": "other", **none}
            import re  # noqa: PLC0415

            if line.startswith(" ") and re.match(r"^ +:[\w:]+:`", line):
                return {"k": "cont", "fk": "-", "sh": "role", "nm": "-"}
            return {"k": "cont" if line.startswith(" ") else "text", "fk": "-", "sh": "colon" if ":" in line else "-", "nm": "-"}
        try:
            _, directive, _value = line.split(":", 2)
        except ValueError:
            parts = line[1:].split(" ")
            return {"k": "field", "fk": fk, "sh": "open", "nm": parts[1] if len(parts) > 1 else "-"}
        parts = directive.split(" ")
        if len(parts) == 1:
            return {"k": "field", "fk": fk, "sh": "bare", "nm": "-"}
        if len(parts) == 2:
            return {"k": "field", "fk": fk, "sh": "empty" if parts[1] == "" else "name", "nm": parts[1] or "-"}
        if len(parts) == 3:
            return {"k": "field", "fk": fk, "sh": "typed", "nm": parts[2]}
        return {"k": "field", "fk": fk, "sh": "long", "nm": parts[-1]}

    def long_alphabet(self) -> list:
        none = {"fk": "-", "sh": "-", "nm": "-"}
        out = [{"k": k, **none} for k in ("blank", "text", "cont", "other")] + [{"k": k, "fk": "-", "sh": "colon", "nm": "-"} for k in ("text", "cont")] + [{"k": "cont", "fk": "-", "sh": "role", "nm": "-"}]
        for fk in self.fields:
            out.append({"k": "field", "fk": fk, "sh": "bare", "nm": "-"})
            out.append({"k": "field", "fk": fk, "sh": "empty", "nm": "-"})
            for nm in ("x", "y"):
                for sh in ("name", "typed", "long", "open"):
                    out.append({"k": "field", "fk": fk, "sh": sh, "nm": nm})
        return out

    # ---- behaviour of the real parser on one spelling (public API only) ---------------------------------------------
    def behaves_as(self, ln: dict, p: dict) -> str | None:
        D = self.griffe.Docstring
        text, k = p["text"], ln["k"]

        def parse(doc):
            return D(doc).parse("sphinx")

        if k == "blank":
            return None if not text.strip() else "not blank"
        if k in ("text", "other"):
            secs = parse(f"{text}\nend")
            ok = [s.kind.value for s in secs] == ["text"] and secs[0].value == f"{text}\nend"
            return None if ok else f"parser gives {[(s.kind.value, s.value) for s in secs]}"
        if k == "cont":        # consolidated into the field above, never a field itself
            secs = parse(f"S.\n:returns: d\n{text}")
            ok = [s.kind.value for s in secs] == ["text", "returns"] and secs[1].value[0].description == "d " + text.lstrip()
            return None if ok else f"parser gives {[(s.kind.value, s.value if isinstance(s.value, str) else [e.description for e in s.value]) for s in secs]}"
        fk, sh, nm = ln["fk"], ln["sh"], p.get("name")
        main = {"param": "parameters", "var": "attributes", "raises": "raises", "returns": "returns"}
        if fk in main:
            secs = parse(f"S.\n{text}")
            got = [s.kind.value for s in secs]
            produces = (sh in ("name", "typed", "empty") if fk == "param" else sh in ("name", "empty") if fk in ("var", "raises") else sh != "open")
            if got != (["text", main[fk]] if produces else ["text"]):
                return f"parser gives {got}, class says {'a ' + main[fk] + ' section' if produces else 'nothing'}"
            if produces:
                el = secs[1].value[0]
                if fk in ("param", "var") and el.name != nm:
                    return f"name {el.name!r}, class says {nm!r}"
                if fk == "raises" and str(el.annotation) != nm:
                    return f"exception {el.annotation!r}, class says {nm!r}"
                if fk == "param" and sh == "typed" and str(el.annotation) != p["inline"]:
                    return f"annotation {el.annotation!r}, class says {p['inline']!r}"
                if el.description != p["value"]:
                    return f"description {el.description!r}, class says {p['value']!r}"
            return None
        # type fields: attach their value to the parameter / attribute / return value documented above
        target = {"type": ":param x: d", "vartype": ":var x: d", "rtype": ":returns: d"}[fk]
        secs = parse(f"S.\n{target}\n{text}")
        el = secs[1].value[0]
        applies = sh != "open" and (fk == "rtype" or (sh == "name" and nm == "x"))
        want = p["value"].replace(" or ", " | ") if applies else None
        got = None if el.annotation is None else str(el.annotation)
        return None if got == want else f"annotation {got!r}, class says {want!r}"

    def check_classifier(self):
        """Every spelling of every class classifies back to the class, and the PARSER (public API) treats it as that class."""
        n = 0
        for ln in self.long_alphabet():
            for v in range(12):
                for i in (0, 3, 11):
                    p = self.spell(ln, i, v)
                    got = self.classify(p["text"])
                    n += 1
                    if got != ln:
                        die(f"sphinx classifier: spelling {p['text']!r} of class {ln} classifies as {got}")
                    if i == 3:
                        diff = self.behaves_as(ln, p)
                        if diff:
                            die(f"sphinx classifier: the parser does not treat {p['text']!r} as class {ln}: {diff}")
        return n

    @staticmethod
    def can_be_first(c: dict) -> bool:
        return c["k"] not in ("blank", "cont")

    @staticmethod
    def can_be_last(c: dict) -> bool:
        return c["k"] != "blank"

    @staticmethod
    def make_fixed_point(lines: list) -> list:
        if len(lines) > 1 and not any(c["k"] not in ("blank", "cont") for c in lines[1:]):
            lines = list(lines)
            lines[1 + (len(lines) - 1) // 2] = {"k": "text", "fk": "-", "sh": "-", "nm": "-"}
        return lines

    @staticmethod
    def code(lines: list) -> str:
        return " ".join(c["k"][0] if c["k"] != "field" else f"{c['fk']}.{c['sh']}.{c['nm']}" for c in lines)

    @staticmethod
    def no_syntax(lines: list) -> bool:
        return all(ln["k"] != "field" for ln in lines)

    @staticmethod
    def summary_altered(lines: list, options: dict, parent: str) -> bool:  # noqa: ARG004
        return False

    # ---- projections ------------------------------------------------------------------------------------------
    def project_real(self, sections) -> list:
        out = []
        for s in sections:
            kind = s.kind.value
            rec = {"kind": kind, "title": s.title}
            if kind == "text":
                rec["lines"] = norm_lines(s.value)
            else:
                rec["items"] = [{"name": getattr(el, "name", None), "ann": el.annotation, "value": getattr(el, "value", None), "desc": squash(el.description)} for el in s.value]
            out.append(rec)
        return out

    def project_spec(self, case_sections: list, parts: list, flags: dict | None = None) -> list:  # noqa: ARG002
        out = []
        for s in case_sections:
            rec = {"kind": s["kind"], "title": None}
            if s["kind"] == "text":
                rec["lines"] = norm_list([parts[i]["text"] for i in s["tl"]])
            else:
                items = []
                for el in s["items"]:
                    p = parts[el["first"]]
                    # the value of the consolidated line (what follows its second colon)
                    whole = " ".join([p["text"].lstrip()] + [parts[i]["text"].lstrip() for i in el["body"]])
                    desc = squash(whole.split(":", 2)[2]) if whole.count(":") >= 2 else ""
                    tfv = None
                    if el["tf"] >= 0:     # the type field consolidates its own continuation lines too
                        k = el["tf"] + 1
                        extra = []
                        while k < len(parts) and not parts[k]["text"].startswith(":"):
                            extra.append(parts[k]["text"].lstrip())
                            k += 1
                        whole = " ".join([parts[el["tf"]]["text"].lstrip()] + extra)
                        tfv = squash(whole.split(":", 2)[2]) if whole.count(":") >= 2 else ""
                    items.append({"desc": desc, "name": el["name"], "ann": el["ann"], "tf": tfv, "dflt": el["dflt"], "first": p})
                rec["items"] = items
            out.append(rec)
        return out

    @staticmethod
    def compare(real: list, spec: list) -> tuple[str | None, str | None]:
        if [r["kind"] for r in real] != [s["kind"] for s in spec]:
            return f"section kinds {[r['kind'] for r in real]} != spec {[s['kind'] for s in spec]}", None
        soft = None
        for j, (r, s) in enumerate(zip(real, spec)):
            if r["title"] is not None:
                return f"section {j} has a title {r['title']!r}", None
            if "lines" in s and r["lines"] != s["lines"]:
                return f"section {j} (text) lines {r['lines']} != spec {s['lines']}", None
            if "items" in s:
                if len(r["items"]) != len(s["items"]):
                    return f"section {j} ({r['kind']}) has {len(r['items'])} items, spec {len(s['items'])}", None
                for m, (ri, si) in enumerate(zip(r["items"], s["items"])):
                    if ri["desc"] != si["desc"]:
                        return f"section {j} ({r['kind']}) item {m} description {ri['desc']!r} != spec {si['desc']!r}", None
                    p = si["first"]
                    if r["kind"] in ("parameters", "attributes") and ri["name"] != si["name"]:
                        soft = soft or f"section {j} item {m} name {ri['name']!r} != spec {si['name']!r}"
                    a, an = ri["ann"], si["ann"]
                    if an == "none" and a is not None:
                        soft = soft or f"section {j} item {m} annotation {a!r}, spec says none"
                    if an == "inline" and str(a) != (p["inline"] if r["kind"] != "raises" else si["name"]):
                        soft = soft or f"section {j} item {m} annotation {a!r}, spec says the inline one"
                    if an == "field" and squash(str(a)) != squash((si["tf"] or "").replace(" or ", " | ")):
                        soft = soft or f"section {j} item {m} annotation {a!r}, spec says the one of the type field ({si['tf']!r})"
        return None, soft
