"""X06 - `griffe dump` and global options: concretiser (abstract argv of spec/Cli.tla -> command line), projection of a real
run onto the spec's vocabulary, and the judge (real vs Ref -> verdict, real vs Impl -> drift)."""
from __future__ import annotations

import json
import os
import re

from gverif.props import x06_worker as K
from gverif.props import x06_world as W

OUT_ARG = {"file": "out.json", "tmpl": "d_{package}.json", "escaped": "o{{x}}.json", "badfield": "o{x}.json", "badbrace": "o{.json"}
DOCOPTS = {"ok": {"returns_named_value": False}}
EXT_ARG = {"file": "ext.py", "cls": "ext.py:Tag", "opts": '[{"ext.py": {"tag": "t1"}}]', "builtin": "dataclasses", "two": "ext.py,dataclasses",
           "missing": "x06_no_such_extension"}
EXT_API = {"none": [], "file": ["ext.py"], "cls": ["ext.py:Tag"], "opts": [{"ext.py": {"tag": "t1"}}], "builtin": ["dataclasses"],
           "two": ["ext.py", "dataclasses"], "missing": ["x06_no_such_extension"]}
LEVEL_ARG = {"debug": "debug", "INFO": "INFO", "Warning": "Warning", "ERROR": "ERROR", "CRITICAL": "CRITICAL", "bad": "nope"}
LEVELNO = {"DEBUG": 10, "INFO": 20, "WARNING": 30, "ERROR": 40, "CRITICAL": 50}
RE_ADDR = re.compile(r"0x[0-9a-fA-F]{6,}")
RE_REC = re.compile(r"^(DEBUG|INFO|WARNING|ERROR|CRITICAL)\s+(.*)$")


def _opt(short: str, long: str, value: str | None, v: int) -> list:
    """one of the spellings argparse accepts: -s v | --long v | -sv | --long=v"""
    if value is None:
        return [short if v % 2 == 0 else long]
    return [[short, value], [long, value], [short + value], [long + "=" + value]][v % 4]


def argv_of(a: dict, variant: int = 0) -> list:
    g = a["glob"]
    if g == "help":
        return [["-h"], ["--help"]][variant % 2]
    if g == "version":
        return [["-V"], ["--version"]][variant % 2]
    if g == "debuginfo":
        return ["--debug-info"]
    if g == "nocmd":
        return []
    if g == "badcmd":
        return ["frob", "pa"]
    if g == "subhelp":
        return ["dump", ["-h", "--help"][variant % 2]]
    v = variant
    opts: list = []
    for d in {"none": [], "src": ["src"], "alt": ["alt"], "src.alt": ["src", "alt"], "alt.src": ["alt", "src"]}[a["search"]]:
        opts += _opt("-s", "--search", d, v)
    if a["y"]:
        opts += _opt("-y", "--sys-path", None, v)
    if a["out"] != "stdout":
        opts += _opt("-o", "--output", OUT_ARG[a["out"]], v + 1)
    if a["full"]:
        opts += _opt("-f", "--full", None, v)
    if a["doc"] != "none":
        opts += _opt("-d", "--docstyle", "nope" if a["doc"] == "bad" else a["doc"], v + 2)
    if a["dopt"] != "none":
        opts += _opt("-D", "--docopts", "{bad" if a["dopt"] == "bad" else json.dumps(DOCOPTS[a["dopt"]]), v + 3)
    if a["r"] and a["I"] and v % 3 == 0:
        opts += ["-rI"]
    else:
        opts += _opt("-r", "--resolve-aliases", None, v) if a["r"] else []
        opts += _opt("-I", "--resolve-implicit", None, v + 1) if a["I"] else []
    for e in ([] if a["ext"] == "unset" else a["ext"].split(".")):
        opts += _opt("-U", "--resolve-external", None, v) if e == "U" else ["--no-resolve-external"]
    if a["e"] != "none":
        opts += _opt("-e", "--extensions", EXT_ARG[a["e"]], v + 1)
    opts += {"default": [], "X": _opt("-X", "--no-inspection", None, v), "x": _opt("-x", "--force-inspection", None, v),
             "Xx": ["-Xx"] if v % 2 else ["-X", "-x"]}[a["insp"]]
    if a["B"]:
        opts += _opt("-B", "--find-stubs-packages", None, v)
    if a["S"]:
        opts += _opt("-S", "--stats", None, v + 1)
    if a["L"] != "unset":
        opts += _opt("-L", "--log-level", LEVEL_ARG[a["L"]], v + 2)
    if g == "unknownopt":
        opts += ["--x06-nope"]
    pk = [] if g == "nopkgs" else [W.arg_of(t) for t in a["pk"]]
    return ["dump", *pk, *opts] if v % 2 == 0 else ["dump", *opts, *pk]


def api_plan(plan: dict) -> dict:
    """the loader plan decided by the spec, in the values of the public API"""
    return {
        "exts": EXT_API[plan["exts"]], "search": list(plan["search"]), "syspath": plan["syspath"],
        "parser": None if plan["parser"] in ("none", "bad") else plan["parser"], "docopts": DOCOPTS.get(plan["docopts"]) or {},
        "allow_inspection": plan["allow"], "force_inspection": plan["force"], "stubs": plan["stubs"],
        "loads": [W.arg_of(t) for t in plan["loads"]], "resolve": plan["resolve"], "implicit": plan["implicit"],
        "external": {"T": True, "F": False, "N": None}[plan["external"]], "full": plan["full"],
    }


def _classify(text: str):
    """(form, keys) of a JSON text written by dump: joint = {name: module...}, bare = one module"""
    try:
        data = json.loads(text)
    except ValueError:
        return "text", []
    if isinstance(data, dict) and data.get("kind") == "module" and isinstance(data.get("name"), str):
        return "bare", [data["name"]]
    if isinstance(data, dict) and all(isinstance(v, dict) and v.get("kind") == "module" and v.get("name") == k for k, v in data.items()):
        return "joint", sorted(data)
    return "text", []


def project(obs: dict) -> dict:
    """real observation -> vocabulary of the spec (writes as sorted tuples (to, name, form, pkgs))"""
    writes = []
    if obs["stdout"]:
        form, keys = _classify(obs["stdout"])
        writes.append(("stdout", "", form, tuple(keys)))
    for rel, text in obs["files"].items():
        form, keys = _classify(text)
        if rel == "out.json":
            writes.append(("file", "", form, tuple(keys)))
        elif rel == "o{x}.json":
            writes.append(("escfile", "", form, tuple(keys)))
        elif rel.startswith("d_") and rel.endswith(".json") and os.sep not in rel:
            writes.append(("perpkg", rel[2:-5], form, tuple(keys)))
        else:
            writes.append(("other:" + rel, "", form, tuple(keys)))
    recs = [(m.group(1), m.group(2)) for m in map(RE_REC.match, obs["stderr"].splitlines()) if m]
    status = obs["status"].split(":")[0]
    return {"exit": obs["rc"], "status": {"return": "return", "exit": "sysexit", "exc": "exc", "proc": "proc"}[status], "writes": sorted(writes), "records": recs,
            "exception": obs["status"].split(":")[1] if status == "exc" else ""}


def spec_writes(ws: list) -> list:
    top = W.top_of
    return sorted((w["to"], top(w["name"]) if w["name"] else "", w["form"], tuple(sorted(top(p) for p in w["pkgs"]))) for w in ws)


_ORACLE: dict = {}


def oracle(root: str, plan: dict, sp: list) -> dict:
    ap = api_plan(plan)
    key = json.dumps(ap, sort_keys=True)
    if key not in _ORACLE:
        if len(_ORACLE) > 4000:
            _ORACLE.clear()
        _ORACLE[key] = K.oracle_dump(root, ap, extra_sys_path=sp)
    return _ORACLE[key]


def _norm(text: str) -> str:
    """inspected values carry reprs with memory addresses: the only run-dependent part of a dump"""
    return RE_ADDR.sub("0x?", text)


def cause_of(features: list) -> str:
    return "+".join(sorted(f for f in features if f in ("extra", "sibling", "dup", "empty", "fail", "loadingerror", "statsempty"))) or "none"


def judge(root: str, case: dict, variant: int, sp: list, *, subprocess_too: bool = False) -> dict:
    """Run the case on the real CLI and judge it. Returns {violations: [(sig, what)], drift: [...], die: [...], argv, key}."""
    a, plan, ref, impl = case["a"], case["plan"], case["ref"], case["impl"]
    argv = argv_of(a, variant)
    res: dict = {"violations": [], "drift": [], "die": [], "argv": argv, "sub": None}
    obs = K.run_cli(root, argv, extra_sys_path=sp, env={"GRIFFE_LOG_LEVEL": None})
    real = project(obs)
    # predicted: the real run is what the Impl lane of the spec (the transcription of cli.py) does on this command line
    predicted = (real["exit"], real["status"], real["writes"]) == (impl["exit"], impl["status"], spec_writes(impl["writes"]))
    base = {"cause": cause_of(ref["features"]), "out": a["out"], "job": case["job"], "predicted": predicted, "exception": real["exception"]}

    def bad(clause: str, what: str, **more):
        res["violations"].append(({"clause": clause, **base, **more}, f"{what}; argv={argv}"))

    usage = ref["exit"] == 2 or a["glob"] in ("help", "subhelp", "version", "debuginfo")
    # ---- the API-level oracle for the plan the spec decided; the world table of the spec must agree with the API ----
    orc = None
    if not usage:
        orc = oracle(root, plan, sp)
        if a["e"] == "missing":
            if not orc["exterror"]:
                res["die"].append(f"world: extension {EXT_API['missing']} loads")
        elif orc["exterror"]:
            res["die"].append(f"world: extensions {plan['exts']} do not load through the API")
        else:
            want = [o for o in plan["outcomes"] if o != "skipped"]
            got = ["loadingerror" if o == "exc:LoadingError" else o for o in orc["outcomes"]]
            if got != want:
                res["die"].append(f"world table of Cli.tla disagrees with the API: loads {plan['loads']} -> {got}, spec says {want} (plan {plan})")
            elif sorted(orc["keys"]) != sorted(W.top_of(p) for p in ref["coll"]):
                res["die"].append(f"world table of Cli.tla disagrees with the API: collection {sorted(orc['keys'])} vs spec {ref['coll']} (plan {plan})")
    if res["die"]:
        return res
    # ---- (E1) exit status, (E2) no escaping exception -------------------------------------------------------------
    if real["status"] == "exc":
        bad("no-escape", f"{real['exception']} escapes griffe.main")
    if real["exit"] != ref["exit"]:
        bad("exit-status", f"exit status {real['exit']} ({obs['status']}), reference {ref['exit']}", real=real["exit"], ref=ref["exit"], status=real["status"])
    # ---- (O1) placement -------------------------------------------------------------------------------------------
    want_w = spec_writes(ref["writes"])
    if real["writes"] != want_w:
        bad("placement", f"written {real['writes']}, reference {want_w}")
    elif orc is not None and a["e"] != "missing":
        # ---- (O2) content == what the documented API serialises for the plan decided by the spec ---------------------
        texts = {("stdout", ""): obs["stdout"]}
        for rel, text in obs["files"].items():
            texts[("file", "")] = text if rel == "out.json" else texts.get(("file", ""))
            if rel == "o{x}.json":
                texts[("escfile", "")] = text
            if rel.startswith("d_"):
                texts[("perpkg", rel[2:-5])] = text
        for to, name, form, _pk in want_w:
            exp = orc["joint"] if form == "joint" else orc["per"].get(name)
            if exp is None or _norm(texts.get((to, name)) or "") != _norm(exp + "\n"):
                bad("cli-equals-api", f"{to} {name}: content differs from the API serialisation (json.dumps(..., cls=JSONEncoder) / as_json) of the same loader plan")
                break
        # ---- (P1) -s order, then sys.path --------------------------------------------------------------------------
        if "pd" in ref["coll"] and real["writes"] == want_w:
            blob = "".join(t for t in texts.values() if t)
            froms = sorted(set(re.findall(r"pd from (\w+)\.", blob)))
            if froms != [ref["pdfrom"]]:
                bad("search-order", f"package pd taken from {froms}, reference: first of the -s paths then sys.path = {ref['pdfrom']}")
    # ---- (L1) threshold, (L2) one ERROR record per failed package ------------------------------------------------------
    level = plan["level"]
    if not usage:
        low = [r for r in real["records"] if LEVELNO[r[0]] < level]
        if low:
            bad("log-threshold", f"record below the -L threshold {level}: {low[0]}")
        errs = [r[1] for r in real["records"] if r[0] in ("ERROR", "CRITICAL")]
        failed = [W.arg_of(t) for t in ref["errors"]] if level <= 40 else []

        def names(rec: str, pkg: str) -> bool:
            return pkg == "<extensions>" or re.search(r"(?<![\w.])" + re.escape(pkg) + r"(?!\w)", rec) is not None

        if real["status"] != "exc":
            silent = [p for p in failed if not any(names(e, p) for e in errs)]
            stray = [e for e in errs if not any(names(e, p) for p in failed)]
            if silent or stray:
                bad("errors-logged", f"ERROR records {errs}: failed packages without a record {silent}, records naming no failed package {stray[:2]}")
        if level >= 20 and real["status"] != "exc":
            n_impl = sum(1 for r in impl["logs"] if 20 <= r["lv"] < 40 and r["lv"] >= level)
            n_real = sum(1 for r in real["records"] if r[0] == "INFO")
            if n_real != n_impl:
                res["drift"].append(f"INFO records: real {n_real}, Impl transcription {n_impl} (job {case['job']})")
    elif obs["stdout"] and ref["exit"] == 2:
        bad("placement", "usage error writes to stdout")
    # ---- real vs Impl (transcription): drift only ---------------------------------------------------------------------
    if not predicted:
        res["drift"].append(f"Impl transcription predicts {(impl['exit'], impl['status'])}, real {(real['exit'], real['status'])} for {argv}")
    # ---- (S1) `python -m griffe` == griffe.main ------------------------------------------------------------------------
    if subprocess_too:
        sub = project(K.run_cli_subprocess(root, argv, extra_sys_path=sp, env={"GRIFFE_LOG_LEVEL": None}))
        same = sub["exit"] == real["exit"] and sub["writes"] == real["writes"] and [r[0] for r in sub["records"] if r[0] != "DEBUG"] == [r[0] for r in real["records"] if r[0] != "DEBUG"]
        res["sub"] = same
        if not same:
            bad("module-entry", f"`python -m griffe` gives exit {sub['exit']} writes {sub['writes']}, griffe.main gives exit {real['exit']} writes {real['writes']}")
    return res
