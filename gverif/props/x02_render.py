"""X02 - concretiser: abstract layout (spec/SrcLayout.tla) -> files of a package `pk`.

The renderer knows the *text* of every statement form and nothing about line numbers: those come
from the spec (`ref`) and are cross-checked against CPython by x02_oracle.py.
"""
from __future__ import annotations

LIB = '''"""Lib."""
import contextlib
__all__ = ["L1", "L2"]
COND = True
SEQ = (1,)
CTX = contextlib.nullcontext()


def deco(f):
    return f


def decof(_x):
    return deco


def L1():
    """Doc L1."""
    return 1


class L2:
    """Doc L2."""
'''
PRELUDE = "from pk.lib import COND, CTX, SEQ, deco, decof"
PRELUDE_NAMES = {"COND", "CTX", "SEQ", "deco", "decof"}
STAR_NAMES = ("L1", "L2")

# kinds of the forms (mirror of FormTab.k; only used to pick templates / bodies)
FUNC_BODY = {"def", "defh2", "defdoc1", "defdoc2", "defdocp3", "defh2doc2", "adef", "init"}
CLASS_BODY = {"cls", "clsh3", "clsdoc1", "clsdoc2"}
DOC_OF = {"defdoc1": "doc1", "defdoc2": "doc2", "defdocp3": "docp3", "defh2doc2": "doc2", "clsdoc1": "doc1", "clsdoc2": "doc2"}
TWO_NAMES = {"chain", "semi", "semis2", "imp2", "from2", "fromp4", "fromb2"}


def item_names(i: int, form: str) -> list:
    """Names bound by item i (1-based), in the order of the spec's `nm`."""
    if form == "init":
        return ["__init__"]
    if form == "star":
        return list(STAR_NAMES)
    n = f"n{i}"
    return [n, n + "b"] if form in TWO_NAMES else [n]


def _decorators(dc: str, ind: str) -> list:
    one = {
        "none": [],
        "d1": ["@deco"],
        "d1d1": ["@deco", "@deco"],
        "d2": ["@decof(", "    1)"],
        "d1d2": ["@deco", "@decof(", "    1)"],
        "dp": ["@(", "    deco", ")"],
        "prop": ["@property"],
        "d1prop": ["@deco", "@property"],
    }[dc]
    return [ind + s for s in one]


def _head(form: str, n: str, ind: str, prop: bool) -> list:
    arg = "self" if prop else ""
    t = {
        "def": [f"def {n}({arg}):"],
        "defdoc1": [f"def {n}({arg}):"],
        "defdoc2": [f"def {n}({arg}):"],
        "defdocp3": [f"def {n}({arg}):"],
        "adef": [f"async def {n}({arg}):"],
        "defh2": [f"def {n}({arg or 'a=1'},", "        b=2):"],
        "defh2doc2": [f"def {n}({arg or 'a=1'},", "        b=2):"],
        "def1l": [f"def {n}(): return 1"],
        "def1l2": [f"def {n}(): return (1,", "    2)"],
        "init": ["def __init__(self):"],
        "cls": [f"class {n}:"],
        "clsdoc1": [f"class {n}:"],
        "clsdoc2": [f"class {n}:"],
        "clsh3": [f"class {n}(", "    object,", "):"],
        "cls1l": [f"class {n}: pass"],
        "asg": [f"{n} = 1"],
        "asgp3": [f"{n} = (", "    1,", ")"],
        "asgs2": [f'{n} = """a', 'b"""'],
        "asgs2c0": [f'{n} = """a', None],
        "asgb2": [f"{n} = 1 + \\", "    2"],
        "ann": [f"{n}: int = 1"],
        "ann0": [f"{n}: int"],
        "annp3": [f"{n}: list = [", "    1,", "]"],
        "tup": [f"{n}, {n}b = 1, 2"],
        "chain": [f"{n} = {n}b = 1"],
        "semi": [f"{n} = 1; {n}b = 2"],
        "semis2": [f'{n} = """a', f'b"""; {n}b = 2'],
        "sasg": [f"self.{n} = 1"],
        "sasgp3": [f"self.{n} = (", "    1,", ")"],
        "asgnel": [f'{n} = "a\x85b"'],
        "imp": [f"import pk.lib as {n}"],
        "imp2": [f"import pk.lib as {n}, pk.lib as {n}b"],
        "from": [f"from pk.lib import L1 as {n}"],
        "from2": [f"from pk.lib import L1 as {n}, L2 as {n}b"],
        "fromp4": ["from pk.lib import (", f"    L1 as {n},", f"    L2 as {n}b,", ")"],
        "fromb2": [f"from pk.lib import L1 as {n}, \\", f"    L2 as {n}b"],
        "star": ["from pk.lib import *"],
        "if": ["if COND:"],
        "ifh2": ["if (COND and", "        COND):"],
        "for": ["for _i in SEQ:"],
        "with": ["with CTX:"],
        "withh3": ["with (", "    CTX", "):"],
        "else": ["else:"],
        "elif": ["elif COND:"],
        "try": ["try:"],
        "exc": ["except Exception:"],
        "fin": ["finally:"],
        "expr": ["id(0)"],
        "exprp2": ["id(", "    0)"],
        "str1": [f'"""Text {n}."""'],
        "str2": [f'"""Text {n}.', 'more."""'],
        "strp3": ["(", f'    "Text {n}."', ")"],
        "blank": [""],
        "cmt": [f"# c {n}"],
        "cmt0": [None],
        "ff": [None],
        "cmtls": [f"# c {n}\u2028d"],
    }[form]
    out = []
    for k, s in enumerate(t):
        if s is None:  # lines that ignore the indentation
            out.append({"asgs2c0": 'b"""', "cmt0": f"# c0 {n}", "ff": "\x0c"}[form])
        elif s == "":
            out.append("")
        else:
            out.append(ind + s)
    return out


def _body(form: str, n: str, ind2: str, withdoc: bool) -> list:
    if form not in FUNC_BODY and form not in CLASS_BODY:
        return []
    doc = DOC_OF.get(form) if withdoc else None
    if doc == "doc1":
        return [f'{ind2}"""Doc {n}."""']
    if doc == "doc2":
        return [f'{ind2}"""Doc {n}.', f'{ind2}More."""']
    if doc == "docp3":
        return [f"{ind2}(", f'{ind2}    "Doc {n}."', f"{ind2})"]
    return [f"{ind2}pass"]


def render_items(items: list, twin: bool = False) -> list:
    """Lines of the outline. `twin`: render the runtime twin (objects with py only, docs per pd)."""
    out = []
    for i, it in enumerate(items, 1):
        if twin and not it["py"]:
            continue
        ind = "    " * it["d"]
        n = f"n{i}"
        prop = it["dc"] in ("prop", "d1prop")
        out += _decorators(it["dc"], ind)
        out += _head(it["f"], n, ind, prop)
        out += _body(it["f"], n, ind + "    ", (not twin) or it["pd"])
    return out


def render_case(case: dict, variant: int = 0, pypad: int = 3) -> dict:
    """Returns {"files": {relpath: bytes}, "main": relpath of the layout, "twin": relpath or None}."""
    lead, mdoc = case["head"]
    twin = case.get("twin", False)
    lines = []
    if lead == "cmt":
        lines.append("#!/usr/bin/env python")
    if mdoc == 1:
        lines.append('"""Module doc."""')
    elif mdoc == 2:
        lines += ['"""Module doc.', 'More."""']
    lines.append(PRELUDE)
    lines += render_items(case["items"])
    text = "\n".join(lines) + "\n"
    if variant == 1:
        text = text.replace("\n", "\r\n")
    elif variant == 2:
        text = text[:-1]                      # no newline at the end of the file
    elif variant == 3:
        text += "\n    \n\n"                  # trailing blank lines / whitespace
    data = text.encode("utf8")
    if lead == "bom":
        data = b"\xef\xbb\xbf" + data
    files = {"pk/__init__.py": b"", "pk/lib.py": LIB.encode()}
    if twin:
        files["pk/m.pyi"] = data
        tl = [f"# runtime twin {k}" for k in range(pypad)] + [PRELUDE] + render_items(case["items"], twin=True)
        files["pk/m.py"] = ("\n".join(tl) + "\n").encode()
        return {"files": files, "main": "pk/m.pyi", "twin": "pk/m.py", "variant": variant}
    files["pk/m.py"] = data
    return {"files": files, "main": "pk/m.py", "twin": None, "variant": variant}
