"""C20 helper: builds the real git repository that spec/GitWorktree.tla describes.

   commits  c1 (no package)  c2 (package with a syntax error)  c3 (package, API 1)  c4 (package, API 2)  c5 (HEAD)
   tags     v0 -> c1, bad -> c2, v1 -> c3 (latest tag)
   branches main -> c5 (checked out), feat/x -> c4, feat-x -> c4 (same normalised name), x -> c3, side/y -> c6 (own commit on top of c3, not merged into main), griffe-x -> c3 (a user branch named like one of
            griffe's temporary branches), wt-user -> c4 (checked out in a user worktree `uwt` next to the repo)
The `ignored` variant commits a .gitignore with `__pycache__/` in every commit.
"""
from __future__ import annotations

import os
import shutil
import subprocess

PKG = "c20pkg"          # the public package: re-exports from its private sibling (griffe/_griffe layout)
PRIV = "_c20pkg"        # the private package, loaded on demand by alias resolution
_run = subprocess.run  # bound before the worker wraps subprocess.run

PUBLIC = '''"""Public package: everything is re-exported from the private sibling."""

from _c20pkg import f, g

__all__ = ["f", "g"]
'''
# the breaking change of API 2 lives in the PRIVATE package only: parameter `b` of `f` is removed
API1 = '''"""Private implementation (API 1)."""


def f(a, b=1):
    """Function f."""
    return a + b


def g():
    """Function g."""
    return 0
'''
API2 = '''"""Private implementation (API 2)."""


def f(a):
    """Function f."""
    return a


def g():
    """Function g."""
    return 0
'''
SUB = '''"""Submodule."""


class K:
    """Class K."""

    def m(self):
        """Method m."""
        return 1
'''
COMPAT = '''"""Compatibility helpers (reached through the symlink c20pkg/compat.py)."""


def h(x):
    """Function h.

    Second line of the docstring.
    """
    return x
'''
BAD = "def f(:\n    pass\n"

GIT_ENV = {
    "GIT_CONFIG_NOSYSTEM": "1",
    "GIT_CONFIG_GLOBAL": "/dev/null",
    "GIT_TERMINAL_PROMPT": "0",
    "GIT_OPTIONAL_LOCKS": "0",
    "LC_ALL": "C",
    "GIT_AUTHOR_NAME": "h",
    "GIT_AUTHOR_EMAIL": "h@example.org",
    "GIT_COMMITTER_NAME": "h",
    "GIT_COMMITTER_EMAIL": "h@example.org",
}

F_PARAMS = {1: ["a", "b"], 2: ["a"]}      # parameters of the re-exported f per API version


def git(repo: str, *args: str, date: int | None = None, check: bool = True) -> str:
    env = dict(os.environ, **GIT_ENV)
    if date is not None:
        stamp = f"2024-01-{date:02d}T12:00:00+0000"
        env["GIT_AUTHOR_DATE"] = env["GIT_COMMITTER_DATE"] = stamp
    proc = _run(["git", "-C", repo, *args], capture_output=True, text=True, env=env, check=False)
    if check and proc.returncode:
        raise RuntimeError(f"git {' '.join(args)} failed in {repo}: {proc.stderr}")
    return proc.stdout


def _write(path: str, text: str):
    os.makedirs(os.path.dirname(path), exist_ok=True)
    with open(path, "w") as fh:
        fh.write(text)


def build_template(dst: str, ignored: bool) -> str:
    """Create the repository (without the user worktree and without local modifications) at `dst`."""
    os.makedirs(dst)
    git(dst, "init", "-q", "-b", "main", ".")
    _write(os.path.join(dst, "README.md"), "c20 test repository\n")
    if ignored:
        _write(os.path.join(dst, ".gitignore"), "__pycache__/\n")
    git(dst, "add", "-A")
    git(dst, "commit", "-q", "-m", "c1: no package", date=1)
    git(dst, "tag", "v0")
    _write(os.path.join(dst, PKG, "__init__.py"), BAD)
    git(dst, "add", "-A")
    git(dst, "commit", "-q", "-m", "c2: syntax error", date=2)
    git(dst, "tag", "bad")
    _write(os.path.join(dst, PKG, "__init__.py"), PUBLIC)
    _write(os.path.join(dst, PRIV, "__init__.py"), API1)
    _write(os.path.join(dst, PKG, "sub.py"), SUB)
    # a module of the public package that is a SYMLINK tracked in git to a file of the private package
    _write(os.path.join(dst, PRIV, "compat_impl.py"), COMPAT)
    os.symlink(os.path.join("..", PRIV, "compat_impl.py"), os.path.join(dst, PKG, "compat.py"))
    git(dst, "add", "-A")
    git(dst, "commit", "-q", "-m", "c3: API 1", date=3)
    git(dst, "tag", "v1")
    git(dst, "branch", "x")
    git(dst, "branch", "griffe-x")
    # a diverging branch: its own commit on top of c3, NOT an ancestor of main's HEAD
    git(dst, "checkout", "-q", "-b", "side/y")
    _write(os.path.join(dst, "SIDE.md"), "side branch\n")
    git(dst, "add", "-A")
    git(dst, "commit", "-q", "-m", "c6: side branch (API 1)", date=3)
    git(dst, "checkout", "-q", "main")
    _write(os.path.join(dst, PRIV, "__init__.py"), API2)
    git(dst, "add", "-A")
    git(dst, "commit", "-q", "-m", "c4: API 2", date=4)
    git(dst, "branch", "feat/x")
    git(dst, "branch", "feat-x")
    git(dst, "branch", "wt-user")
    _write(os.path.join(dst, "README.md"), "c20 test repository (head)\n")
    git(dst, "add", "-A")
    git(dst, "commit", "-q", "-m", "c5: head", date=5)
    return dst


def instantiate(template: str, base: str, status0: str, notags: bool = False) -> tuple[str, str]:
    """Copy the template to `base`/repo, add the user worktree `base`/uwt and (optionally) local modifications."""
    repo = os.path.join(base, "repo")
    shutil.copytree(template, repo, symlinks=True)
    uwt = os.path.join(base, "uwt")
    git(repo, "worktree", "add", "-q", uwt, "wt-user")
    if notags:
        git(repo, "tag", "-d", "v0", "bad", "v1")
    if status0 == "dirty":
        with open(os.path.join(repo, "README.md"), "a") as fh:
            fh.write("local, unstaged modification\n")
        _write(os.path.join(repo, "staged.txt"), "staged new file\n")
        git(repo, "add", "staged.txt")
        _write(os.path.join(repo, "untracked.txt"), "untracked file\n")
    return repo, uwt
