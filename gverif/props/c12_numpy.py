"""Numpydoc style: concretiser, classifier (with the real predicates / regexes), projections for spec/DocNumpy.tla."""
from __future__ import annotations

import re

from gverif.common import die
from gverif.props.c12_common import norm_lines, norm_list

TYPES = ["int", "list[str]", "Optional[Foo]", "a.b.C"]
SPEC_KINDS = {"parameters", "other_parameters", "returns", "yields", "receives", "raises", "warns", "attributes", "functions", "classes", "modules", "deprecated", "examples"}


class Numpy:
    style = "numpy"
    module = "DocNumpy"

    def __init__(self, griffe):
        import _griffe.docstrings.numpy as NP  # noqa: PLC0415

        self.NP = NP
        self.griffe = griffe
        self.keywords: dict = {}
        for kw, kind in NP._section_kind.items():
            self.keywords.setdefault(kind.value.replace(" ", "_"), []).append(kw)
        readers = {k.value.replace(" ", "_") for k in NP._section_reader}
        if set(self.keywords) != readers or readers != SPEC_KINDS:
            die(f"numpy: section kinds of the working tree {sorted(self.keywords)} / readers {sorted(readers)} differ from DocNumpy.tla {sorted(SPEC_KINDS)}")

    # ---- concretiser -----------------------------------------------------------------------------------------
    @staticmethod
    def _pad(ind: int, v: int) -> str:
        if ind == 0:
            return ""
        if ind == 2:
            return " " * (1, 2, 3)[v % 3]
        return " " * (4, 4, 6, 8)[v % 4]

    def spell(self, ln: dict, i: int, v: int) -> dict:
        k, ind, a = ln["k"], ln["ind"], ln["a"]
        pad = self._pad(ind, v)
        name, typ = f"n{i}", TYPES[(v + i) % len(TYPES)]
        if k == "blank":
            return {"text": ("", "", "   ")[v % 3]}
        if k == "dash":
            return {"text": pad + ("---", "----------", "- --")[v % 3]}
        if k == "hdr":
            kws = self.keywords[a]
            kw = kws[(v + i) % len(kws)]
            return {"text": [kw.capitalize(), kw.upper(), kw.title(), kw][v % 4]}
        if k == "fence":
            return {"text": pad + ["```", "```python"][v % 2]}
        if k == "prompt":
            return {"text": pad + [f">>> d{i} = 1", f">>> d{i}"][v % 2]}
        if k == "line":
            if a == "N":
                return {"text": pad + name, "names": [name], "type": None, "whole": name}
            if a == "P":
                text = [f"Some d{i} text.", f"*{name}", f"Note d{i}", f"_{name} d{i}"][v % 4]
                return {"text": pad + text, "names": [text.split(" ")[0].split(".")[0] if " " in text else text], "type": None, "whole": text}
            if a == "NT":
                opt = ", optional" if v % 2 else ""
                return {"text": f"{pad}{name} : {typ}{opt}", "names": [name], "type": typ, "opt": opt}
            if a == "NK":
                return {"text": pad + [f"{name} :", f"{name}:"][v % 2], "names": [name], "type": None}
            if a == "C":
                return {"text": pad + ":", "names": [""], "type": None}
            if a == "CT":
                return {"text": f"{pad}: {typ}", "names": [""], "type": typ}
            if a == "NN":
                return {"text": f"{pad}{name}, m{i} : {typ}", "names": [name, f"m{i}"], "type": typ}
            if a == "NC":
                return {"text": f"{pad}{name} : {{a{i}, b}}", "names": [name], "type": f"a{i}, b", "default": f"a{i}"}
            if a == "ND":
                sep = ["default ", "default: ", "default="][v % 3]
                return {"text": f"{pad}{name} : {typ}, {sep}v{i}", "names": [name], "type": typ, "default": f"v{i}"}
            if a == "F":
                sig = ["a=1", "", "b"][v % 3]
                return {"text": f"{pad}{name}({sig})", "names": [name], "type": f"{name}({sig})"}
            if a == "X":
                text = [f"1. d{i}", f"[d{i}] words", f"-- d{i}", f"$ d{i} more"][v % 4]
                return {"text": pad + text, "names": [text], "type": None, "whole": text}
        raise ValueError(f"unknown line class {ln}")

    def concretise(self, lines: list, v: int, wf: bool = False) -> tuple[str, list]:
        """wf: well-formed rendering (C13): blank lines are really empty."""
        parts = [self.spell(ln, i, v) for i, ln in enumerate(lines)]
        if wf:
            for p, ln in zip(parts, lines):
                if ln["k"] == "blank":
                    p["text"] = ""
        if len(parts) == 1 and not parts[0]["text"].strip():
            parts[0]["text"] = ""          # the empty docstring
        return "\n".join(p["text"] for p in parts), parts

    # ---- classifier ------------------------------------------------------------------------------------------
    def classify(self, line: str) -> dict:
        NP = self.NP
        if NP._is_empty_line(line):
            return {"k": "blank", "ind": 0, "a": "-"}
        n = len(line) - len(line.lstrip(" "))
        ind = 4 if line.startswith(4 * " ") else 2 if line.startswith(" ") else 0
        if NP._is_dash_line(line):
            return {"k": "dash", "ind": ind, "a": "-"}
        if line.lower().lstrip(" ").startswith("```"):
            return {"k": "fence", "ind": ind, "a": "-"}
        if line.lower() in NP._section_kind:
            return {"k": "hdr", "ind": 0, "a": NP._section_kind[line.lower()].value.replace(" ", "_")}
        body = line[n:]
        if body.startswith(">>>"):
            return {"k": "prompt", "ind": ind, "a": "-" if ":" not in body else "colon"}
        mP = NP._RE_PARAMETER.match(body)
        mR = NP._RE_RETURNS.match(body)
        if body == ":":
            form = "C" if mR and not any(mR.groupdict().values()) else "?"
        elif body.startswith(":"):
            form = "CT" if mR and mR.group("type") and not mP else "?"
        elif not mP:
            form = "X" if ":" not in body and "(" not in body else "?"
        else:
            names = mP.group("names").split(", ")
            typ, choices = mP.group("type"), mP.group("choices")
            if len(names) == 2:
                form = "NN"
            elif choices:
                form = "NC"
            elif typ and re.match(r"^(?P<annotation>.+),\s+default(?: |: |=)(?P<default>.+)$", typ):
                form = "ND"
            elif typ:
                form = "NT"
            elif ":" in body:
                form = "NK" if mR and (mR.group("name") or "") == names[0] else "?"
            elif "(" in body:
                form = "F"
            elif re.fullmatch(r"[A-Za-z][A-Za-z0-9]*", body):
                form = "N"
            else:
                form = "P"
        return {"k": "line", "ind": ind, "a": form}

    def long_alphabet(self) -> list:
        def rec(k, ind, a="-"):
            return {"k": k, "ind": ind, "a": a}

        out = [rec("blank", 0), rec("dash", 0), rec("dash", 4), rec("fence", 0), rec("fence", 4), rec("prompt", 0)]
        out += [rec("hdr", 0, k) for k in sorted(self.keywords)]
        out += [rec("line", 0, f) for f in ("N", "P", "NT", "NK", "C", "CT", "NN", "NC", "ND", "F", "X")]
        out += [rec("line", 2, "X"), rec("line", 4, "X"), rec("line", 4, "C"), rec("line", 4, "NT")]
        return out

    def check_classifier(self):
        n = 0
        for ln in self.long_alphabet():
            for v in range(12):
                for i in (0, 3, 11):
                    p = self.spell(ln, i, v)
                    got = self.classify(p["text"])
                    n += 1
                    if got != ln:
                        die(f"numpy classifier: spelling {p['text']!r} of class {ln} classifies as {got}")
        return n

    @staticmethod
    def can_be_first(c: dict) -> bool:
        return c["ind"] == 0 and c["k"] != "blank"

    @staticmethod
    def can_be_last(c: dict) -> bool:
        return c["k"] != "blank"

    @staticmethod
    def make_fixed_point(lines: list) -> list:
        if len(lines) > 1 and not any(c["k"] != "blank" and c["ind"] == 0 for c in lines[1:]):
            lines = list(lines)
            lines[1 + (len(lines) - 1) // 2] = {"k": "line", "ind": 0, "a": "N"}
        return lines

    @staticmethod
    def code(lines: list) -> str:
        return " ".join(f"{c['k'][0]}{c['ind']}:{c['a']}" for c in lines)

    @staticmethod
    def no_syntax(lines: list) -> bool:
        return all(ln["k"] != "dash" for ln in lines)

    @staticmethod
    def summary_altered(lines: list, options: dict, parent: str) -> bool:
        return bool(options.get("ignore_init_summary") and parent == "init")

    # ---- projections ------------------------------------------------------------------------------------------
    def project_real(self, sections) -> list:
        out = []
        for s in sections:
            kind = s.kind.value.replace(" ", "_")
            rec = {"kind": kind, "title": s.title}
            if kind == "text":
                rec["lines"] = norm_lines(s.value)
            elif kind == "admonition":
                rec["lines"] = norm_lines(s.value.description)
                rec["admkind"] = s.value.annotation
            elif kind == "examples":
                rec["subs"] = [(k.value, norm_lines(t)) for k, t in s.value]
            elif kind == "deprecated":
                rec["items"] = [{"name": None, "ann": s.value.annotation, "value": None, "lines": norm_lines(s.value.description), "raw": s.value.description}]
            else:
                rec["items"] = [{"name": getattr(el, "name", None), "ann": el.annotation, "value": getattr(el, "value", None), "lines": norm_lines(el.description), "raw": el.description} for el in s.value]
            out.append(rec)
        return out

    def project_spec(self, case_sections: list, parts: list, flags: dict | None = None) -> list:  # noqa: ARG002
        out = []

        def txt(idx):
            return norm_list([parts[i]["text"] for i in idx])

        for s in case_sections:
            kind = s["kind"]
            rec = {"kind": kind, "title": None}
            if kind == "text":
                rec["lines"] = txt(s["tl"])
            elif kind == "admonition":
                title = parts[s["hdr"]]["text"]
                rec["title"] = title
                k = title.lower().replace(" ", "-")
                rec["admkind"] = k[:-1] if k in ("warnings", "notes") else k
                rec["lines"] = txt(s["tl"])
            elif kind == "examples":
                rec["subs"] = [(sub["kind"], txt(sub["tl"])) for sub in s["subs"]]
            else:
                items = []
                for el in s["items"]:
                    p = parts[el["first"]]
                    for c in range(el["cnt"]):
                        items.append({"lines": txt(el["body"]), "name": el["name"], "ann": el["ann"], "dflt": el["dflt"], "first": p, "which": c})
                rec["items"] = items
            out.append(rec)
        return out

    @staticmethod
    def compare(real: list, spec: list) -> tuple[str | None, str | None]:
        if [r["kind"] for r in real] != [s["kind"] for s in spec]:
            return f"section kinds {[r['kind'] for r in real]} != spec {[s['kind'] for s in spec]}", None
        soft = None
        for j, (r, s) in enumerate(zip(real, spec)):
            if r["title"] != s["title"]:
                return f"section {j} ({r['kind']}) title {r['title']!r} != spec {s['title']!r}", None
            if "lines" in s and r["lines"] != s["lines"]:
                return f"section {j} ({r['kind']}) lines {r['lines']} != spec {s['lines']}", None
            if "admkind" in s and r["admkind"] != s["admkind"]:
                return f"section {j} admonition kind {r['admkind']!r} != spec {s['admkind']!r}", None
            if "subs" in s and list(r["subs"]) != list(s["subs"]):
                return f"section {j} examples {r['subs']} != spec {s['subs']}", None
            if "items" in s:
                if len(r["items"]) != len(s["items"]):
                    return f"section {j} ({r['kind']}) has {len(r['items'])} items, spec {len(s['items'])}", None
                for m, (ri, si) in enumerate(zip(r["items"], s["items"])):
                    if ri["lines"] != si["lines"]:
                        return f"section {j} ({r['kind']}) item {m} lines {ri['lines']} != spec {si['lines']}", None
                    p = si["first"]
                    nm, an, df = si["name"], si["ann"], si["dflt"]
                    whole = p["text"].strip()
                    names = p.get("names") or [whole]
                    if nm == "n" and (ri["name"] or "").strip() != names[min(si["which"], len(names) - 1)] and (ri["name"] or "").strip() != whole:
                        soft = soft or f"section {j} item {m} name {ri['name']!r} != written {names!r}"
                    if nm == "x":
                        pass
                    elif nm == "e" and ri["name"] != "":
                        soft = soft or f"section {j} item {m} name {ri['name']!r}, spec says empty"
                    if nm == "l" and (ri["name"] or "").strip() != whole:
                        soft = soft or f"section {j} item {m} name {ri['name']!r}, spec says the whole line {whole!r}"
                    a = ri["ann"]
                    if an == "none" and a is not None:
                        soft = soft or f"section {j} item {m} annotation {a!r}, spec says none"
                    if an == "doc" and (a is None or not (p.get("type") and p["type"].replace(" ", "") in str(a).replace(" ", ""))):
                        soft = soft or f"section {j} item {m} annotation {a!r}, spec says the written one ({p.get('type')!r})"
                    if an == "l" and (a is None or str(a).replace(" ", "") != whole.replace(" ", "")):
                        soft = soft or f"section {j} item {m} annotation {a!r}, spec says the whole line {whole!r}"
                    if df == "doc" and ri["value"] != p.get("default"):
                        soft = soft or f"section {j} item {m} default {ri['value']!r}, spec says the written one ({p.get('default')!r})"
                    if df == "none" and ri["value"] is not None:
                        soft = soft or f"section {j} item {m} default {ri['value']!r}, spec says none"
        return None, soft
