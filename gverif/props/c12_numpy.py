"""Numpydoc style: concretiser, classifier (with the real predicates / regexes), projections for spec/DocNumpy.tla."""
from __future__ import annotations

import re

from gverif.common import die
from gverif.props.c12_common import norm_lines, norm_list

TYPES = ["int", "list[str]", "Optional[Foo]", "a.b.C", "Literal['a: b']"]      # the last one contains a colon
SPEC_KINDS = {"parameters", "other_parameters", "returns", "yields", "receives", "raises", "warns", "attributes", "functions", "classes", "modules", "deprecated", "examples"}


class Numpy:
    style = "numpy"
    module = "DocNumpy"

    # the item syntaxes of docs/reference/docstrings.md (`name : type`, `name :`, `: type`, `:`, `n, m : type`, `name : {a, b}`,
    # `name : type, default x`), own transcriptions, VALIDATED against the parser's behaviour by check_classifier()
    NAME = r"\*{0,2}[_a-z][_a-z0-9]*"
    PARAMETER = re.compile(rf"(?P<names>{NAME}(?:,\s{NAME})*)(?:\s:\s(?:(?:\{{(?P<choices>.+)\}})|(?P<type>.+))?)?", re.IGNORECASE)
    VALUE = re.compile(rf"(?:(?P<nt_name>{NAME})\s*:\s*(?P<nt_type>.+)|(?P<name>{NAME})\s*:\s*|\s*:\s*$|(?::\s*)?(?P<type>.+)\s*)", re.IGNORECASE)

    def __init__(self, griffe):
        from gverif.props.c12_probe import probe_titles  # noqa: PLC0415

        self.griffe = griffe
        self.keywords = probe_titles(griffe, "numpy")       # PROBED through the public parser at check time
        self.kind_of = {kw: kind for kind, kws in self.keywords.items() for kw in kws}
        if set(self.keywords) != SPEC_KINDS:
            die(f"numpy: the parser accepts titles for the section kinds {sorted(self.keywords)}, DocNumpy.tla models {sorted(SPEC_KINDS)}")

    @staticmethod
    def is_dash(line: str) -> bool:
        return bool(line.strip()) and not line.replace("-", "").strip()

    # ---- concretiser -----------------------------------------------------------------------------------------
    @staticmethod
    def _pad(ind: int, v: int) -> str:
        if ind == 0:
            return ""
        if ind == 2:
            return " " * (1, 2, 3)[v % 3]
        return " " * (4, 4, 6, 8)[v % 4]

    def spell(self, ln: dict, i: int, v: int) -> dict:
        k, ind, a = ln["k"], ln["ind"], ln["a"]
        pad = self._pad(ind, v)
        name, typ = f"n{i}", TYPES[(v + i) % len(TYPES)]
        if k == "blank":
            return {"text": ("", "", "   ")[v % 3]}
        if k == "dash":
            return {"text": pad + ("---", "----------", "- --")[v % 3]}
        if k == "hdr":
            kws = self.keywords[a]
            kw = kws[(v + i) % len(kws)]
            return {"text": [kw.capitalize(), kw.upper(), kw.title(), kw][v % 4]}
        if k == "fence":
            return {"text": pad + ["```", "```python"][v % 2]}
        if k == "prompt":
            return {"text": pad + [f">>> d{i} = 1", f">>> d{i}"][v % 2]}
        if k == "line":
            if a == "N":
                return {"text": pad + name, "names": [name], "type": None, "whole": name}
            if a == "P":
                text = [f"Some d{i} text.", f"*{name}", f"Note d{i}", f"_{name} d{i}"][v % 4]
                return {"text": pad + text, "names": [text.split(" ")[0].split(".")[0] if " " in text else text], "type": None, "whole": text}
            if a == "NT":
                opt = ", optional" if v % 2 else ""
                return {"text": f"{pad}{name} : {typ}{opt}", "names": [name], "type": typ, "opt": opt}
            if a == "NK":
                return {"text": pad + [f"{name} :", f"{name}:"][v % 2], "names": [name], "type": None}
            if a == "C":
                return {"text": pad + ":", "names": [""], "type": None}
            if a == "CT":
                return {"text": f"{pad}: {typ}", "names": [""], "type": typ}
            if a == "NN":
                return {"text": f"{pad}{name}, m{i} : {typ}", "names": [name, f"m{i}"], "type": typ}
            if a == "NC":
                return {"text": f"{pad}{name} : {{a{i}, b}}", "names": [name], "type": f"a{i}, b", "default": f"a{i}"}
            if a == "ND":
                sep = ["default ", "default: ", "default="][v % 3]
                return {"text": f"{pad}{name} : {typ}, {sep}v{i}", "names": [name], "type": typ, "default": f"v{i}"}
            if a == "F":
                sig = ["a=1", "", "b"][v % 3]
                return {"text": f"{pad}{name}({sig})", "names": [name], "type": f"{name}({sig})"}
            if a == "X":
                text = [f"1. d{i}", f"[d{i}] words", f"-- d{i}", f"$ d{i} more"][v % 4]
                return {"text": pad + text, "names": [text], "type": None, "whole": text}
        raise ValueError(f"unknown line class {ln}")

    def concretise(self, lines: list, v: int, wf: bool = False) -> tuple[str, list]:
        """wf: well-formed rendering (C13): blank lines are really empty."""
        parts = [self.spell(ln, i, v) for i, ln in enumerate(lines)]
        if wf:
            for p, ln in zip(parts, lines):
                if ln["k"] == "blank":
                    p["text"] = ""
        if len(parts) == 1 and not parts[0]["text"].strip():
            parts[0]["text"] = ""          # the empty docstring
        return "\n".join(p["text"] for p in parts), parts

    # ---- classifier ------------------------------------------------------------------------------------------
    def classify(self, line: str) -> dict:
        if not line.strip():
            return {"k": "blank", "ind": 0, "a": "-"}
        n = len(line) - len(line.lstrip(" "))
        ind = 4 if line.startswith(4 * " ") else 2 if line.startswith(" ") else 0
        if self.is_dash(line):
            return {"k": "dash", "ind": ind, "a": "-"}
        if line.lower().lstrip(" ").startswith("```"):
            return {"k": "fence", "ind": ind, "a": "-"}
        if line.lower() in self.kind_of:
            return {"k": "hdr", "ind": 0, "a": self.kind_of[line.lower()]}
        body = line[n:]
        if body.startswith(">>>"):
            return {"k": "prompt", "ind": ind, "a": "-" if ":" not in body else "colon"}
        mP = self.PARAMETER.match(body)
        mR = self.VALUE.match(body)
        if body == ":":
            form = "C" if mR and not any(mR.groupdict().values()) else "?"
        elif body.startswith(":"):
            form = "CT" if mR and mR.group("type") and not mP else "?"
        elif not mP:
            form = "X" if ":" not in body and "(" not in body else "?"
        else:
            names = mP.group("names").split(", ")
            typ, choices = mP.group("type"), mP.group("choices")
            if len(names) == 2:
                form = "NN"
            elif choices:
                form = "NC"
            elif typ and re.match(r"^(?P<annotation>.+),\s+default(?: |: |=)(?P<default>.+)$", typ):
                form = "ND"
            elif typ:
                form = "NT"
            elif ":" in body:
                form = "NK" if mR and (mR.group("name") or "") == names[0] else "?"
            elif "(" in body:
                form = "F"
            elif re.fullmatch(r"[A-Za-z][A-Za-z0-9]*", body):
                form = "N"
            else:
                form = "P"
        return {"k": "line", "ind": ind, "a": form}

    def long_alphabet(self) -> list:
        def rec(k, ind, a="-"):
            return {"k": k, "ind": ind, "a": a}

        out = [rec("blank", 0), rec("dash", 0), rec("dash", 4), rec("fence", 0), rec("fence", 4), rec("prompt", 0)]
        out += [rec("hdr", 0, k) for k in sorted(self.keywords)]
        out += [rec("line", 0, f) for f in ("N", "P", "NT", "NK", "C", "CT", "NN", "NC", "ND", "F", "X")]
        out += [rec("line", 2, "X"), rec("line", 4, "X"), rec("line", 4, "C"), rec("line", 4, "NT")]
        return out

    # ---- behaviour of the real parser on one spelling (public API only) ---------------------------------------------
    def behaves_as(self, ln: dict, p: dict) -> str | None:
        D = self.griffe.Docstring
        text, k, a = p["text"], ln["k"], ln["a"]

        def parse(doc, **opts):
            return D(doc).parse("numpy", **opts)

        def kinds(secs):
            return [s.kind.value.replace(" ", "_") for s in secs]

        if k == "blank":
            return None if not text.strip() else "not blank"
        if k == "hdr":
            secs = parse(f"S.\n\n{text}\n---\nx\n    d")
            return None if kinds(secs) == ["text", a] else f"parser gives {kinds(secs)}"
        if k == "dash":        # underlines the line above: an admonition appears
            secs = parse(f"S.\n\nNote q\n{text}\nbody")
            return None if kinds(secs) == ["text", "admonition"] and secs[1].title == "Note q" else f"parser gives {kinds(secs)}"
        if k == "fence":       # opens a code block: the underlined title below is not interpreted
            secs = parse(f"S.\n\n{text}\nNote q\n------\nbody")
            return None if kinds(secs) == ["text"] else f"parser gives {kinds(secs)} below the fence"
        if k == "prompt":
            secs = parse(f"S.\n\nExamples\n--------\n{text}", trim_doctest_flags=False)
            subs = [(x.value, y) for x, y in secs[1].value] if len(secs) == 2 and secs[1].kind.value == "examples" else None
            return None if subs == [("examples", text)] else f"parser gives {subs}"
        if ln["ind"] != 0:
            return None
        # item header forms, as the Parameters and the Returns readers see them
        ps = parse(f"S.\n\nParameters\n----------\n{text}\n    d")
        rs = parse(f"S.\n\nReturns\n-------\n{text}\n    d")
        pv = [(e.name, None if e.annotation is None else str(e.annotation), e.value) for e in ps[1].value] if len(ps) == 2 else []
        rv = [(e.name, None if e.annotation is None else str(e.annotation)) for e in rs[1].value] if len(rs) == 2 else []
        names, typ = p.get("names") or [], p.get("type")
        want_p = {"N": [(names[0], None, None)], "P": [(names[0], None, None)], "NK": [(names[0], None, None)], "F": [(names[0], None, None)],
                  "NT": [(names[0], typ, None)], "NN": [(n, typ, None) for n in names], "NC": [(names[0], typ, p.get("default"))],
                  "ND": [(names[0], typ, p.get("default"))], "C": [], "CT": [], "X": []}[a] if names or a in ("C", "CT", "X") else None
        whole = text.strip()
        want_r = {"NT": (names[0] if names else "", typ), "NC": (names[0], "{" + (typ or "") + "}"), "NK": (names[0], None), "C": ("", None), "CT": ("", typ)}.get(a, ("", whole))
        if a == "ND":
            want_r = (names[0], rv[0][1] if rv else None)       # the Returns reader keeps `type, default x` as the type
        if a == "P" and names:
            want_p = [(names[0], None, None)]
        norm = lambda t: None if t is None else t.replace(" ", "")  # noqa: E731
        got_p = [(n, norm(t), d) for n, t, d in pv]
        if want_p is not None and got_p != [(n, norm(t), d) for n, t, d in want_p]:
            return f"Parameters reader gives {pv}, class says {want_p}"
        same_type = norm(rv[0][1]) == norm(want_r[1]) or (a == "NT" and (norm(rv[0][1]) or "").startswith(norm(want_r[1]) or "?")) if len(rv) == 1 else False   # the Returns reader keeps `, optional`
        if len(rv) != 1 or rv[0][0] != want_r[0] or not same_type:
            return f"Returns reader gives {rv}, class says {want_r}"
        return None

    def check_classifier(self):
        """Every spelling of every class classifies back to the class, and the PARSER (public API) treats it as that class."""
        n = 0
        for ln in self.long_alphabet():
            for v in range(12):
                for i in (0, 3, 11):
                    p = self.spell(ln, i, v)
                    got = self.classify(p["text"])
                    n += 1
                    if got != ln:
                        die(f"numpy classifier: spelling {p['text']!r} of class {ln} classifies as {got}")
                    if i == 3:
                        diff = self.behaves_as(ln, p)
                        if diff:
                            die(f"numpy classifier: the parser does not treat {p['text']!r} as class {ln}: {diff}")
        return n

    @staticmethod
    def can_be_first(c: dict) -> bool:
        return c["ind"] == 0 and c["k"] != "blank"

    @staticmethod
    def can_be_last(c: dict) -> bool:
        return c["k"] != "blank"

    @staticmethod
    def make_fixed_point(lines: list) -> list:
        if len(lines) > 1 and not any(c["k"] != "blank" and c["ind"] == 0 for c in lines[1:]):
            lines = list(lines)
            lines[1 + (len(lines) - 1) // 2] = {"k": "line", "ind": 0, "a": "N"}
        return lines

    @staticmethod
    def code(lines: list) -> str:
        return " ".join(f"{c['k'][0]}{c['ind']}:{c['a']}" for c in lines)

    @staticmethod
    def no_syntax(lines: list) -> bool:
        return all(ln["k"] != "dash" for ln in lines)

    @staticmethod
    def summary_altered(lines: list, options: dict, parent: str) -> bool:
        return bool(options.get("ignore_init_summary") and parent == "init")

    # ---- projections ------------------------------------------------------------------------------------------
    def project_real(self, sections) -> list:
        out = []
        for s in sections:
            kind = s.kind.value.replace(" ", "_")
            rec = {"kind": kind, "title": s.title}
            if kind == "text":
                rec["lines"] = norm_lines(s.value)
            elif kind == "admonition":
                rec["lines"] = norm_lines(s.value.description)
                rec["admkind"] = s.value.annotation
            elif kind == "examples":
                rec["subs"] = [(k.value, norm_lines(t)) for k, t in s.value]
            elif kind == "deprecated":
                rec["items"] = [{"name": None, "ann": s.value.annotation, "value": None, "lines": norm_lines(s.value.description), "raw": s.value.description}]
            else:
                rec["items"] = [{"name": getattr(el, "name", None), "ann": el.annotation, "value": getattr(el, "value", None), "lines": norm_lines(el.description), "raw": el.description} for el in s.value]
            out.append(rec)
        return out

    def project_spec(self, case_sections: list, parts: list, flags: dict | None = None) -> list:  # noqa: ARG002
        out = []

        def txt(idx):
            return norm_list([parts[i]["text"] for i in idx])

        for s in case_sections:
            kind = s["kind"]
            rec = {"kind": kind, "title": None}
            if kind == "text":
                rec["lines"] = txt(s["tl"])
            elif kind == "admonition":
                title = parts[s["hdr"]]["text"]
                rec["title"] = title
                k = title.lower().replace(" ", "-")
                rec["admkind"] = k[:-1] if k in ("warnings", "notes") else k
                rec["lines"] = txt(s["tl"])
            elif kind == "examples":
                rec["subs"] = [(sub["kind"], txt(sub["tl"])) for sub in s["subs"]]
            else:
                items = []
                for el in s["items"]:
                    p = parts[el["first"]]
                    for c in range(el["cnt"]):
                        items.append({"lines": txt(el["body"]), "name": el["name"], "ann": el["ann"], "dflt": el["dflt"], "first": p, "which": c})
                rec["items"] = items
            out.append(rec)
        return out

    @staticmethod
    def compare(real: list, spec: list) -> tuple[str | None, str | None]:
        if [r["kind"] for r in real] != [s["kind"] for s in spec]:
            return f"section kinds {[r['kind'] for r in real]} != spec {[s['kind'] for s in spec]}", None
        soft = None
        for j, (r, s) in enumerate(zip(real, spec)):
            if r["title"] != s["title"]:
                return f"section {j} ({r['kind']}) title {r['title']!r} != spec {s['title']!r}", None
            if "lines" in s and r["lines"] != s["lines"]:
                return f"section {j} ({r['kind']}) lines {r['lines']} != spec {s['lines']}", None
            if "admkind" in s and r["admkind"] != s["admkind"]:
                return f"section {j} admonition kind {r['admkind']!r} != spec {s['admkind']!r}", None
            if "subs" in s and list(r["subs"]) != list(s["subs"]):
                return f"section {j} examples {r['subs']} != spec {s['subs']}", None
            if "items" in s:
                if len(r["items"]) != len(s["items"]):
                    return f"section {j} ({r['kind']}) has {len(r['items'])} items, spec {len(s['items'])}", None
                for m, (ri, si) in enumerate(zip(r["items"], s["items"])):
                    if ri["lines"] != si["lines"]:
                        return f"section {j} ({r['kind']}) item {m} lines {ri['lines']} != spec {si['lines']}", None
                    p = si["first"]
                    nm, an, df = si["name"], si["ann"], si["dflt"]
                    whole = p["text"].strip()
                    names = p.get("names") or [whole]
                    if nm == "n" and (ri["name"] or "").strip() != names[min(si["which"], len(names) - 1)] and (ri["name"] or "").strip() != whole:
                        soft = soft or f"section {j} item {m} name {ri['name']!r} != written {names!r}"
                    if nm == "x":
                        pass
                    elif nm == "e" and ri["name"] != "":
                        soft = soft or f"section {j} item {m} name {ri['name']!r}, spec says empty"
                    if nm == "l" and (ri["name"] or "").strip() != whole:
                        soft = soft or f"section {j} item {m} name {ri['name']!r}, spec says the whole line {whole!r}"
                    a = ri["ann"]
                    if an == "none" and a is not None:
                        soft = soft or f"section {j} item {m} annotation {a!r}, spec says none"
                    if an == "doc" and (a is None or not (p.get("type") and p["type"].replace(" ", "") in str(a).replace(" ", ""))):
                        soft = soft or f"section {j} item {m} annotation {a!r}, spec says the written one ({p.get('type')!r})"
                    if an == "l" and (a is None or str(a).replace(" ", "") != whole.replace(" ", "")):
                        soft = soft or f"section {j} item {m} annotation {a!r}, spec says the whole line {whole!r}"
                    if df == "doc" and ri["value"] != p.get("default"):
                        soft = soft or f"section {j} item {m} default {ri['value']!r}, spec says the written one ({p.get('default')!r})"
                    if df == "none" and ri["value"] is not None:
                        soft = soft or f"section {j} item {m} default {ri['value']!r}, spec says none"
        return None, soft
