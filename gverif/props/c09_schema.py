"""C09 helper: compile docs/schema.json into spec/Gen_Schema.tla (constants for SerdeSchema.tla), concretise
abstract JSON documents, and map jsonschema errors onto the vocabulary of SerdeSchema!Errs.

The generator is a purely syntactic translation of the draft-07 subset the published schema uses
(type, const, enum, properties, required, additionalProperties, items, oneOf, allOf, if/then, $ref, boolean
schemas) into a normal-form TLA+ record per schema node; anything it does not understand is a machinery error
(exit 2), never silently dropped.  SerdeSchema!Errs is the evaluator of that normal form.
"""
from __future__ import annotations

import json
import os

from gverif.common import REPO, VERIF, die

ANNOTATION_KEYWORDS = {"title", "markdownDescription", "description", "$schema", "$comment", "$defs", "definitions", "examples", "default"}
KNOWN = {"type", "const", "enum", "properties", "required", "additionalProperties", "items", "oneOf", "allOf", "if", "then", "$ref"} | ANNOTATION_KEYWORDS
KIND_VALUES = {"module", "class", "function", "attribute", "alias"}


def schema_path() -> str:
    p = os.path.join(REPO, "docs", "schema.json")
    if not os.path.exists(p):  # scratch copies made for mutants hold src/ only
        p = "/repo/docs/schema.json"
    return p


def load_schema() -> dict:
    with open(schema_path()) as fh:
        return json.load(fh)


def _s(x: str) -> str:
    if '"' in x or "\\" in x:
        die(f"C09 generator: string {x!r} cannot be written as a TLA+ literal")
    return '"' + x + '"'


def _set(xs) -> str:
    return "{" + ", ".join(_s(x) for x in xs) + "}"


def _node(sch, where: str) -> str:
    """TLA+ text of the normal form of one schema node."""
    if sch is True or sch == {}:
        return "AnyS"
    if sch is False:
        die(f"C09 generator: `false` schema at {where} is not supported")
    if not isinstance(sch, dict):
        die(f"C09 generator: schema node at {where} is {type(sch).__name__}")
    unknown = set(sch) - KNOWN
    if unknown:
        die(f"C09 generator: unsupported schema keyword(s) {sorted(unknown)} at {where}")
    if "$ref" in sch:
        # draft-07: siblings of $ref are ignored
        ref = sch["$ref"]
        return f"RefS({_s(ref)})"
    types = sch.get("type", [])
    if isinstance(types, str):
        types = [types]
    for t in types:
        if t not in {"null", "string", "integer", "number", "array", "object", "boolean"}:
            die(f"C09 generator: unknown type {t!r} at {where}")
    hasconst = "const" in sch
    if hasconst and not isinstance(sch["const"], str):
        die(f"C09 generator: non-string const at {where}")
    enum = sch.get("enum", [])
    if any(not isinstance(e, str) for e in enum):
        die(f"C09 generator: non-string enum member at {where}")
    props = sch.get("properties", {})
    props_txt = " @@ ".join(f"({_s(k)} :> {_node(v, where + '/' + k)})" for k, v in props.items()) or "<<>>"
    addl = sch.get("additionalProperties", True)
    if addl is True:
        addl_mode, addl_node = "any", "AnyS"
    elif addl is False:
        addl_mode, addl_node = "none", "AnyS"
    else:
        addl_mode, addl_node = "schema", _node(addl, where + "/additionalProperties")
    items = sch.get("items", True)
    if isinstance(items, list):
        die(f"C09 generator: tuple-form items at {where}")
    if ("if" in sch) != ("then" in sch):
        die(f"C09 generator: if without then (or vice versa) at {where}")
    fields = [
        "any |-> FALSE",
        f"types |-> {_set(types)}",
        f"hasconst |-> {'TRUE' if hasconst else 'FALSE'}",
        f"const |-> {_s(sch['const']) if hasconst else _s('')}",
        f"enum |-> {_set(enum)}",
        f"props |-> ({props_txt})",
        f"required |-> {_set(sch.get('required', []))}",
        f"addl |-> {_s(addl_mode)}",
        f"addls |-> {addl_node}",
        f"items |-> {_node(items, where + '/items')}",
        "oneOf |-> <<" + ", ".join(_node(a, f"{where}/oneOf/{i}") for i, a in enumerate(sch.get("oneOf", []))) + ">>",
        "allOf |-> <<" + ", ".join(_node(a, f"{where}/allOf/{i}") for i, a in enumerate(sch.get("allOf", []))) + ">>",
        f"hasif |-> {'TRUE' if 'if' in sch else 'FALSE'}",
        f"ifs |-> {_node(sch.get('if', True), where + '/if')}",
        f"thens |-> {_node(sch.get('then', True), where + '/then')}",
        'ref |-> ""',
    ]
    return "[" + ", ".join(fields) + "]"


def generate(schema: dict) -> str:
    defs = schema.get("$defs", {})
    if "definitions" in schema:
        die("C09 generator: `definitions` is not supported (the schema uses $defs)")
    refs = {"#": "SchemaRoot"}
    lines = [
        "----------------------------- MODULE Gen_Schema -----------------------------",
        "(* GENERATED at check time by gverif/props/c09_schema.py from docs/schema.json - do not edit. *)",
        "(* One normal-form record per schema node; SerdeSchema!Errs evaluates it.                    *)",
        "EXTENDS TLC",
        "AnyS == [any |-> TRUE]",
        'RefS(r) == [any |-> FALSE, types |-> {}, hasconst |-> FALSE, const |-> "", enum |-> {}, props |-> <<>>, required |-> {},',
        '            addl |-> "any", addls |-> AnyS, items |-> AnyS, oneOf |-> <<>>, allOf |-> <<>>, hasif |-> FALSE, ifs |-> AnyS,',
        "            thens |-> AnyS, ref |-> r]",
    ]
    for name, d in defs.items():
        ident = "Def_" + "".join(ch if ch.isalnum() else "_" for ch in name)
        refs[f"#/$defs/{name}"] = ident
        lines.append(f"{ident} == {_node(d, '#/$defs/' + name)}")
    lines.append(f"SchemaRoot == {_node(schema, '#')}")
    lines.append("SchemaRefs == " + _set(sorted(refs)))
    lines.append("Resolve(r) == CASE " + " [] ".join(f"r = {_s(k)} -> {v}" for k, v in refs.items()))
    # summary constants (the "per object alternative" tables of DESIGN C09), used by the evidence and design notes
    alts = schema.get("oneOf", [])
    for i, alt in enumerate(alts):
        lines.append(f"Alt{i}_Allowed == {_set(sorted(alt.get('properties', {})))}")
        lines.append(f"Alt{i}_Required == {_set(sorted(alt.get('required', [])))}")
        lines.append(f"Alt{i}_Additional == {'TRUE' if alt.get('additionalProperties', True) is not False else 'FALSE'}")
    lines.append("=============================================================================")
    text = "\n".join(lines) + "\n"
    # every $ref must resolve
    def walk(n):
        if isinstance(n, dict):
            if "$ref" in n and n["$ref"] not in refs:
                die(f"C09 generator: unresolvable $ref {n['$ref']!r}")
            for v in n.values():
                walk(v)
        elif isinstance(n, list):
            for v in n:
                walk(v)
    walk(schema)
    return text


def write_gen_schema() -> dict:
    """(Re)write spec/Gen_Schema.tla atomically; returns the schema."""
    schema = load_schema()
    text = generate(schema)
    path = os.path.join(VERIF, "spec", "Gen_Schema.tla")
    try:
        with open(path) as fh:
            if fh.read() == text:
                return schema
    except FileNotFoundError:
        pass
    tmp = f"{path}.{os.getpid()}.tmp"
    with open(tmp, "w") as fh:
        fh.write(text)
    os.replace(tmp, path)
    return schema


# ---------------------------------------------------------------------------------------------------
# abstract JSON <-> concrete JSON
def concretise(j):
    """gamma: a concrete JSON value with the types (and the tracked string values) of the abstract one."""
    t = j["t"]
    if t == "null":
        return None
    if t == "string":
        return j.get("v", "s")
    if t == "integer":
        return 1
    if t == "boolean":
        return True
    if t == "array":
        return [] if j.get("shallow") else [concretise(x) for x in j["items"]]
    if t == "object":
        if j.get("shallow"):
            return {}
        f = j["f"]
        return {} if isinstance(f, list) else {k: concretise(v) for k, v in f.items()}
    raise ValueError(f"abstract value of type {t!r} has no concretisation")


def json_type(v) -> str:
    if v is None:
        return "null"
    if isinstance(v, bool):
        return "boolean"
    if isinstance(v, int):
        return "integer"
    if isinstance(v, float):
        return "number"
    if isinstance(v, str):
        return "string"
    if isinstance(v, list):
        return "array"
    return "object"


def _ctx(doc, path) -> tuple[str, str]:
    """(ctx, key) of the instance at `path`: ctx is the Griffe kind of the nearest enclosing JSON object when it
    has one, else the key that object sits under (docstring, decorators, parameters, parsed ...)."""
    path = list(path)
    # key = last string component; the enclosing object is what that key indexes
    idx = len(path)
    while idx > 0 and not isinstance(path[idx - 1], str):
        idx -= 1
    if idx == 0:
        return "", ""
    key = path[idx - 1]
    parent_path = path[: idx - 1]
    parent = doc
    for p in parent_path:
        parent = parent[p]
    k = parent.get("kind") if isinstance(parent, dict) else None
    if isinstance(k, str) and k in KIND_VALUES:
        return k, key
    pk = ""
    for p in reversed(parent_path):
        if isinstance(p, str):
            pk = p
            break
    return pk, key


def _obj_ctx(doc, path) -> str:
    inst = doc
    for p in path:
        inst = inst[p]
    k = inst.get("kind") if isinstance(inst, dict) else None
    if isinstance(k, str) and k in KIND_VALUES:
        return k
    for p in reversed(list(path)):
        if isinstance(p, str):
            return p
    return ""


def _map_leaf(e, doc) -> set:
    path = list(e.absolute_path)
    out = set()
    if e.validator == "required":
        ctx = _obj_ctx(doc, path)
        for k in e.validator_value:
            if k not in e.instance:
                out.add((ctx, k, "required", "missing"))
    elif e.validator == "additionalProperties":
        ctx = _obj_ctx(doc, path)
        allowed = set(e.schema.get("properties", {}))
        for k in e.instance:
            if k not in allowed:
                out.add((ctx, k, "additional", json_type(e.instance[k])))
    elif e.validator in ("type", "const", "enum"):
        ctx, key = _ctx(doc, path)
        got = json_type(e.instance) if e.validator == "type" or not isinstance(e.instance, str) else e.instance
        out.add((ctx, key, e.validator, got))
    elif e.validator == "oneOf":
        ctx, key = _ctx(doc, path)
        out.add((ctx, key, "oneOf", "multiple"))
    else:
        ctx, key = _ctx(doc, path)
        out.add((ctx, key, str(e.validator), json_type(e.instance)))
    return out


def _collect(err, doc) -> set:
    """Errors of one jsonschema error in the vocabulary of SerdeSchema!Errs.  A oneOf no alternative of which
    matches is replaced by the errors of its closest alternative (fewest errors, then first) - the same rule as
    in the TLA+ evaluator."""
    if err.validator == "oneOf" and err.context:
        groups: dict = {}
        for sub in err.context:
            groups.setdefault(sub.relative_schema_path[0], set()).update(_collect(sub, doc))
        best = min(sorted(groups), key=lambda i: (len(groups[i]), i))
        return groups[best]
    return _map_leaf(err, doc)


_VALIDATORS: dict = {}


def _validator(schema):
    import jsonschema  # noqa: PLC0415

    key = id(schema)
    if key not in _VALIDATORS:
        _VALIDATORS[key] = (schema, jsonschema.Draft7Validator(schema))
    return _VALIDATORS[key][1]


def real_errors(doc, schema) -> set:
    """Errors of jsonschema on the concrete document as tuples (ctx, key, rule, got)."""
    validator = _validator(schema)
    out = set()
    for top in validator.iter_errors(doc):
        out |= _collect(top, doc)
    return out


def model_errors(errs) -> set:
    """The `errs` set emitted by SerdeSchema (list of records) as the same tuples."""
    return {(e["ctx"], e["key"], e["rule"], e["got"]) for e in errs}
