"""X06 (extra) - command-line flows of griffe: spec/Cli.tla (`dump`, global options) and spec/CliCheck.tla (`check`).

TLC enumerates abstract command lines (option combinations x package / repository situations) job by job, runs the
transcription of cli.py (Impl lane) next to the declarative reference and checks the clauses as invariants: the clean
domain must satisfy them, the defect domain must exhibit the recorded defects.  Binding: EVERY enumerated case is
concretised (gverif/props/x06_dump.py, x06_check.py) and executed by the real `griffe.main(argv)` in-process (a
stratified sample also as `python -m griffe` in a child process); the observation (exit status, stdout, stderr
records, files created) is judged against the reference of the spec and against the documented API calls executed
with the loader plan the spec decided (GriffeLoader(...).load / resolve_aliases / as_json / json.dumps(cls=JSONEncoder);
load_git / load / find_breaking_changes / Breakage.explain).
"""
from __future__ import annotations

import json
import multiprocessing
import os
import time
import tempfile
from concurrent.futures import ProcessPoolExecutor, ThreadPoolExecutor

from gverif import tlc
from gverif.common import SEED, die, scratch
from gverif.harness import Run

DUMP_JOBS = ["exit", "extorder", "search", "insp", "placement", "options", "options2", "logging", "usage"]
CHECK_JOBS = {"quick": ["refs", "style", "misc"], "thorough": ["refs", "style", "style2", "misc"]}
FEATURES = ["extra", "sibling", "dup", "empty", "fail", "loadingerror", "statsempty", "escaped", "badfield", "badbrace"]
_W: dict = {}


def tset(xs) -> str:
    return "{" + ",".join(json.dumps(x) for x in xs) + "}"


# ---- worker side -------------------------------------------------------------------------------------------------------
def _worlds(base: str) -> dict:
    if not _W:
        from gverif.props import x06_world as W  # noqa: PLC0415

        root = tempfile.mkdtemp(prefix="w-", dir=base)
        _W["dump"] = os.path.join(root, "dump")
        os.makedirs(_W["dump"])
        W.build_dump_world(_W["dump"])
        _W["sp"] = [os.path.join(_W["dump"], "sp")]
        _W["check"] = {}
        for w in ("tags", "notags", "nogit"):
            _W["check"][w] = os.path.join(root, w)
            os.makedirs(_W["check"][w])
            W.build_check_world(_W["check"][w], tags=(w == "tags"), git=(w != "nogit"))
    return _W


def _work(args):
    base, batch = args
    from gverif.props import x06_check, x06_dump  # noqa: PLC0415

    w = _worlds(base)
    out = []
    for kind, idx, case, variant, sub in batch:
        try:
            if kind == "dump":
                res = x06_dump.judge(w["dump"], case, variant, w["sp"], subprocess_too=sub)
            else:
                res = x06_check.judge(w["check"], case, variant, subprocess_too=sub)
        except Exception as exc:  # noqa: BLE001
            import traceback  # noqa: PLC0415

            res = {"violations": [], "drift": [], "die": [f"harness crashed on {kind} case {idx}: {exc!r}\n{traceback.format_exc()[-1500:]}"], "argv": [], "sub": None}
        out.append((kind, idx, variant, res))
    return out


# ---- driver ------------------------------------------------------------------------------------------------------------------
def _tlc_jobs(tier: str):
    maxpk = 2 if tier == "quick" else 3
    dj = {"JOBS": tset(DUMP_JOBS), "MAXPK": maxpk, "RICH": "FALSE" if tier == "quick" else "TRUE"}
    jobs = [
        # both domains in one run: the clauses are checked on the clean domain (Q_ invariants), every case is emitted
        ("dump", "Cli", "Cli_all.cfg", dj, False),
        ("check", "CliCheck", "CliCheck_check.cfg", {"JOBS": tset(CHECK_JOBS[tier])}, False),
    ]
    if tier == "thorough":
        jobs.append(("dump-defect-inv", "Cli", "Cli_defect.cfg", dj, True))        # the model must EXHIBIT the defects
        jobs.append(("check-full", "CliCheck", "CliCheck_full.cfg", {}, False))    # whole option product, model only
    return jobs


def _run_tlc(job):
    name, module, cfg, consts, expect_violation = job
    res = tlc.run(module, cfg, constants=consts, workers=4, heap="2g", timeout=1500)
    tlc.must(res, allow_violations=expect_violation)
    if expect_violation and not res.violated:
        die(f"X06: {module}/{cfg}: the defect domain satisfies every clause - the model no longer exhibits the recorded defects")
    return name, res


def _stratum(kind: str, case: dict) -> tuple:
    if kind == "dump":
        return (case["job"], case["ref"]["exit"], case["a"]["out"], case["a"]["glob"], case["impl"]["status"])
    return (case["job"], case["ref"]["exit"], case["c"]["world"], case["ref"]["out"]["style"], case["ref"]["color"])


def _nontrivial(kind: str, case: dict) -> tuple:
    if kind == "dump":
        a = case["a"]
        return ("dump", case["job"], a["out"], tuple(case["plan"]["outcomes"]), a["r"], case["plan"]["external"], case["ref"]["exit"], tuple(sorted(case["ref"]["features"])),
                a["insp"], a["L"], a["glob"])
    c = case["c"]
    return ("check", c["world"], case["ref"]["old"], case["ref"]["new"], case["ref"]["exit"], case["ref"]["out"]["style"], case["ref"]["color"], c["e"])


def _vacuity(dump_clean: list, dump_defect: list, check: list):
    outcomes = {o for c in dump_clean + dump_defect for o in c["plan"]["outcomes"]}
    if not {"ok", "notfound", "importerror", "loadingerror", "skipped"} <= outcomes:
        die(f"X06: vacuous enumeration: load outcomes reached {sorted(outcomes)}")
    if {c["ref"]["exit"] for c in dump_clean} != {0, 1, 2} or {c["ref"]["exit"] for c in check} != {0, 1, 2, 3}:
        die("X06: vacuous enumeration: not every exit status is reached")
    feats = {f for c in dump_defect for f in c["ref"]["features"]}
    if not set(FEATURES) <= feats:
        die(f"X06: vacuous defect domain: features reached {sorted(feats)}")
    for f in FEATURES:
        if f == "fail":
            continue
        if not any(f in c["ref"]["features"] and (c["impl"]["exit"], c["impl"]["status"] == "exc", c["impl"]["writes"]) != (c["ref"]["exit"], False, c["ref"]["writes"]) for c in dump_defect):
            die(f"X06: the model does not exhibit any defect for feature {f}")
    if any(c["clean"] is not True for c in dump_clean) or any(c["clean"] for c in dump_defect):
        die("X06: domain filter of Cli.tla broken")
    jobs = {c["job"] for c in dump_clean}
    if jobs != set(DUMP_JOBS):
        die(f"X06: jobs enumerated {sorted(jobs)}")


def main(tier: str, replay: str | None):
    run = Run("X06", tier)
    run.rule = ("distinct (flow, job, output kind, load outcomes, resolution flags, reference exit status, defect features, inspection mode, log level, global option) "
                "for dump; (world, old version, new version, exit status, style, colour, extensions) for check")
    with scratch("x06-") as base:
        if replay:
            with open(replay) as fh:
                stored = json.load(fh)["case"]
            run.add_tlc(tlc.must(tlc.run("CliCheck", "CliCheck_check.cfg", constants={"JOBS": tset(["misc"])})))
            for _kind, _idx, _variant, res in _work((base, [(stored["kind"], 0, stored["case"], stored["variant"], True)])):
                _account(run, stored["kind"], stored["case"], stored["variant"], res)
                run.replayed()
            run.finish()
        ctx = multiprocessing.get_context("fork")
        nproc = max(2, min(12, (os.cpu_count() or 4) - 2))
        with ProcessPoolExecutor(max_workers=nproc, mp_context=ctx) as pool:
            with ThreadPoolExecutor(max_workers=5) as tp:
                results = dict(tp.map(_run_tlc, _tlc_jobs(tier)))
            for res in results.values():
                run.add_tlc(res)
            print(f"X06: TLC done after {time.time() - run.t0:.1f}s", flush=True)
            dump_clean = [c for c in results["dump"].cases if c["clean"]]
            dump_defect = [c for c in results["dump"].cases if not c["clean"]]
            check = results["check"].cases
            _vacuity(dump_clean, dump_defect, check)
            work = [("dump", c) for c in dump_clean + dump_defect] + [("check", c) for c in check]
            seen_strata: set = set()
            items = []
            for idx, (kind, case) in enumerate(work):
                s = _stratum(kind, case)
                sub = s not in seen_strata and (tier == "thorough" or len(seen_strata) < 40)
                if sub:
                    seen_strata.add(s)
                items.append((kind, idx, case, (idx * 7 + SEED) % 12, sub))
            size = 25
            batches = [(base, items[k::max(1, len(items) // size)]) for k in range(max(1, len(items) // size))]
            nsub = 0
            for out in pool.map(_work, batches):
                for kind, idx, variant, res in out:
                    case = work[idx][1]
                    _account(run, kind, case, variant, res)
                    run.replayed()
                    run.nontrivial_case(_nontrivial(kind, case))
                    nsub += res["sub"] is not None
                    if idx % 997 == 0:
                        run.sample({"kind": kind, "argv": res["argv"], "ref_exit": case["ref"]["exit"]})
        run.exhaustive = True
        run.extra = {"cases": {"dump_clean": len(dump_clean), "dump_defect": len(dump_defect), "check": len(check)}, "subprocess_runs": nsub,
                     "drift_notes": len([n for n in run.notes if n.startswith("drift")])}
        run.finish()


_DRIFT_SEEN: set = set()


def _account(run: Run, kind: str, case: dict, variant: int, res: dict):
    if res["die"]:
        die("X06: " + res["die"][0])
    run.evaluated(6 if kind == "dump" else 4)
    for sig, what in res["violations"]:
        run.violation(sig, what, {"kind": kind, "case": case, "variant": variant})
    for d in res["drift"]:
        key = d.split(" for ")[0]
        if key not in _DRIFT_SEEN and len(_DRIFT_SEEN) < 12:
            _DRIFT_SEEN.add(key)
            run.note("drift: " + d)
