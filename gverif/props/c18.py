"""C18 - synthesised dataclass constructors equal the ones CPython generates (spec/Dataclass.tla).

TLC decides, on the model, `ImplInit(chain) = PyInit(chain)` (names, order, kinds, required-ness, existence of
the synthesised __init__, hand-written __init__ untouched, none for non-dataclasses, "dataclass" label) for
every program of the enumerated domains, and evaluates both transcriptions on programs the driver supplies
(target mode: seeded random deep chains, counterexamples of the witness runs, stored replay cases).

Binding - every program TLC finishes is rendered to real source (4 spellings) and
   * loaded statically from disk by the real Griffe (the built-in extension runs in GriffeLoader._post_load):
        real Griffe vs spec reference  -> the property on the code          (VIOLATION / KNOWN-FINDING)
        real Griffe vs spec Impl       -> conformance of the transcription  ("explained"; drift note)
   * executed by the real CPython:
        inspect.signature / is_dataclass vs spec reference -> validity of the reference (exit 2 when different)
        inspect.signature(cls.__init__) vs Griffe cls.parameters -> the property without any model in between.

TLC runs:
   check   Allow = all, Fix = {}  : clean programs (no defect trigger) satisfy every clause; CASE lines
   fixed   Allow = all, Fix = all : with the ten repairs Impl = CPython everywhere (list complete)
   witness Allow = {t}, StrictSame: TLC exhibits the defect of trigger t; the counterexample is replayed
   target  programs from a JSON file
"""
from __future__ import annotations

import json
import multiprocessing
import os
import random
from concurrent.futures import ThreadPoolExecutor, as_completed

from gverif import tlc
from gverif.common import SEED, VERIF, die, ensure_repo, scratch
from gverif.harness import Run
from gverif.props import c18_render as R

TAGS = ["kwF", "pinitF", "initF", "cvbare", "fempty", "inhdef", "annprop", "noninit", "labelhand", "handassign"]
PLAIN_FORMS = ["ann", "annval", "unann", "prop"]
FIELD_FORMS = ["ann", "annval", "fdef", "ffac", "finitF", "finitFd", "fkwT", "fkwTd", "fkwF", "fkwFd", "fempty", "fother", "finitT",
               "classvar", "classvarN", "classvarB", "initvar", "initvarD", "prop", "annprop", "unann"]
NAMES = ["a", "b", "c", "d"]

TIERS = {
    # enum: groups of domains explored by one JVM each (domains, TLC workers, spellings per program); fixed: the same for
    # the Fix = all runs; witness: "all" = one run over the unrestricted domain, "each" = one run per trigger (Allow = {t});
    # ntarget: seeded random programs evaluated in target mode (tvariants spellings each); procs: replay processes
    "quick": {"enum": [(["pair_q", "single3q", "tree_q", "nested_q"], 4, 1), (["triple_q", "single2", "reload_q", "split_q"], 4, 1)], "fixed": [(["single2", "pair_w"], 2)],
              "witness": "all", "ntarget": 3000, "tvariants": 1, "procs": 10, "jvms": 6},
    "thorough": {"enum": [(["pair_t"], 5, 1), (["triple_t"], 5, 1), (["single3"], 5, 1), (["pair_m", "single4"], 5, 1), (["pairhdr"], 5, 1),
                          (["tree_t", "reload_t", "split_t"], 5, 1), (["pair_q", "single3q", "triple_q", "single2", "tree_q", "reload_q", "nested_q", "split_q"], 4, 2)],
                 "fixed": [(["pair_q", "single3q", "triple_q", "single2", "pair_w", "tree_q"], 4), (["pair_m", "pairhdr"], 5)],
                 "witness": "each", "ntarget": 50000, "tvariants": 2, "procs": 10, "jvms": 3},
}

# JVM settings for the short TLC runs (fewer GC / JIT threads per JVM: several JVMs run side by side)
JVM_SMALL = {"JAVA_TOOL_OPTIONS": "-XX:ParallelGCThreads=2 -XX:CICompilerCount=2 -XX:TieredStopAtLevel=1"}
JVM_BIG = {"JAVA_TOOL_OPTIONS": "-XX:ParallelGCThreads=4"}


def tla_set(items) -> str:
    return "{" + ", ".join(f'"{t}"' for t in items) + "}"


def assumed_fixed() -> list:
    """Triggers whose repaired behaviour is the baseline: the Impl transcription is evaluated with Fix = that set.

    * findings.d/C18.json entries with "status": "fixed" (their "tag"): the fix is in the tree, the finding no longer
      suppresses anything, the model predicts the repaired behaviour (no drift) and a regression is a VIOLATION;
    * VERIF_C18_FIX=tag,tag adds triggers for one run (validation of proposed_fixes/ on a scratch copy)."""
    tags = [t for t in os.environ.get("VERIF_C18_FIX", "").replace(" ", "").split(",") if t]
    try:
        with open(os.path.join(VERIF, "findings.d", "C18.json")) as fh:
            for f in json.load(fh).get("findings", []):
                if f.get("status") == "fixed" and f.get("tag"):
                    tags.append(f["tag"])
    except FileNotFoundError:
        pass
    tags = sorted(set(tags), key=lambda t: TAGS.index(t) if t in TAGS else -1)
    for t in tags:
        if t not in TAGS:
            die(f"C18: unknown trigger {t!r} (VERIF_C18_FIX / findings.d/C18.json)")
    if ("pinitF" in tags) != ("initF" in tags):
        die("C18: triggers pinitF and initF are repaired by the same patch (C18-v2-2-init-false): mark both findings fixed or neither")
    return tags


# ---- programs beyond the enumerated bounds (target mode) ------------------------------------------
def random_chain(rnd: random.Random) -> list:
    chain = []
    for level in range(rnd.choice([2, 3, 3, 4])):
        dc = rnd.random() < 0.75
        hdr = {"dc": dc, "init": rnd.choice(["u", "u", "u", "T", "F"]) if dc else "u",
               "kw": rnd.choice(["u", "u", "T", "F"]) if dc else "u", "hand": rnd.random() < 0.15}
        hdr["assign"] = hdr["hand"] and rnd.random() < 0.4
        names = rnd.sample(NAMES, rnd.choice([0, 1, 2, 2, 3, 3, 4]))
        if chain and rnd.random() < 0.5:     # prefer the order of the parent (overrides) half of the time
            names.sort()
        fields, seen_default = [], False
        sentinel_at = rnd.randrange(len(names) + 1) if dc and rnd.random() < 0.25 else -1
        for j, n in enumerate(names):
            if j == sentinel_at:
                fields.append({"name": "_", "form": "kwonly"})
            forms = FIELD_FORMS if dc else PLAIN_FORMS
            form = rnd.choice(forms)
            if dc and seen_default and rnd.random() < 0.8:     # fewer TypeError("non-default argument follows default")
                form = rnd.choice(["annval", "fdef", "ffac", "fkwFd", "fkwT", "fkwTd", "classvar", "initvarD", "finitF", "prop", "unann", "annprop"])
            if form in ("annval", "fdef", "ffac", "fkwFd", "initvarD", "annprop", "classvarB"):
                seen_default = True
            fields.append({"name": n, "form": form})
        if sentinel_at == len(names):
            fields.append({"name": "_", "form": "kwonly"})
        # base: mostly the previous class (chain), otherwise any earlier class (siblings, trees)
        base = 0 if level == 0 else (level if rnd.random() < 0.55 else rnd.randrange(1, level + 1))
        chain.append({"hdr": hdr, "base": base, "fields": fields})
    return chain


def random_program(rnd: random.Random) -> dict:
    """A chain/tree plus its layout: nested in an outer class, or spread over two packages loaded one after the other."""
    chain = random_chain(rnd)
    r = rnd.random()
    if r < 0.2:
        return {"chain": chain, "outer": rnd.choice(["hand", "hand", "plain"]), "split": 0}
    if r < 0.45:
        return {"chain": chain, "outer": "none", "split": rnd.randrange(1, len(chain)), "link": rnd.choice(["import", "wildcard"])}
    return {"chain": chain, "outer": "none", "split": 0}


def chain_to_target(chain: list) -> list:
    """CASE encoding (fields as [name, form] pairs) or trace encoding -> the JSON the spec reads."""
    out = []
    for c in chain:
        fields = [f if isinstance(f, dict) else {"name": f[0], "form": f[1]} for f in c["fields"]]
        out.append({"hdr": {k: c["hdr"][k] for k in ("dc", "init", "kw", "hand", "assign")}, "base": c["base"], "fields": fields})
    return out


def run_targets(directory: str, chains: list, fix: list, workers: int = 4):
    """chains: programs {"chain", "outer", "split"} (a bare chain = module level, one package)."""
    chains = [c if isinstance(c, dict) and "chain" in c else {"chain": c, "outer": "none", "split": 0} for c in chains]
    path = os.path.join(directory, "targets.json")
    with open(path, "w") as fh:
        json.dump([{"chain": chain_to_target(c["chain"]), "outer": c.get("outer", "none"), "split": c.get("split", 0),
                    "link": c.get("link", "import")} for c in chains], fh)
    res = tlc.run("Dataclass", "Dataclass_check.cfg", workers=workers, timeout=1500,
                  constants={"DOMS": tla_set(["target"]), "ALLOW": tla_set(TAGS), "FIX": tla_set(fix), "EMIT": "TRUE"},
                  env={"C18_TARGETS": path, **(JVM_SMALL if len(chains) < 20000 else JVM_BIG)})
    tlc.must(res)
    got = {c["tid"] for c in res.cases}
    if got != set(range(1, len(chains) + 1)):
        missing = sorted(set(range(1, len(chains) + 1)) - got)[:3]
        die(f"C18: TLC did not finish {len(chains) - len(got)} supplied program(s) (not in the spec's vocabulary?), e.g. {[chains[i - 1] for i in missing]}")
    return res


# ---- aggregation of worker results ----------------------------------------------------------------
class Agg:
    def __init__(self, run: Run, fix: list):
        self.run = run
        self.fix = tuple(fix)
        self.drift: dict = {}
        self.seen_tags: dict = {t: 0 for t in TAGS}       # tagged, well-formed, real code differs from CPython
        self.ncase = 0

    def account(self, case: dict):
        """Counting on the parent side (cheap, deterministic)."""
        self.ncase += 1
        if case["wf"] and any(c["hdr"]["dc"] and c["fields"] for c in case["chain"]):
            self.run.nontrivial_case(self.ncase)

    def absorb(self, result: dict):
        self.run.replayed(result["n"])
        self.run.evaluated(result["n"])
        for s in result["samples"]:
            self.run.sample(s, limit=4)
        for ident, kind, *rest in result["events"]:
            if kind == "die":
                die("C18: " + rest[0])
            elif kind == "drift":
                self.drift[rest[0][:90]] = self.drift.get(rest[0][:90], 0) + 1
            elif kind == "viol":
                sig, what = rest
                for t in sig["tags"]:
                    self.seen_tags[t] += 1
                self.run.violation(sig, what, {"case": ident})


def dispatch(pool, directory: str, agg: Agg, cases: list, nvariants: int, counter: list, chunk: int = 250):
    """Cut the cases of one TLC run into jobs for the process pool; returns the AsyncResults."""
    pending = []
    for s in range(0, len(cases), chunk):
        items = []
        for case in cases[s:s + chunk]:
            agg.account(case)
            for v in range(nvariants):
                items.append((case, (counter[0] + v) % R.NVARIANTS))
            counter[0] += 1
        cid = counter[1] = counter[1] + 1
        jobdir = os.path.join(directory, f"j{cid}")
        os.makedirs(jobdir, exist_ok=True)
        pending.append(pool.apply_async(R.replay_chunk, ((cid, jobdir, items, agg.fix),)))
    return pending


def main(tier: str, replay: str | None = None):
    ensure_repo()
    run = Run("C18", tier)
    cfg = TIERS[tier]
    fix = assumed_fixed()
    run.rule = ("Dataclass.tla: every inheritance chain within the enumerated domains (1-3 classes, dataclass or plain, decorator "
                "arguments init/kw_only in {unset,True,False}, optional hand-written __init__, <=2-4 statements per class over 22 field forms, "
                "overriding names) plus seeded random deeper chains evaluated by TLC in target mode; each rendered in 1-2 of 4 spellings. "
                "Non-trivial = CPython accepts the program and at least one dataclass of the chain declares a field; distinct by abstract chain.")
    with scratch("c18-") as directory:
        if replay:
            with open(replay) as fh:
                rec = json.load(fh)
            print(rec["what"])
            c = rec["case"]["case"]
            res = run_targets(directory, [c], fix, workers=1)
            run.add_tlc(res)
            agg = Agg(run, fix)
            items = [(res.cases[0], c["variant"])]
            agg.account(res.cases[0])
            jobdir = os.path.join(directory, "j0")
            os.makedirs(jobdir)
            agg.absorb(R.replay_chunk((int(c.get("style", 0)), jobdir, items, agg.fix)))     # chunk id parity = load style
            for k, v in agg.drift.items():
                run.note(f"{v} program(s): {k}")
            run.finish()

        ctx = multiprocessing.get_context("fork")
        pool = ctx.Pool(cfg["procs"])          # forked before any thread exists; workers inherit the imported working tree
        agg = Agg(run, fix)
        counter = [SEED % R.NVARIANTS, 0]
        pending = []
        ALL = tla_set(TAGS)
        try:
            with ThreadPoolExecutor(max_workers=cfg["jvms"]) as tp:
                futs = {}
                for doms, w, nv in cfg["enum"]:
                    futs[tp.submit(tlc.run, "Dataclass", "Dataclass_check.cfg", workers=w, timeout=2400, env=JVM_BIG,
                                   constants={"DOMS": tla_set(doms), "ALLOW": ALL, "FIX": tla_set(fix), "EMIT": "TRUE"})] = ("check", nv)
                wruns = [(t, tla_set([t])) for t in TAGS if t not in fix] if cfg["witness"] == "each" else [("all", tla_set([t for t in TAGS if t not in fix]))]
                for t, allow in wruns:
                    futs[tp.submit(tlc.run, "Dataclass", "Dataclass_witness.cfg", workers=1, timeout=600, dump_trace=True, env=JVM_SMALL,
                                   constants={"DOMS": tla_set(["single2", "pair_w"]), "ALLOW": allow})] = ("witness", t)
                for doms, w in cfg["fixed"]:
                    futs[tp.submit(tlc.run, "Dataclass", "Dataclass_check.cfg", workers=w, timeout=2400, env=JVM_BIG if w > 2 else JVM_SMALL,
                                   constants={"DOMS": tla_set(doms), "ALLOW": ALL, "FIX": ALL, "EMIT": "FALSE"})] = ("fixed", tuple(doms))
                # seeded random programs beyond the enumerated bounds
                rnd = random.Random(SEED)
                seen, chains = set(), []
                while len(chains) < cfg["ntarget"]:
                    ch = random_program(rnd)
                    key = json.dumps(ch, sort_keys=True)
                    if key not in seen:
                        seen.add(key)
                        chains.append(ch)
                seen.clear()
                futs[tp.submit(run_targets, directory, chains, fix, 4)] = ("target", cfg["tvariants"])
                witnesses: dict = {}
                isolated: dict = {}      # per trigger: smallest program carrying only that trigger on which Impl differs from CPython
                fixed_ok = []
                counts: dict = {}
                for fut in as_completed(futs):
                    what, name = futs[fut]
                    res = fut.result()
                    if what == "witness":
                        if res.errors or "StrictSame" not in res.violated or not res.trace:
                            print(res.tail)
                            die(f"C18: the model does not exhibit the defect of trigger(s) {name!r} (violated={res.violated}, errors={res.errors[:2]})")
                        run.add_tlc(res)
                        witnesses[name] = res.trace[-1]["chain"]
                        continue
                    tlc.must(res)
                    run.add_tlc(res)
                    if what == "fixed":
                        fixed_ok += list(name)
                        continue
                    for c in res.cases:
                        counts[c["dom"]] = counts.get(c["dom"], 0) + 1
                        if len(c["tags"]) == 1 and c["wf"] and c["impl"] != c["ref"]:
                            size = sum(1 + len(x["fields"]) for x in c["chain"])
                            if c["tags"][0] not in isolated or size < isolated[c["tags"][0]][0]:
                                isolated[c["tags"][0]] = (size, c["chain"])
                    pending += dispatch(pool, directory, agg, res.cases, name, counter)
                    res.cases = []
            # the counterexamples of the witness runs, through TLC again (target mode) and onto the real code
            wtags = sorted(witnesses)
            if wtags:
                wres = run_targets(directory, [witnesses[t] for t in wtags], fix, workers=1)
                run.add_tlc(wres)
                by_tid = {c["tid"]: c for c in wres.cases}
                wnote = {}
                for n, t in enumerate(wtags, 1):
                    case = by_tid[n]
                    if case["impl"] == case["ref"]:
                        die(f"C18: witness of {t!r} replayed in target mode shows no difference: {case}")
                    jobdir = os.path.join(directory, f"w{n}")
                    os.makedirs(jobdir)
                    items = [(case, 0)]
                    agg.account(case)
                    before = sum(agg.seen_tags.values())
                    agg.absorb(R.replay_chunk((f"w{n}", jobdir, items, agg.fix)))
                    wnote[t] = {"chain": case["chain"], "tags": case["tags"], "real_code_differs_from_cpython": sum(agg.seen_tags.values()) > before}
                run.extra["witnesses"] = wnote
            for ar in pending:
                agg.absorb(ar.get(timeout=3600))
        finally:
            pool.terminate()
        for t in TAGS:
            if t not in fix and t not in isolated:
                die(f"C18: no enumerated program exhibits trigger {t!r} in isolation (Impl differing from CPython) - the defect domain is vacuous")
        run.extra["isolated_defect_programs"] = {t: v[1] for t, v in isolated.items()}
        run.extra["cases_per_domain"] = counts
        run.extra["fix_complete_on"] = sorted(fixed_ok)
        run.extra["violating_programs_per_trigger"] = agg.seen_tags
        run.exhaustive = True     # of the enumerated domains; the random target programs are a sample by construction
        # ---- vacuity
        for doms, _w, _nv in cfg["enum"]:
            for dom in doms:
                if counts.get(dom, 0) < 500:
                    die(f"C18: domain {dom} produced only {counts.get(dom, 0)} programs - vacuous")
        if len(run.nontrivial) < 5000:
            die(f"C18: only {len(run.nontrivial)} non-trivial programs - vacuous")
        for k, v in sorted(agg.drift.items()):
            run.note(f"model drift, {v} program(s): {k}")
        for t in TAGS:
            if t not in fix and agg.seen_tags[t] == 0:
                run.note(f"trigger {t}: no program carrying it made the real code differ from CPython (defect fixed in this tree?)")
        run.finish()
