"""C16 - object-tree invariants after any history of member mutations (spec/Tree.tla).

TLC decides I1..I7 on the model (three domains: clean / free / lost, see Tree.tla).  Binding:
  * "trans" replay: every transition TLC enumerates (pre-state, API call, post-state) is executed on
    real Griffe objects: the pre-state is materialised, the call is made with one of three key
    spellings, the projection of the real objects is compared with the spec's post-state field by
    field (conformance) and I1..I7 are evaluated on the real objects (the property on the code);
  * "hist" replay: long random behaviours from `tlc -simulate` are executed call by call from an
    empty collection, same comparison after every call.
"""
from __future__ import annotations

import json
import random
import tempfile

from gverif import tlc
from gverif.common import SEED, ensure_repo
from gverif.harness import Run

NAMES = ["m", "n", "K", "f", "x", "a"]
NAME_OF = {"m1": "m", "m2": "m", "n1": "n", "k1": "K", "k2": "K", "f1": "f", "f2": "f", "x1": "x", "a1": "a", "a2": "a", "a3": "K"}
KIND_OF = {"m1": "module", "m2": "module", "n1": "module", "k1": "class", "k2": "class", "f1": "function", "f2": "function", "x1": "attribute", "a1": "alias", "a2": "alias", "a3": "alias"}
FILE_OF = {"m1": "/c16/m.py", "m2": "/c16/m.pyi", "n1": "/c16/n.py"}
ALIASES = ("a1", "a2", "a3")
CONT = ["COLL", "m1", "m2", "n1", "k1", "k2"]
NIL = "nil"


class World:
    """Real Griffe objects for the spec's universe + projection onto the spec's variables."""

    def __init__(self, griffe, atpath: dict):
        self.g = griffe
        self.coll = griffe.ModulesCollection()
        self.o = {}
        for oid, kind in KIND_OF.items():
            nm = NAME_OF[oid]
            if kind == "module":
                from pathlib import Path  # noqa: PLC0415

                self.o[oid] = griffe.Module(nm, filepath=Path(FILE_OF[oid]))
            elif kind == "class":
                self.o[oid] = griffe.Class(nm)
            elif kind == "function":
                self.o[oid] = griffe.Function(nm)
            elif kind == "attribute":
                self.o[oid] = griffe.Attribute(nm)
            else:
                self.o[oid] = griffe.Alias(nm, ".".join(atpath[oid]))
        self.ids = {id(v): k for k, v in self.o.items()}
        self.ids[id(self.coll)] = "COLL"

    def obj(self, oid):
        return self.coll if oid == "COLL" else self.o[oid]

    def sid(self, real):
        if real is None:
            return NIL
        return self.ids.get(id(real), f"unknown:{type(real).__name__}:{getattr(real, 'name', '?')}")

    def materialise(self, snap: dict):
        """Put the real objects into the abstract state `snap` (writes the fields the API itself writes)."""
        for c in CONT:
            d = self.obj(c).members
            d.clear()
            for n in NAMES:
                v = snap["members"][c][n]
                if v != NIL:
                    d[n] = self.o[v]
                    if c == "COLL":
                        self.o[v]._modules_collection = self.coll
        for oid, p in snap["parent"].items():
            real = self.o[oid]
            pv = None if p == NIL else self.obj(p)
            if KIND_OF[oid] == "alias":
                real._parent = pv
            else:
                real.parent = pv
        for a in ALIASES:
            t = snap["atarget"][a]
            self.o[a]._target = None if t == NIL else self.o[t]
            self.o[a].target_path = ".".join(snap["atpath"][a])
        for oid in self.o:
            if KIND_OF[oid] != "alias":
                self.o[oid].aliases = {".".join(r["path"]): self.o[r["alias"]] for r in snap["backrefs"][oid]}  # insertion order = spec order

    def project(self, outcome: str) -> dict:
        members = {}
        for c in CONT:
            d = self.obj(c).members
            members[c] = {n: self.sid(d.get(n)) for n in NAMES}
            extra = [k for k in d if k not in NAMES]
            if extra:
                members[c]["<extra>"] = extra
        parent = {}
        for oid, real in self.o.items():
            parent[oid] = self.sid(real._parent if KIND_OF[oid] == "alias" else real.parent)
        atarget = {a: self.sid(self.o[a]._target) for a in ALIASES}
        atpath = {a: self.o[a].target_path.split(".") for a in ALIASES}
        backrefs = {}
        for oid, real in self.o.items():
            if KIND_OF[oid] == "alias":
                backrefs[oid] = []
            else:
                backrefs[oid] = [{"path": p.split("."), "alias": self.sid(al)} for p, al in real.aliases.items() if id(al) in self.ids]  # dict order
        return {"members": members, "parent": parent, "atarget": atarget, "atpath": atpath, "backrefs": backrefs, "outcome": outcome}

    # ---- the API calls -----------------------------------------------------------------------------
    def call(self, op: dict, spelling: int) -> str:
        g = self.g
        key = op["key"]
        forms = [".".join(key), tuple(key), list(key)]
        k = forms[spelling % 3] if key else None
        try:
            if op["name"] == "set_member":
                self.obj(op["root"]).set_member(k, self.o[op["value"]])
            elif op["name"] == "setitem":
                self.obj(op["root"])[k] = self.o[op["value"]]
            elif op["name"] == "del_member":
                self.obj(op["root"]).del_member(k)
            elif op["name"] == "delitem":
                del self.obj(op["root"])[k]
            elif op["name"] == "set_target":
                self.o[op["root"]].target = self.o[op["value"]]
            elif op["name"] == "resolve":
                self.o[op["root"]].resolve_target()
            else:
                raise ValueError(op["name"])
        except KeyError:
            return "KeyError"
        except g.CyclicAliasError:
            return "Cyclic"
        except g.AliasResolutionError:
            return "AliasResolutionError"
        except AttributeError:
            return "AttributeError"
        except RuntimeError as exc:
            return "RuntimeError" if "changed size during iteration" in str(exc) else "Other:RuntimeError"
        except Exception as exc:  # noqa: BLE001
            return "Other:" + type(exc).__name__
        return "ok"

    # ---- the property evaluated on the real objects -----------------------------------------------
    def attached(self):
        """(spec id, real object, parts) of every universe object reachable from the collection via real members."""
        out = []

        def walk(cont, parts, depth):
            for n, real in list(cont.members.items()):
                if real.is_alias:
                    out.append((self.sid(real), real, [*parts, n]))
                    continue
                out.append((self.sid(real), real, [*parts, n]))
                if depth < 4:
                    walk(real, [*parts, n], depth + 1)

        walk(self.coll, [], 0)
        return out

    def invariants(self, pre: dict | None, op: dict | None, outcome: str) -> list:
        bad = []
        g = self.g
        att = self.attached()
        # I1 parent is container
        in_tree = {id(r) for _, r, _ in att}
        for c in CONT[1:]:
            if id(self.o[c]) not in in_tree:
                continue   # e.g. a stubs module that was merged away keeps its dict
            for n, real in self.o[c].members.items():
                if real.parent is not self.o[c]:
                    stubs = KIND_OF[c] == "module" and FILE_OF[c].endswith(".pyi")
                    bad.append(("I1", f"{c}.members[{n!r}].parent is {self.sid(real.parent)}", "reinserted-merged-stubs-module" if stubs else "-"))
        for sid, real, parts in att:
            dotted = ".".join(parts)
            # I2 retrievable by own path, through every key spelling and both lookup APIs
            try:
                own = real.path
                if own != dotted:
                    bad.append(("I2", f"{sid}.path = {own!r} but it sits at {dotted!r}"))
                for k in (own, tuple(own.split(".")), own.split(".")):
                    if self.coll.get_member(k) is not real:
                        bad.append(("I2", f"coll.get_member({k!r}) is not {sid}"))
                    if self.coll[k] is not real:
                        bad.append(("I2", f"coll[{k!r}] is not {sid}"))
            except Exception as exc:  # noqa: BLE001
                bad.append(("I2", f"{sid} at {dotted}: lookup by own path raised {exc!r}"))
                continue
            # I3 lookup by dotted path equals chained lookup (every split point)
            for i in range(1, len(parts)):
                try:
                    head = self.coll.get_member(parts[:i])
                    if head.is_alias:
                        break
                    if head.get_member(parts[i:]) is not real or head[tuple(parts[i:])] is not real or self.coll[".".join(parts[:i])][".".join(parts[i:])] is not real:
                        bad.append(("I3", f"chained lookup {parts[:i]} + {parts[i:]} differs from direct lookup"))
                except Exception as exc:  # noqa: BLE001
                    bad.append(("I3", f"chained lookup {parts[:i]} + {parts[i:]} raised {exc!r}"))
        # I6 / I7 aliases
        for a in ALIASES:
            al = self.o[a]
            if al._target is al:
                bad.append(("I7", f"{a} targets itself"))
            if al._target is None or not any(r is al for _, r, _ in att):
                continue
            # final target through already-resolved links only
            t, hops = al._target, 0
            while t is not None and t.is_alias and hops < 4:
                if t is al:
                    bad.append(("I7", f"{a} reaches itself"))
                    t = None
                    break
                t, hops = t._target, hops + 1
            if t is None or t.is_alias:
                continue
            if t.aliases.get(al.path) is not al:
                stale = [p for p, x in t.aliases.items() if x is al]
                cause = "listed-under-old-path" if stale else ("chain-link-retargeted" if hops else "not-listed")
                if cause == "not-listed" and pre is not None and op is not None:
                    # was this alias listed under this path before the call, and is the call about something else?
                    # then its entry was overwritten by the re-registration of a REMOVED alias (stale back-reference)
                    holder = t.aliases.get(al.path)
                    was = any(r["alias"] == a and ".".join(r["path"]) == al.path for rs in pre["backrefs"].values() for r in rs)
                    # the entry now belongs to another alias object that does not live at this path (removed or moved away)
                    removed = holder is not None and holder is not al and not any(r is holder and ".".join(parts) == al.path for _, r, parts in att)
                    # (`was`: it was listed before this call; or the alias just came (back) into the tree with one of its
                    #  ancestors while the key was taken over, in its absence, by an alias that has itself left that path)
                    reattached = pre is not None and not self._pre_attached(pre, a)
                    if (was or reattached) and removed and op.get("value") != a and op.get("root") != a:
                        cause = "entry-overwritten-by-removed-alias"
                bad.append(("I6", f"{a} (path {al.path}) is not listed in aliases of its final target {self.sid(t)}: {sorted(t.aliases)}", cause))
        if op is not None and outcome == "ok":
            key = op["key"]
            if op["name"] in ("set_member", "setitem"):
                # the inserted value is retrievable under the key it was inserted with
                try:
                    got = self.obj(op["root"]).get_member(tuple(key))
                except Exception as exc:  # noqa: BLE001
                    got = exc
                val = self.o[op["value"]]
                merged = (KIND_OF[op["value"]] == "module" and not isinstance(got, BaseException) and not getattr(got, "is_alias", True) and got.kind.value == "module" and got is not val
                          and str(got.filepath).endswith(".pyi") != str(val.filepath).endswith(".pyi") and not str(got.filepath).endswith(".pyi"))
                if got is not val and not merged:   # (a stubs module set over / under its regular module is merged: the regular one is stored)
                    crosses = False
                    cur = self.obj(op["root"])
                    for part in key[:-1]:
                        cur = cur.members.get(part) if not getattr(cur, "is_alias", False) else None
                        if cur is None:
                            break
                        if cur.is_alias:
                            crosses = True
                            break
                    bad.append(("I2", f"after {op['name']}({op['root']}, {key}) the value is not retrievable: get_member -> {got!r}", "key-crosses-alias" if crosses else "lost"))
            if op["name"] in ("del_member", "delitem"):
                # I4 deleted members are gone
                for getter in ("get_member", "__getitem__"):
                    try:
                        getattr(self.obj(op["root"]), getter)(tuple(key))
                        bad.append(("I4", f"deleted key {key} still retrievable via {getter}"))
                    except KeyError:
                        pass
                    except (g.AliasResolutionError, g.CyclicAliasError):
                        pass
            if op["name"] == "set_member" and pre is not None:
                # I5 aliases follow the replacement
                self._i5(pre, op, bad)
        return bad

    def _i5(self, pre, op, bad):
        """Every attached alias that pointed at the non-alias member previously stored at the written key
        now points at the value stored there (the replacement, or the kept regular module after a stub
        merge), unless that would be a self-target (same object / same path)."""
        key = op["key"]
        cont = op["root"]
        for part in key[:-1]:
            cont = pre["members"].get(cont, {}).get(part, NIL)
            if cont not in CONT:
                return
        old = pre["members"][cont][key[-1]]
        val = op["value"]
        if old == NIL or old == val or KIND_OF[old] == "alias":
            return
        stored = self.obj(cont).members.get(key[-1])
        for a in ALIASES:
            al = self.o[a]
            pointed = pre["atarget"][a] == old
            listed = any(r["alias"] == a and r["path"] == self._pre_path(pre, a) for r in pre["backrefs"][old])
            if pointed and listed and pre["parent"][a] != NIL and self._pre_attached(pre, a):
                if al is stored or al._target is stored:
                    continue
                try:
                    same_path = stored is not None and al.path == stored.path
                except Exception:  # noqa: BLE001
                    same_path = False
                if not same_path:
                    refused = self._pre_path(pre, val) == self._pre_path(pre, a)
                    bad.append(("I5", f"{a} pointed at {old}; after set_member stored {self.sid(stored)} at that key, {a} targets {self.sid(al._target)}",
                                "refused-by-stale-value-path" if refused else "-"))

    @staticmethod
    def _pre_attached(pre, oid):
        n = 0
        while n < 6:
            holders = [c for c in CONT if pre["members"][c][NAME_OF[oid]] == oid]
            if "COLL" in holders:
                return True
            holders = [h for h in holders if h != "COLL"]
            if not holders:
                return False
            oid = holders[0]
            n += 1
        return False

    @staticmethod
    def _pre_path(pre, oid):
        parts = [NAME_OF[oid]]
        p = pre["parent"][oid]
        n = 0
        while p not in (NIL, "COLL") and n < 5:
            parts.insert(0, NAME_OF[p])
            p = pre["parent"][p]
            n += 1
        return parts


def norm(snap: dict) -> dict:
    return json.loads(json.dumps(snap))


def first_diff(a: dict, b: dict) -> str:
    for k in a:
        if a[k] != b.get(k):
            if isinstance(a[k], dict):
                for kk in a[k]:
                    if a[k][kk] != b[k].get(kk):
                        return f"{k}[{kk}]: spec {a[k][kk]} real {b[k].get(kk)}"
            return f"{k}: spec {a[k]} real {b.get(k)}"
    return "?"


def replay_transitions(run: Run, griffe, cases: list, mode: str, cap: int, rnd: random.Random):
    if len(cases) > cap:
        # keep every successful call and every distinct failing (op, outcome) class; sample the rest
        cases = rnd.sample(cases, cap)
        run.exhaustive = False
    drift = 0
    for i, tr in enumerate(cases):
        w = World(griffe, tr["pre"]["atpath"])
        w.materialise(tr["pre"])
        check = norm(w.project(tr["pre"]["outcome"]))
        if check != norm(tr["pre"]):
            from gverif.common import die

            die(f"C16: materialise/project round trip failed: {first_diff(norm(tr['pre']), check)}")
        # violations already present in the (materialised) pre-state belong to the transition that created
        # them (it is enumerated on its own): only what this call adds is attributed to it
        pre_bad = {(b[0], b[1].split(": [")[0]) for b in w.invariants(None, None, "ok")}
        outcome = w.call(tr["op"], i)
        real = norm(w.project(outcome))
        run.evaluated()
        run.replayed()
        sig_base = {"mode": mode, "op": tr["op"]["name"]}
        if tr["post"]["outcome"] == "ok":
            run.nontrivial_case(json.dumps([tr["pre"]["members"], tr["pre"]["atarget"], tr["op"]], sort_keys=True))
        run.sample({"mode": mode, "op": tr["op"], "spec_outcome": tr["post"]["outcome"], "real_outcome": outcome, "pre_members": {c: {n: v for n, v in m.items() if v != NIL} for c, m in tr["pre"]["members"].items()}}, limit=4)
        for inv, what, *cause in w.invariants(tr["pre"], tr["op"], outcome):
            if (inv, what.split(": [")[0]) in pre_bad:
                continue
            run.violation(dict(sig_base, inv=inv, cause=(cause or ["-"])[0]), f"{inv} broken after {tr['op']} (mode {mode}): {what}", {"kind": "trans", "mode": mode, "transition": tr})
        if outcome.startswith("Other:") or outcome == "RuntimeError" or (outcome == "AttributeError" and tr["post"]["outcome"] != outcome):
            cause = "dict-changed-size-predicted" if (outcome == "RuntimeError" and tr["post"]["outcome"] == outcome) else outcome
            run.violation(dict(sig_base, inv="exception", cause=cause), f"{tr['op']} raised {outcome}", {"kind": "trans", "mode": mode, "transition": tr})
        if real != norm(tr["post"]):
            drift += 1
            if drift <= 3:
                run.note(f"drift ({mode}) on {tr['op']}: {first_diff(norm(tr['post']), real)}")
    return drift


def replay_histories(run: Run, griffe, cases: list, mode: str):
    drift = 0
    for h in cases:
        hist = h["hist"]
        w = World(griffe, hist[0]["post"]["atpath"])
        w.materialise(hist[0]["post"])
        pre = hist[0]["post"]
        ok = True
        prev_bad = {(b[0], b[1].split(": [")[0]) for b in w.invariants(None, None, "ok")}
        for i, step in enumerate(hist[1:]):
            outcome = w.call(step["op"], i + len(hist))
            run.evaluated()
            now = w.invariants(pre, step["op"], outcome)
            fresh = [b for b in now if (b[0], b[1].split(": [")[0]) not in prev_bad]   # a violation is attributed to the call that created it
            prev_bad = {(b[0], b[1].split(": [")[0]) for b in now}
            for inv, what, *cause in fresh:
                run.violation({"mode": mode, "op": step["op"]["name"], "inv": inv, "cause": (cause or ["-"])[0]}, f"{inv} broken at step {i + 1} of a {len(hist) - 1}-call history (mode {mode}): {what}", {"kind": "hist", "mode": mode, "hist": hist[: i + 2]})
            if outcome.startswith("Other:") or outcome == "RuntimeError" or (outcome == "AttributeError" and step["post"]["outcome"] != outcome):
                run.violation({"mode": mode, "op": step["op"]["name"], "inv": "exception", "cause": "dict-changed-size-predicted" if (outcome == "RuntimeError" and step["post"]["outcome"] == outcome) else outcome}, f"{step['op']} raised {outcome}", {"kind": "hist", "mode": mode, "hist": hist[: i + 2]})
            real = norm(w.project(outcome))
            if real != norm(step["post"]):
                drift += 1
                ok = False
                if drift <= 3:
                    run.note(f"drift ({mode}, history step {i + 1}) on {step['op']}: {first_diff(norm(step['post']), real)}")
                break
            pre = step["post"]
        run.replayed()
        if ok:
            run.nontrivial_case("H" + json.dumps([s["op"] for s in hist[1:]], sort_keys=True))
    return drift


def real_loads(run: Run, griffe, packages: list):
    """Invariants of Tree.tla evaluated on trees built by REAL loader executions (visitor + loader +
    alias resolution use only the API calls modelled in Tree.tla, in the clean top-down discipline):
    I1, I2, I3 (dotted = chained, every split), I6, I7 on every member of every loaded package."""
    loader = griffe.GriffeLoader(allow_inspection=False)
    for p in packages:
        try:
            loader.load(p)
        except Exception as exc:  # noqa: BLE001
            run.note(f"real_loads: could not load {p}: {exc!r}")
    loader.resolve_aliases(implicit=True, external=False)
    coll = loader.modules_collection
    count = 0

    def bad(inv, what, path):
        top = path.split(".")[0]
        run.violation({"mode": "real-load", "inv": inv, "op": "load", "cause": "-"}, f"{inv} broken in the tree loaded from package {top}: {what}", {"kind": "real-load", "packages": packages, "path": path})

    def walk(obj):
        nonlocal count
        for name, m in list(obj.members.items()):
            count += 1
            path = m.path
            if m.parent is not obj:
                bad("I1", f"{path}.parent is not its container", path)
            if m.name != name:
                bad("I1", f"{path} stored under key {name!r}", path)
            try:
                parts = path.split(".")
                if coll.get_member(path) is not m or coll[tuple(parts)] is not m:
                    bad("I2", f"{path} not retrievable by its own path", path)
                for i in range(1, len(parts)):
                    if coll.get_member(parts[:i]).get_member(parts[i:]) is not m:
                        bad("I3", f"chained lookup {parts[:i]}+{parts[i:]} differs", path)
            except Exception as exc:  # noqa: BLE001
                bad("I2", f"lookup of {path} raised {exc!r}", path)
            if m.is_alias:
                if m._target is m:
                    bad("I7", f"{path} targets itself", path)
                t, hops = m._target, 0
                while t is not None and t.is_alias and hops < 20:
                    t, hops = t._target, hops + 1
                if t is not None and not t.is_alias and t.aliases.get(path) is not m:
                    bad("I6", f"{path} not listed in aliases of final target {t.path}", path)
            else:
                walk(m)

    for mod in list(coll.members.values()):
        walk(mod)
    run.evaluated(count)
    run.replayed(len(packages))
    run.extra.setdefault("real_load_members", 0)
    run.extra["real_load_members"] += count


ALL = {"SKIP": "{}", "SEEDS": "{1, 2, 3}"}
class HistSampler:
    """Same for simulated behaviours: distinct by their sequence of calls."""

    def __init__(self, cap: int, seed: int):
        self.cap, self.rnd, self.seen, self.keep, self.distinct = cap, random.Random(seed), set(), [], 0

    def __call__(self, rec: dict):
        import hashlib  # noqa: PLC0415

        h = hashlib.md5(json.dumps([s["op"] for s in rec["hist"]], sort_keys=True).encode()).digest()[:10]  # noqa: S324
        if h in self.seen:
            return
        self.seen.add(h)
        self.distinct += 1
        if len(self.keep) < self.cap:
            self.keep.append(rec)
        else:
            j = self.rnd.randrange(self.distinct)
            if j < self.cap:
                self.keep[j] = rec


class Sampler:
    """Streaming collector for TLC transition records: de-duplicates by (pre-state, call) and keeps a seeded
    reservoir sample of at most `cap` distinct records (millions of records never sit in memory)."""

    def __init__(self, cap: int, seed: int):
        self.cap, self.rnd, self.seen, self.keep, self.distinct = cap, random.Random(seed), set(), [], 0

    def __call__(self, rec: dict):
        import hashlib  # noqa: PLC0415

        h = hashlib.md5(json.dumps([rec["pre"], rec["op"]], sort_keys=True).encode()).digest()[:10]  # noqa: S324
        if h in self.seen:
            return
        self.seen.add(h)
        self.distinct += 1
        if len(self.keep) < self.cap:
            self.keep.append(rec)
        else:
            j = self.rnd.randrange(self.distinct)
            if j < self.cap:
                self.keep[j] = rec


MODES = {
    "clean": dict(ALL, LOST="FALSE", TOPDOWN="TRUE"),
    "free": dict(ALL, LOST="FALSE", TOPDOWN="FALSE"),
    "lost": dict(ALL, LOST="TRUE", TOPDOWN="TRUE"),
}
# slices of the universe explored deeper, printing only the transitions that exercise the rarely
# reached branches of set_member (re-targeting loop with >= 1 listed alias, implicit stub merge)
SLICES = {
    "retarget": ("free", dict(LOST="FALSE", TOPDOWN="FALSE", SKIP='{"m2", "f2", "x1"}', SEEDS="{3}"), 3, 4),
    "merge": ("free", dict(LOST="FALSE", TOPDOWN="FALSE", SKIP='{"k1", "k2", "f1", "a1", "a3"}', SEEDS="{1}"), 6, 7),
    # lazily resolved chains: n.a -> m.a -> m.K resolved outer-first (nested resolve_target), clean domain
    "chain": ("clean", dict(LOST="FALSE", TOPDOWN="TRUE", SKIP='{"m2", "k2", "f1", "f2", "x1", "a3"}', SEEDS="{2}"), 4, 5),
}
EXPECT = {"clean": [], "free": ["I6_BackrefListed"], "lost": ["I2_NoLostWrite"]}


def main(tier: str, replay: str | None = None):
    griffe = ensure_repo()
    run = Run("C16", tier)
    rnd = random.Random(SEED)
    run.rule = ("Tree.tla over 9 objects (2 modules, 2 same-named classes, 2 same-named functions, attribute, 2 aliases) + collection; "
                "every enabled API call from every reachable tree within the depth bound (trans) and random long histories (hist); "
                "non-trivial = successful call from a distinct (members, targets) pre-state, or a fully conforming history; distinct by (pre-state, call).")
    if replay:
        with open(replay) as fh:
            rec = json.load(fh)
        c = rec["case"]
        print(rec["what"])
        if c["kind"] == "trans":
            replay_transitions(run, griffe, [c["transition"]], c["mode"], 10, rnd)
        else:
            replay_histories(run, griffe, [{"hist": c["hist"]}], c["mode"])
        run.states = run.transitions = 1
        run.finish()
    from concurrent.futures import ThreadPoolExecutor

    from gverif.common import die

    depth_check = 3 if tier == "quick" else 5
    depth_gen = 2   # (depth 3 prints > 10^7 transitions; the deeper, rare branches are the slices' job)
    cap = 12000 if tier == "quick" else 300000
    nsim = 100 if tier == "quick" else 2000
    jobs = {}
    samplers = {}
    meta_root = None if tier == "quick" else tempfile.gettempdir()   # large searches: TLC's queue files on disk, not tmpfs
    with ThreadPoolExecutor(max_workers=8) as pool:
        for mode, consts in MODES.items():
            d = {"clean": depth_check, "free": 4, "lost": 3}[mode]
            jobs["check", mode] = pool.submit(tlc.run, "Tree", "Tree_check.cfg", workers=5, constants=dict(consts, DEPTH=d), timeout=6000, heap="6g", dump_trace=True, meta_root=meta_root)
            # every transition from the trees reachable within depth_gen calls of the first two initial trees
            # (the third, alias-rich one is explored by the "retarget" slice; quick restricts the lost domain to tree 2)
            seeds = "{1, 2}" if (tier == "quick" and mode != "lost") else ("{2}" if tier == "quick" else "{1, 2, 3}")
            samplers["gen", mode] = Sampler(cap if mode == "clean" else cap // 2, SEED)
            jobs["gen", mode] = pool.submit(tlc.run, "Tree", "Tree_gen.cfg", workers=2, constants=dict(consts, GEN="trans", DEPTH=depth_gen, SEEDS=seeds), timeout=6000, heap="4g",
                                            on_line=samplers["gen", mode], keep_cases=False, meta_root=meta_root)
        for name, (_, consts, dq, dt) in SLICES.items():
            samplers["rare", name] = Sampler(cap, SEED + 7)
            jobs["rare", name] = pool.submit(tlc.run, "Tree", "Tree_rare.cfg", workers=3, constants=dict(consts, DEPTH=dq if tier == "quick" else dt), timeout=6000, heap="4g",
                                             on_line=samplers["rare", name], keep_cases=False, meta_root=meta_root)
        for mode in ("clean", "free"):
            samplers["sim", mode] = HistSampler(nsim * 4, SEED + 3)
            jobs["sim", mode] = pool.submit(tlc.run, "Tree", "Tree_gen.cfg", workers=1, constants=dict(MODES[mode], GEN="hist", DEPTH=14), simulate=f"num={nsim}", depth=15, seed=SEED + 1, timeout=6000,
                                            # every printed history is a TLA+ string that TLC interns for good: the heap bounds the number of prints
                                            heap="3g" if tier == "quick" else "10g",
                                            on_line=samplers["sim", mode], keep_cases=False, meta_root=meta_root)
    model_verdicts = {}
    for mode in MODES:
        res = jobs["check", mode].result()
        tlc.must(res, allow_violations=True)
        run.add_tlc(res)
        model_verdicts[mode] = res.violated
        if mode == "clean" and res.violated:
            print(res.tail)
            die(f"C16: Tree.tla violates {res.violated} in the clean domain: the model (or the design) is wrong; replay decides nothing until this is understood")
        if sorted(res.violated) != sorted(EXPECT[mode]):
            run.note(f"model verdict for domain {mode}: violated {res.violated}, model-predicted defects listed in DESIGN: {EXPECT[mode]}")
        if res.trace:
            # the model predicts a defect in this domain: replay TLC's counterexample on the real objects
            hist = [{"op": st["lastop"], "post": {"members": st["members"], "parent": st["parent"], "atarget": st["atarget"], "atpath": st["atpath"], "outcome": st["outcome"],
                                                 "backrefs": {o: [{"path": r[0], "alias": r[1]} for r in rs] for o, rs in st["backrefs"].items()}}} for st in res.trace]
            before = len(run.violations) + sum(h["count"] for h in run.known_hits.values())
            replay_histories(run, griffe, [{"hist": hist}], mode)
            after = len(run.violations) + sum(h["count"] for h in run.known_hits.values())
            if after == before:
                run.note(f"domain {mode}: TLC counterexample for {res.violated} does NOT reproduce on the real objects (model over-approximates)")
            else:
                run.note(f"domain {mode}: TLC counterexample for {res.violated} reproduced on the real objects")
    run.extra["model_verdicts"] = model_verdicts
    drift = 0
    run.exhaustive = True
    for mode in MODES:
        res = jobs["gen", mode].result()
        tlc.must(res)
        run.add_tlc(res)
        smp = samplers["gen", mode]
        if smp.distinct > len(smp.keep):
            run.exhaustive = False
        run.extra.setdefault("distinct_transitions", {})["gen-" + mode] = smp.distinct
        drift += replay_transitions(run, griffe, smp.keep, mode, len(smp.keep) + 1, rnd)
    for name, (mode, _, _, _) in SLICES.items():
        res = jobs["rare", name].result()
        tlc.must(res)
        run.add_tlc(res)
        smp = samplers["rare", name]
        run.extra.setdefault("rare_transitions", {})[name] = smp.distinct
        if name == "chain" and not any(t["op"]["name"] == "resolve" and t["post"]["outcome"] == "ok" and sum(1 for a in t["post"]["atarget"] if t["post"]["atarget"][a] != t["pre"]["atarget"][a]) == 2 for t in smp.keep):
            die("C16: the chain slice produced no nested (outer-first) resolution of a two-link chain (vacuous)")
        drift += replay_transitions(run, griffe, smp.keep, mode, len(smp.keep) + 1, rnd)
    for mode in ("clean", "free"):
        res = jobs["sim", mode].result()
        if res.errors:
            print(res.tail)
            die(f"C16: simulation failed: {res.errors}")
        run.add_tlc(res)
        # TLC evaluates the emitting invariant on every candidate successor of the last step: the printed
        # histories share prefixes; a seeded sample of the distinct ones was kept while streaming
        uniq = samplers["sim", mode].keep
        drift += replay_histories(run, griffe, uniq, mode)
    real_loads(run, griffe, ["json", "email", "logging", "_griffe"] if tier == "quick" else ["json", "email", "logging", "_griffe", "importlib", "concurrent", "unittest", "xml", "asyncio", "http", "collections", "multiprocessing"])
    if drift:
        run.note(f"{drift} replayed call(s)/histories where the real objects differ from the spec's post-state (model drift; the verdict comes from the invariants evaluated on the real objects)")
    run.extra["drift"] = drift
    run.finish()
