"""C04 - worker subprocess: for every package configuration of a chunk
   1. write the package (c04_render),
   2. Griffe side: load it statically with the Griffe of the working tree and read, for every reference site,
      ExprName.canonical_path / Expr.canonical_path / Decorator.callable_path / Object.resolve(name),
   3. CPython side: import the site module from that directory, run the probes (class bodies run on import, methods are
      called), and map every object a probe saw back to the dotted path of its definition.
Usage: python -m gverif.props.c04_worker JOB.json OUT.json      (env: gverif.common.child_env())
"""
from __future__ import annotations

import importlib
import inspect
import json
import os
import shutil
import sys
import types

from gverif.props.c04_render import MOD_FILE, MOD_PATH, SCOPES, render


# ---- Griffe side -------------------------------------------------------------------------------------------------
def _canon(e):
    if e is None:
        return {"missing": "None"}
    if isinstance(e, str):
        return {"r": e}
    return {"r": e.canonical_path}


def _first_name(griffe, expr, n):
    if expr is None or isinstance(expr, str):
        return {"missing": repr(expr)}
    for e in expr.iterate(flat=True):
        if isinstance(e, griffe.ExprName) and e.name == n:
            return {"r": e.canonical_path}
    return {"missing": "no ExprName " + n}


def _all_names(griffe, expr, n):
    """Every occurrence of the name in the expression must resolve alike."""
    if expr is None or isinstance(expr, str):
        return {"missing": repr(expr)}
    got = [e.canonical_path for e in expr.iterate(flat=True) if isinstance(e, griffe.ExprName) and e.name == n]
    if not got:
        return {"missing": "no ExprName " + n}
    return {"r": got[0] if len(set(got)) == 1 else "mixed:" + "|".join(got)}


def _guard(fn):
    try:
        return fn()
    except Exception as exc:  # noqa: BLE001
        if type(exc).__name__ == "NameResolutionError":
            return {"raise": "NameResolutionError"}
        return {"exc": f"{type(exc).__name__}: {exc}"}


def griffe_side(griffe, root: str, env: dict) -> dict:
    n = env["n"]
    top = "q" if env["M"] == "Q" else "pkg"
    try:
        pkg = griffe.load(top, search_paths=[root], allow_inspection=False)
        mod = pkg
        for part in MOD_PATH[env["M"]].split(".")[1:]:
            mod = mod.members[part]
    except Exception as exc:  # noqa: BLE001
        return {"load_exc": f"{type(exc).__name__}: {exc}"}
    cls_a = mod.members["A"]
    cls_b = cls_a.members["B"]
    objs = {"mod": mod, "A": cls_a, "B": cls_b}
    out = {}
    for sc in SCOPES:
        nsuf = len(env["suffix"].get(sc, []))
        res = {}
        if sc in objs:
            o = objs[sc]
            mm = o.members
            res["ann"] = _guard(lambda: _canon(mm["s_ann"].annotation))
            res["val"] = _guard(lambda: _canon(mm["s_val"].value))
            res["base"] = _guard(lambda: _canon(mm["s_base"].bases[0]))
            res["dec"] = _guard(lambda: {"r": mm["s_dec"].decorators[0].callable_path})
            res["par_ann"] = _guard(lambda: _canon(mm["s_par"].parameters["p"].annotation))
            res["par_def"] = _guard(lambda: _canon(mm["s_par"].parameters["p"].default))
            res["ret"] = _guard(lambda: _canon(mm["s_par"].returns))
            res["dcall"] = _guard(lambda: {"r": mm["s_dcall"].decorators[0].callable_path})
            res["sub"] = _guard(lambda: _all_names(griffe, mm["s_sub"].annotation, n))
            res["prop_ret"] = _guard(lambda: _canon(mm["s_prop"].annotation))
            res["str_ann"] = _guard(lambda: _canon(mm["s_str"].annotation))
            for c in range(1, nsuf + 1):
                res[f"c{c}"] = _guard(lambda c=c: _canon(mm[f"s_c{c}"].value))
            res["lam"] = _guard(lambda: _first_name(griffe, mm["s_lam"].value, n))
            res["cmp"] = _guard(lambda: _first_name(griffe, mm["s_cmp"].value, n))
            res["api"] = _guard(lambda: {"r": o.resolve(n)})
            for rk in env.get("rks", []):      # `<root>.n`, root not a name
                res[f"v_{rk}"] = _guard(lambda rk=rk: _canon(mm[f"s_v_{rk}"].value))
            if "call" in env.get("rks", []):
                res["v_chain"] = _guard(lambda: _canon(mm["s_v_chain"].value))
                res["v_dec"] = _guard(lambda: {"r": mm["s_v_dec"].decorators[0].callable_path})
        elif sc.endswith(".init"):
            cls = objs[sc[0]]
            mm = cls.members
            res["ann"] = _guard(lambda: _canon(mm["i_ann"].annotation))
            res["val"] = _guard(lambda: _canon(mm["i_val"].value))
            for c in range(1, nsuf + 1):
                res[f"c{c}"] = _guard(lambda c=c: _canon(mm[f"i_c{c}"].value))
            res["lam"] = _guard(lambda: _first_name(griffe, mm["i_lam"].value, n))
            res["cmp"] = _guard(lambda: _first_name(griffe, mm["i_cmp"].value, n))
            res["api"] = _guard(lambda: {"r": mm["__init__"].resolve(n)})
            for rk in env.get("rks", []):
                res[f"v_{rk}"] = _guard(lambda rk=rk: _canon(mm[f"i_v_{rk}"].value))
            if "call" in env.get("rks", []):
                res["v_chain"] = _guard(lambda: _canon(mm["i_v_chain"].value))
        else:
            cls = objs[sc[0]]
            res["api"] = _guard(lambda: {"r": cls.members["m"].resolve(n)})
        out[sc] = res
    return out


# ---- CPython side ------------------------------------------------------------------------------------------------
def where(zrt, o):
    if o is zrt.U:
        return ["unbound"]
    if o is zrt.E:
        return ["local"]
    if o is zrt.PARAM:
        return ["param"]
    if o is zrt.ATTR:
        return ["attr"]
    if isinstance(o, zrt.V):
        return ["obj", o.path]
    if isinstance(o, types.ModuleType):
        return ["obj", o.__name__]
    if isinstance(o, (type, types.FunctionType)):
        return ["obj", o.__module__ + "." + o.__qualname__]
    return ["other", repr(o)]


def cpython_side(root: str, env: dict) -> dict:
    before = set(sys.modules)
    sys.path.insert(0, root)
    importlib.invalidate_caches()
    try:
        zrt = importlib.import_module("zrt")
        mod = importlib.import_module(MOD_PATH[env["M"]])
        args = (zrt.PARAM,) if env["fnb"] == "param" else ()
        a = mod.A(*args)
        a.m(*args)
        b = mod.A.B(*args)
        b.m(*args)
        probes = {k: where(zrt, v) for k, v in zrt.P.items()}
        for key, obj in (("mod", mod), ("A", mod.A), ("B", mod.A.B)):
            try:       # the stringized annotation `s_str: "n"`, evaluated the way PEP 563 consumers do
                probes[key + "/late"] = where(zrt, inspect.get_annotations(obj, eval_str=True)["s_str"])
            except NameError:
                probes[key + "/late"] = ["unbound"]
        return {"probes": probes, "rejected": list(zrt.REJECTED)}
    except Exception as exc:  # noqa: BLE001
        return {"import_exc": f"{type(exc).__name__}: {exc}"}
    finally:
        sys.path.remove(root)
        for name in set(sys.modules) - before:
            del sys.modules[name]


def main(job_path: str, out_path: str):
    from gverif.common import ensure_repo

    griffe = ensure_repo()
    with open(job_path) as fh:
        job = json.load(fh)
    results = []
    for env in job["envs"]:
        root = os.path.join(job["root"], str(env["id"]))
        files = render(env)
        for rel, text in files.items():
            path = os.path.join(root, rel)
            os.makedirs(os.path.dirname(path), exist_ok=True)
            with open(path, "w") as fh:
                fh.write(text)
        groot = root
        if env.get("stub", "none") != "none":
            # Scope.tla FileSuffixes: Griffe sees the site module as a stub file (alone, or next to the .py and merged into it);
            # CPython keeps executing the .py twin with the same text (a stub carries the name of the module it describes)
            groot = root + "_g"
            site = MOD_FILE[env["M"]]
            for rel, text in files.items():
                targets = [rel]
                if rel == site:
                    targets = [rel + "i"] if env["stub"] == "only" else [rel, rel + "i"]
                for t in targets:
                    path = os.path.join(groot, t)
                    os.makedirs(os.path.dirname(path), exist_ok=True)
                    with open(path, "w") as fh:
                        fh.write(text)
        res = {"id": env["id"], "griffe": griffe_side(griffe, groot, env), "cpython": cpython_side(root, env)}
        if groot != root:
            shutil.rmtree(groot, ignore_errors=True)
        if job.get("keep_source"):
            res["source"] = files[MOD_FILE[env["M"]]]
        results.append(res)
        shutil.rmtree(root, ignore_errors=True)
    with open(out_path, "w") as fh:
        json.dump(results, fh)


if __name__ == "__main__":
    main(sys.argv[1], sys.argv[2])
