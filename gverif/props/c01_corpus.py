"""C01 helper, trace-validation direction: visit one real Python file with the passive recording extension
and validate the recorded event trace against the protocol clauses of spec/Visitor.tla (EvOnce,
EvParentFirst, EvMembersLast), plus totality and agreement of spans / docstrings with CPython's ast."""
from __future__ import annotations

import ast
import io
import tokenize
import warnings
from pathlib import Path


def sweep_file(path: str) -> dict:
    from gverif.props import c01_replay as R

    out = {"path": path, "status": "visited", "violations": [], "events": 0, "objects": 0}
    warnings.simplefilter("ignore")      # SyntaxWarning / DeprecationWarning of the analysed files are not ours
    try:
        with tokenize.open(path) as fh:
            code = fh.read()
        tree = compile(code, path, "exec", flags=ast.PyCF_ONLY_AST, dont_inherit=True, optimize=1)
        compile(code, path, "exec", dont_inherit=True)
    except (SyntaxError, UnicodeDecodeError, ValueError, RecursionError, OSError) as exc:
        out["status"] = "skipped-" + type(exc).__name__
        return out
    g = R.griffe()
    rec = R.make_recorder()

    def viol(clause, cause, what, **extra):
        out["violations"].append(({"part": "corpus", "clause": clause, "cause": cause, **extra}, f"{path}: {what}"))

    lc = g.LinesCollection()
    fp = Path(path)
    lines = code.splitlines()
    lc[fp] = lines
    try:
        mod = g.visit(fp.stem, filepath=fp, code=code, extensions=g.Extensions(rec), lines_collection=lc)
    except Exception as exc:  # noqa: BLE001
        import traceback

        tb = traceback.extract_tb(exc.__traceback__)
        where = f"{tb[-1].name}:{tb[-1].lineno}" if tb else "?"
        viol("total", "none", f"visit raised {type(exc).__name__}: {exc} (in {where})", exc=type(exc).__name__)
        return out
    out["events"] = len(rec.ev)
    # the recorded trace in the vocabulary of spec/EventProtocol.tla: [e, o, p, c]
    ids: dict[int, int] = {}

    def oid(o):
        return ids.setdefault(id(o), len(ids) + 1)

    out["trace"] = [[ev, oid(obj), 0 if (parent is None or obj is mod) else oid(parent), R._kind(obj) in ("module", "class")] for ev, obj, _node, parent in rec.ev]
    # ... closed by one "intree" event per object hanging in the returned tree (members, overloads, accessors)
    hanging, seen_ids = [], set()

    def collect(o, depth=0):
        for m in list(o.members.values()):
            if id(m) in seen_ids:
                continue
            seen_ids.add(id(m))
            hanging.append(m)
            if not m.is_alias:
                hanging.extend(x for x in [*((m.overloads or []) if R._kind(m) == "function" else []), getattr(m, "setter", None), getattr(m, "deleter", None)] if x is not None)
                if depth < 50:
                    collect(m, depth + 1)

    collect(mod)
    out["trace"] += [["intree", oid(o), 0, False] for o in [mod, *hanging]]
    out["protocol"] = sorted({"member-of-function" if cause == "member-of-function" else clause for clause, cause, _ in R.check_protocol(rec.ev, mod)})
    seen = set()
    for clause, cause, text in R.check_protocol(rec.ev, mod):
        cause = "init-local" if cause == "member-of-function" else ("none" if cause == "-" else cause)
        if (clause, cause) in seen:
            continue  # one report per clause and file
        seen.add((clause, cause))
        viol(clause, cause, text)
    # every on_instance object is of the kind its node says, and parents were alive (protocol) - now the text clauses
    nodes = {}
    for node in ast.walk(tree):
        if isinstance(node, (ast.FunctionDef, ast.AsyncFunctionDef, ast.ClassDef)):
            first = min([d.lineno for d in node.decorator_list] + [node.lineno])
            nodes[(first, node.name)] = node
            nodes[(node.lineno, node.name)] = node
    reported = set()

    def walk(o, depth=0):
        for name, m in list(o.members.items()):
            if m.is_alias:
                continue
            out["objects"] += 1
            kind = m.kind.value
            if kind in ("function", "class") or (kind == "attribute" and "property" in m.labels):
                node = nodes.get((m.lineno, name))
                if node is None or (m.endlineno != node.end_lineno):
                    if "span" not in reported:
                        reported.add("span")
                        viol("span", "none", f"{kind} {m.path}: reported lines {m.lineno}-{m.endlineno}, no such definition in CPython's ast" if node is None
                             else f"{kind} {m.path}: reported end line {m.endlineno}, CPython's ast says {node.end_lineno}", kind=kind)
                else:
                    text = "\n".join(lines[m.lineno - 1 : m.endlineno])
                    try:
                        got = R._parse_indented(text)
                        ok = len(got) == 1 and type(got[0]) is type(node) and got[0].name == name and len(got[0].body) == len(node.body)
                    except (SyntaxError, IndentationError):
                        # a definition whose body has text at a lower indentation (multi-line strings) cannot be parsed standalone
                        ok = None
                    if ok is False and "slice" not in reported:
                        reported.add("slice")
                        viol("slice", "none", f"{kind} {m.path}: source lines {m.lineno}-{m.endlineno} do not re-parse to that definition", kind=kind, via="lines")
                    want = ast.get_docstring(node, clean=True)
                    got_doc = m.docstring.value if m.docstring else None
                    if (want or "").rstrip() != (got_doc or "").rstrip() or (want is None) != (got_doc is None):
                        if "docstring" not in reported:
                            reported.add("docstring")
                            viol("docstring", "none", f"{kind} {m.path}: docstring {got_doc!r:.80} differs from ast.get_docstring {want!r:.80}", kind=kind)
            if kind in ("class", "function") and depth < 12:
                walk(m, depth + 1)

    walk(mod)
    want = ast.get_docstring(tree, clean=True)
    got_doc = mod.docstring.value if mod.docstring else None
    if (want or "").rstrip() != (got_doc or "").rstrip() or (want is None) != (got_doc is None):
        viol("docstring", "none", f"module docstring {got_doc!r:.80} differs from ast.get_docstring {want!r:.80}", kind="module")
    return out
