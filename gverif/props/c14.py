"""C14 - module discovery matches the import system, independent of listing order (spec/Finder.tla).

TLC: Finder.tla over four families of layouts (top: precedence of the entries for the requested name
over search paths 1, 2 and - through a .pth file - 3; sub: children of one regular package; ns: two
namespace portions; stubs: package + stubs-only package `pkg-stubs`, loaded with find_stubs_package=True).  The listing order of every directory below the package is a variable chosen by TLC
(action ListDir); the run of the finder/loader is a sequence of actions transcribing the code; the
reference is CPython's PathFinder/FileFinder + pkgutil (PyScan/PyResolve/PyWalk).  Invariants = the
clauses of the property, proved on the clean domain (layouts without a known cause); the defect domain
must exhibit the recorded defects (NoViolationAnywhere is expected to be violated there).

Binding, for every CASE (layout, request form, listing) TLC prints:
   CPython (subprocess: sys.path + site.addsitedir, importlib.util.find_spec, pkgutil.walk_packages)
        vs the spec's reference            -> validity of PyScan/PyWalk   (exit 2 when different)
   spec clauses evaluated by this driver on the spec's own tree vs the spec's verdict
                                           -> validity of the evaluator   (exit 2 when different)
   real Griffe (os.scandir / os.listdir wrapped to report TLC's order) vs the clauses   -> VIOLATION
   real Griffe across listings / request forms of one layout (tree + as_json)          -> VIOLATION
   real Griffe vs the spec's Impl tree     -> model drift note (and `as_model` in the signature)
"""
from __future__ import annotations

import collections
import json
import os
import random
import re
import subprocess
import time
import zlib
from concurrent.futures import ProcessPoolExecutor, ThreadPoolExecutor
from multiprocessing import get_context

from gverif import tlc
from gverif.common import PY, SEED, VERIF, child_env, die, ensure_repo, scratch
from gverif.harness import Run
from gverif.props import c14_fs as fs

NOFILE = (0, ())
CLAUSES = ("loaded-importable", "walker-loaded", "first-path-wins", "classified", "order-independent")

ALL_TOP = '{"absent","py","pypyi","pyi","so","sopy","ns","init","initpyi","initboth","pkgutil","nspy","initpy"}'
TIERS = {
    "quick": {
        "top": dict(MAXFILES=0, PERMUTE="FALSE", TOPKINDS='{"absent","py","so","ns","init","initpyi","initboth","pkgutil","initpy"}', P3KINDS='{"py","init"}', PTHFORMS='{"abs","rel"}', DROP="{}"),
        "sub": dict(MAXFILES=3, PERMUTE="TRUE", TOPKINDS="{}", P3KINDS="{}", PTHFORMS='{"abs"}', DROP="{}"),
        "ns": dict(MAXFILES=2, PERMUTE="TRUE", TOPKINDS="{}", P3KINDS="{}", PTHFORMS='{"abs"}', DROP='{"y.py", "n.py"}'),
        "stubs": dict(MAXFILES=1, PERMUTE="FALSE", TOPKINDS='{"absent","py","init","ns"}', P3KINDS="{}", PTHFORMS='{"abs"}', DROP="{}"),
        "ext": dict(MAXFILES=3, PERMUTE="TRUE", TOPKINDS="{}", P3KINDS="{}", PTHFORMS='{"abs"}', DROP="{}"),
    },
    "thorough": {
        "top": dict(MAXFILES=0, PERMUTE="TRUE", TOPKINDS=ALL_TOP, P3KINDS='{"py","so","ns","init","initpyi","pkgutil"}', PTHFORMS='{"abs","rel"}', DROP="{}"),
        "sub": dict(MAXFILES=4, PERMUTE="TRUE", TOPKINDS="{}", P3KINDS="{}", PTHFORMS='{"abs"}', DROP="{}"),
        "ns": dict(MAXFILES=3, PERMUTE="TRUE", TOPKINDS="{}", P3KINDS="{}", PTHFORMS='{"abs"}', DROP='{"y.py"}'),
        "stubs": dict(MAXFILES=2, PERMUTE="TRUE", TOPKINDS='{"absent","py","init","initboth","ns"}', P3KINDS="{}", PTHFORMS='{"abs"}', DROP="{}"),
        "ext": dict(MAXFILES=5, PERMUTE="TRUE", TOPKINDS="{}", P3KINDS="{}", PTHFORMS='{"abs"}', DROP="{}"),
    },
}
EXPECTED_CAUSES = {
    "top": {"toplevel-so-ignored", "pth-relative-line", "init-pyi-is-package", "pkgutil-mixed-with-regular", "pkgutil-mixed-with-module"},
    "sub": {"init-pyi-is-package", "file-shadows-dir", "file-and-stubbed-package"},
    "ns": {"init-pyi-is-package", "ns-dup-module", "subpackage-split"},
    "stubs": {"ns-dup-module", "stubs-namespace-misnamed"},
    "ext": set(),        # allow_inspection=True with a real compiled sub-package: no known defect class
}
STUBS = "pkg-stubs"


# ---------------------------------------------------------------------------------------------------
# vocabulary helpers (mirror Finder.tla)
def fid(x) -> tuple:
    return (x[0], tuple(x[1]))


def is_pyi(f) -> bool:
    return bool(f[1]) and f[1][-1].endswith(".pyi")


def is_so(f) -> bool:
    return bool(f[1]) and f[1][-1].endswith(".so")


def is_init(f) -> bool:
    return bool(f[1]) and f[1][-1].split(".", 1)[0] == "__init__"


def dir_of(f) -> tuple:
    return (f[0], f[1][:-1])


PYNONE = {"kind": "none", "file": NOFILE, "locs": [], "ext": False}


def rec(r: dict) -> dict:
    return {"kind": r["kind"], "file": fid(r["file"]), "locs": [fid(x) for x in r["locs"]], "ext": bool(r.get("ext"))}


class PyRef:
    """The CPython reference of one layout, as computed by the spec (validated against the real CPython)."""

    def __init__(self, py: dict, find_stubs: bool = False):
        self.find_stubs = find_stubs
        self.syspath = list(py["syspath"])
        self.top = rec(py["top"])
        self.walk = sorted((tuple(w["path"]), bool(w["ispkg"])) for w in py["walk"])
        self.imp = {tuple(e["path"]): rec(e["r"]) for e in py["imp"]}
        self.roots = [(p, ()) for p in self.syspath]

    def imp_of(self, path) -> dict:
        return self.imp.get(tuple(path), PYNONE)


def norm_tree(tree: list) -> list:
    out = []
    for n in tree:
        out.append({"path": tuple(n["path"]), "files": [fid(f) if f else NOFILE for f in n["files"]], "ns": bool(n["ns"]),
                    "contrib": sorted(fid(f) for f in n["contrib"]), "cls": n.get("cls"), "bad_path": n.get("bad_path")})
    out.sort(key=lambda n: n["path"])
    return out


def so_sibling(r, f) -> bool:
    return r["kind"] == "module" and is_so(r["file"]) and dir_of(r["file"]) == dir_of(f)


def stub_ok(ref: PyRef, n) -> bool:
    f = n["files"][0]
    r = ref.imp_of(n["path"])
    if is_init(f):
        return (r["kind"] == "namespace" and dir_of(f) in r["locs"]) or (r["kind"] == "package" and r["locs"][0] == dir_of(f))
    parentlocs = ref.roots if len(n["path"]) == 1 else ref.imp_of(n["path"][:-1])["locs"]
    return dir_of(f) in parentlocs and (r["kind"] == "none" or (r["kind"] == "module" and is_so(r["file"])))


def under_stubs(f) -> bool:
    return bool(f[1]) and f[1][0] == STUBS


def non_stubs(files: list) -> list:
    return [f for f in files if not under_stubs(f)]


def stub_pkg_ok(ref: PyRef, n) -> bool:
    """find_stubs_package=True: a file of the stubs-only package at the mirrored position, no runtime module there."""
    f = n["files"][0]
    r = ref.imp_of(n["path"])
    tail = tuple(n["path"][1:])
    mirrored = f[1] == (STUBS, *tail, "__init__.pyi") or (len(tail) >= 1 and f[1] == (STUBS, *tail[:-1], tail[-1] + ".pyi"))
    return ref.find_stubs and is_pyi(f) and mirrored and (r["kind"] == "none" or (r["kind"] == "module" and is_so(r["file"])))


def node_ok(ref: PyRef, n) -> bool:
    r = ref.imp_of(n["path"])
    if n["ns"]:
        return r["kind"] in ("namespace", "package") and (r["kind"] != "package" or r["ext"]) and set(non_stubs(n["files"])) <= set(r["locs"])
    f = n["files"][0]
    if under_stubs(f):
        return stub_pkg_ok(ref, n)
    if is_pyi(f):
        return stub_ok(ref, n)
    return r["kind"] in ("module", "package") and (r["file"] == f or so_sibling(r, f)) and not (r["kind"] == "package" and r["ext"])


def evaluate(ref: PyRef, outcome: str, tree: list) -> dict:
    """clause -> explanation, for every violated clause of V_* (Finder.tla) except order independence."""
    bad = {}
    by_path = {n["path"]: n for n in tree}
    # V_LoadedImportable
    for n in tree:
        if "__pycache__" in n["path"]:
            bad.setdefault("loaded-importable", f"{'.'.join(n['path'])} loaded out of a bytecode cache directory ({show(n['files'])})")
        if not node_ok(ref, n):
            bad.setdefault("loaded-importable", f"{'.'.join(n['path'])} loaded from {show(n['files'])} but CPython resolves that name to {show_r(ref.imp_of(n['path']))}")
    # V_WalkerLoaded
    for path, _ispkg in ref.walk:
        r = ref.imp_of(path)
        if is_so(r["file"]):
            continue
        n = by_path.get(path)
        if not (n and not n["ns"] and n["files"][0] == r["file"]):
            bad.setdefault("walker-loaded", f"pkgutil.walk_packages finds {'.'.join(path)} = {show([r['file']])}; Griffe has {show(n['files']) if n else 'nothing'} there")
    # V_FirstPathWins
    r = ref.top
    root = by_path.get(("pkg",))
    ok = True
    if r["kind"] == "none":
        ok = outcome == "ModuleNotFoundError" or (ref.find_stubs and outcome == "ok" and root is not None and not root["ns"] and under_stubs(root["files"][0]))
    elif r["kind"] == "module":
        if is_so(r["file"]):
            ok = outcome == "ModuleNotFoundError" or (outcome == "ok" and root is not None and not root["ns"] and so_sibling(r, root["files"][0]))
        else:
            ok = outcome == "ok" and root is not None and not root["ns"] and root["files"] == [r["file"]]
    elif r["kind"] == "package":
        if r["ext"]:
            ok = outcome == "ok" and root is not None and root["ns"] and set(root["files"]) == set(r["locs"])
        else:
            ok = outcome == "ok" and root is not None and not root["ns"] and root["files"] == [r["file"]]
    elif r["kind"] == "namespace":
        if outcome != "ok" or root is None:
            ok = False
        elif root["ns"]:
            ok = non_stubs(root["files"]) == r["locs"]
        else:
            f = root["files"][0]
            ok = is_pyi(f) and is_init(f) and dir_of(f) in r["locs"]
    if not ok:
        bad["first-path-wins"] = f"CPython resolves pkg to {show_r(r)}; Griffe: {outcome} {show(root['files']) if root else ''}"
    # V_Classified
    for n in tree:
        r = ref.imp_of(n["path"])
        c = n["cls"]
        top = len(n["path"]) == 1
        if r["kind"] == "package":
            good = c in ("namespace", "namespace-sub") if r["ext"] else c == ("package" if top else "subpackage")
        elif r["kind"] == "namespace":
            good = c == ("namespace" if top else "namespace-sub") or (not n["ns"] and is_pyi(n["files"][0]) and is_init(n["files"][0]))
        elif r["kind"] == "module":
            good = c == "module"
        else:
            good = True
        if n.get("bad_path"):
            good = False
        if not good:
            bad.setdefault("classified", f"{'.'.join(n['path'])} is classified {c}{' path=' + n['bad_path'] if n.get('bad_path') else ''}; for CPython it is a {r['kind']}")
    return bad


def show(files) -> str:
    return "[" + ", ".join(f"{f[0]}:{'/'.join(f[1])}" for f in files) + "]"


def show_r(r) -> str:
    if r["kind"] in ("none",):
        return "nothing"
    if r["kind"] == "namespace" or r["ext"]:
        return f"{r['kind']} {show(r['locs'])}"
    return f"{r['kind']} {show([r['file']])}"


# ---------------------------------------------------------------------------------------------------
def layout_of(case: dict) -> dict:
    files: dict = {}
    for p, rel in sorted((f[0], list(f[1])) for f in case["files"]):
        files.setdefault(str(p), []).append(rel)
    return {"files": files, "pth": case["pth"], "pthform": case["pthform"], "given": case.get("given", "both")}


def layout_key(case: dict) -> str:
    return json.dumps(layout_of(case), sort_keys=True)


def listing_of(case: dict) -> dict:
    return {"/".join([str(l["p"]), *l["d"]]): {"files": l["files"], "dirs": l["dirs"]} for l in case["listing"]}


def request_of(case: dict) -> str:
    return {"name": "name", "dotted": "dotted:pkg.a", "path1": "path1", "path2": "path2", "path3": "path3"}[case["request"]]


def flip_of(case: dict) -> bool:
    """Order of the directories TLC does not order (the search path roots: membership tests only): sorted or reversed."""
    return bool(zlib.crc32(json.dumps([case["request"], case["listing"]], sort_keys=True).encode()) & 1)


def oracle_rec(lay: fs.Layout, d: dict, live=None) -> dict:
    kind = d["kind"]
    if kind in ("none", "error"):
        return dict(PYNONE, kind=kind)
    origin = d.get("origin")
    f = lay.fid(origin) if origin and kind != "namespace" else None
    locs = live if live is not None else (d.get("locations") or [])
    return {"kind": kind, "file": fid(f) if f else NOFILE, "locs": [fid(lay.fid(x)) if lay.fid(x) else ("?", (x,)) for x in locs], "ext": False}


def same_rec(a: dict, b: dict) -> bool:
    return a["kind"] == b["kind"] and a["file"] == b["file"] and a["locs"] == b["locs"]


def compare_oracle(lay: fs.Layout, ref: PyRef, o: dict) -> str | None:
    """None when the spec's reference equals what CPython did; else a description (machinery error)."""
    sp = [lay.fid(p)[0] if lay.fid(p) else p for p in o["sys_path"]]
    if sp != ref.syspath:
        return f"sys.path {sp} vs spec {ref.syspath}"
    top = oracle_rec(lay, o["top"], o["top"].get("live_path"))
    if not same_rec(top, ref.top):
        return f"top-level: CPython {top} vs spec {ref.top} ({o.get('top_error', '')})"
    walk = sorted((tuple(w[0].split(".")), bool(w[1])) for w in o["walk"])
    if walk != ref.walk or o.get("walk_error"):
        return f"walk_packages: CPython {walk} vs spec {ref.walk} ({o.get('walk_error', '')})"
    for path, r in ref.imp.items():
        d = o["imp"].get(".".join(path))
        if d is None:
            return f"oracle did not answer for {path}"
        got = top if path == ("pkg",) else oracle_rec(lay, d)
        if not same_rec(got, r):
            return f"find_spec({'.'.join(path)}): CPython {got} ({d.get('why', '')}) vs spec {r}"
    return None


def group_py(group: dict) -> dict | None:
    """The CPython reference of the layout: printed by the spec with the canonical request-by-name case only."""
    for c in group["cases"]:
        if is_base(c):
            return c["py"]
    return None


def is_base(case: dict) -> bool:
    """The case carrying the reference: canonical listing, request by name (the forced by-path request when the
    directory lies outside the given search paths)."""
    forced = {"both": "name", "only1": "path2", "only2": "path1"}[case.get("given", "both")]
    return bool(case["iscanon"]) and case["request"] == forced


def check_chunk(args) -> dict:
    """Worker: replay the cases of some layouts on the real code.  Returns plain data for the parent."""
    groups, _unused = args
    griffe = ensure_repo()
    res = {"violations": [], "fatal": [], "drift": 0, "drift_examples": [], "replayed": 0, "evaluated": 0, "nontrivial": [],
           "samples": [], "stats": collections.Counter()}
    if os.path.exists("pkg") or os.path.exists("pkg.a"):
        res["fatal"].append("the cwd contains an entry named pkg: request-by-name would be taken for a relative path")
        return res
    with scratch("c14-") as root:
        lays, reals = [], []
        jobs = []
        for gi, group in enumerate(groups):
            lay = fs.Layout(os.path.join(root, f"L{gi}"), group["layout"])
            lays.append(lay)
            rr = []
            extra = set()
            for case in group["cases"]:
                real = fs.run_griffe(griffe, lay, listing_of(case), request_of(case), find_stubs=bool(case.get("stubs")), flip=flip_of(case), inspect=bool(case.get("inspect")))
                if real["outcome"].startswith("NotInCollection:"):
                    real["outcome"] = "KeyError"      # the package was loaded under another name: load() raised KeyError('pkg')
                rr.append(real)
                for n in real["tree"]:
                    extra.add(".".join(n["path"]))
            reals.append(rr)
            cands = {".".join(e["path"]) for e in (group_py(group) or {"imp": []})["imp"]} | extra
            jobs.append({"id": gi, "paths": lay.reference_paths(), "name": "pkg", "candidates": sorted(cands)})
        proc = subprocess.run([PY, "-m", "gverif.props.c14_oracle"], input=json.dumps(jobs), capture_output=True, text=True, env=child_env(), cwd=VERIF, check=False)
        if proc.returncode != 0:
            res["fatal"].append(f"CPython oracle failed: {proc.stderr[-800:]}")
            return res
        oracle = json.loads(proc.stdout)
        for group, lay, rr, o in zip(groups, lays, reals, oracle):
            check_group(res, group, lay, rr, o)
    return res


def check_group(res: dict, group: dict, lay: fs.Layout, reals: list, o: dict):
    cases = group["cases"]
    pyrec = group_py(group)
    if pyrec is None:
        res["fatal"].append(f"no canonical case (carrying the reference) for layout {json.dumps(group['layout'])}")
        return
    ref = PyRef(pyrec, find_stubs=bool(cases[0].get("stubs")))
    why = compare_oracle(lay, ref, o)
    if why:
        res["fatal"].append(f"spec reference disagrees with CPython on layout {json.dumps(group['layout'])}: {why}")
        return
    # names the real code loaded that the spec did not ask about: take CPython's word for them
    for dotted, d in o["imp"].items():
        path = tuple(dotted.split("."))
        if path not in ref.imp:
            ref.imp[path] = oracle_rec(lay, d)
    causes = sorted(cases[0]["causes"])
    fam = cases[0]["fam"]
    res["stats"]["layouts"] += 1
    res["stats"]["clean-layouts" if not causes else "defect-layouts"] += 1
    for c in causes:
        res["stats"]["cause:" + c] += 1
    if ref.walk:
        res["stats"]["walker-nonempty"] += 1
    # reference run of the real code for order / request independence: canonical listing, request by name
    base = None
    for case, real in zip(cases, reals):
        if is_base(case):
            base = (case, real)
    for case, real in zip(cases, reals):
        res["replayed"] += 1
        res["stats"]["cases"] += 1
        res["stats"]["req:" + ("path" if case["request"].startswith("path") else case["request"])] += 1
        if not case["iscanon"]:
            res["stats"]["non-canonical-listing"] += 1
        spec_tree = norm_tree(case["impl"]["tree"])
        spec_out = case["impl"]["outcome"]
        predicted = set(case["viol"])
        # the evaluator on the spec's own tree must give the spec's verdict
        mine = set(evaluate(ref, spec_out, spec_tree))
        if mine != predicted - {"order-independent"}:
            res["fatal"].append(f"clause evaluator disagrees with Finder.tla on {ident(case)}: driver {sorted(mine)} vs spec {sorted(predicted)}")
            return
        outcome = real["outcome"]
        tree = norm_tree(real["tree"])
        ident_case = {"kind": "group", "layout": group["layout"], "case": slim(case), "canon": slim(base[0]) if base else None}   # canon carries `py`
        sigbase = {"fam": fam, "causes": causes, "given": case.get("given", "both"), "request": "path" if case["request"].startswith("path") else case["request"]}
        if outcome not in ("ok", "ModuleNotFoundError", "KeyError"):
            res["violations"].append((dict(sigbase, clause="total", predicted=False, as_model=False), f"load raised/ended with {outcome} {real.get('detail', '')} on {ident(case)}", ident_case))
            continue
        if real.get("not_injected"):
            res["stats"]["listing-not-injected"] += 1
            if len(res["drift_examples"]) < 3:
                res["drift_examples"].append(f"listing order not injected for {real['not_injected']} ({ident(case)})")
        real_sp = [f[0] if isinstance(f, list) and not f[1] else f for f in (real.get("search_paths") or [])]
        as_model = outcome == spec_out and strip(tree) == strip(spec_tree) and (not real_sp or real_sp == list(case["impl"]["spaths"]))
        if not as_model:
            res["drift"] += 1
            if len(res["drift_examples"]) < 3:
                res["drift_examples"].append(f"{ident(case)}: spec {spec_out} {brief(spec_tree)} real {outcome} {brief(tree)}")
        bad = evaluate(ref, outcome, tree)
        res["evaluated"] += 4
        for clause, what in bad.items():
            res["violations"].append((dict(sigbase, clause=clause, predicted=clause in predicted, as_model=as_model), f"{what}  [{ident(case)}]", ident_case))
        if base is not None and real is not base[1]:
            res["evaluated"] += 1
            b = base[1]
            same_tree = outcome == b["outcome"] and strip(tree) == strip(norm_tree(b["tree"]))
            same_json = unroot(real["json"], lay) == unroot(b["json"], lay)
            if not (same_tree and same_json):
                clause = "order-independent" if case["request"] == "name" else "request-independent"
                detail = "tree" if not same_tree else "json"
                res["violations"].append((dict(sigbase, clause=clause, predicted=clause in predicted, as_model=as_model, detail=detail),
                                          f"result depends on the {'listing order' if clause == 'order-independent' else 'request form'} ({detail}): {brief(tree)} vs canonical {brief(norm_tree(b['tree']))}  [{ident(case)}]", ident_case))
        if len(tree) >= 2 or len(case["files"]) >= 3:
            res["nontrivial"].append(layout_key(case) + "|" + case["request"] + "|" + json.dumps(case["listing"], sort_keys=True))
        if len(res["samples"]) < 2 and len(tree) >= 3:
            res["samples"].append({"fam": fam, "files": group["layout"]["files"], "request": case["request"], "listing": listing_of(case), "griffe": brief(tree), "cpython_walk": [".".join(w[0]) for w in ref.walk], "causes": causes})


def strip(tree: list) -> list:
    return [(n["path"], n["files"], n["ns"], n["contrib"], n["cls"]) for n in tree]


def brief(tree: list) -> str:
    return "{" + ", ".join(f"{'.'.join(n['path'])}={show(n['files'])}:{n['cls']}" + (f"+{len(n['contrib']) - 1}stub" if len(n["contrib"]) > 1 else "") for n in tree) + "}"


def unroot(text, lay: fs.Layout):
    return None if text is None else text.replace(str(lay.root), "<root>")


def slim(case: dict | None) -> dict | None:
    if case is None:
        return None
    return {k: case.get(k, "both") if k == "given" else case[k] for k in ("fam", "stubs", "files", "pth", "pthform", "given", "request", "iscanon", "listing", "impl", "py", "viol", "causes")} | {"inspect": bool(case.get("inspect"))}


def ident(case: dict) -> str:
    files = sorted(f"{f[0]}:{'/'.join(f[1])}" for f in case["files"])
    order = "; ".join(f"{l['p']}:{'/'.join(l['d'])} files={l['files']} dirs={l['dirs']}" for l in sorted(case["listing"], key=lambda l: (l["p"], l["d"])))
    return f"files={files} pth={case['pth']}/{case['pthform']} search_paths={case.get('given', 'both')} request={case['request']} order=[{order}]"


def group_cases(cases: list) -> list:
    groups: dict = {}
    for c in cases:
        k = layout_key(c)
        if k not in groups:
            groups[k] = {"layout": layout_of(c), "cases": []}
        groups[k]["cases"].append(c)
    return list(groups.values())


def merge(run: Run, res: dict, totals: dict):
    for msg in res["fatal"]:
        die("C14: " + msg)
    for sig, what, case in res["violations"]:
        run.violation(sig, what, case)
    run.replayed(res["replayed"])
    run.evaluated(res["evaluated"])
    for k in res["nontrivial"]:
        run.nontrivial_case(k)
    for s in res["samples"]:
        run.sample(s, limit=6)
    totals["drift"] += res["drift"]
    totals["drift_examples"] += res["drift_examples"]
    totals["stats"].update(res["stats"])


def state_to_case(st: dict, fam: str) -> dict:
    """Final state of a TLC counterexample -> the CASE record EmitCase would have printed."""
    listing = []
    for key, ent in (st["listing"].items() if isinstance(st["listing"], dict) else []):
        p = int(re.match(r"<<(\d+)", key).group(1))
        listing.append({"p": p, "d": re.findall(r'"([^"]*)"', key), "files": ent["files"], "dirs": ent["dirs"]})
    return {"fam": fam, "stubs": fam == "stubs", "files": st["files"], "pth": st["pth"], "pthform": st["pthform"], "given": st.get("given", "both"), "request": st["request"], "iscanon": False, "listing": listing,
            "impl": {"outcome": st["outcome"], "tree": st["tree"], "spaths": st["spaths"]}, "py": st["py"], "viol": None, "causes": st["causes"]}


def replay_counterexample(run: Run, griffe, fam: str, res) -> None:
    """The model predicts a defect in the defect domain: the real code must show it on TLC's counterexample."""
    st = res.trace[-1]
    case = state_to_case(st, fam)
    ref = PyRef(case["py"], find_stubs=case["stubs"])
    with scratch("c14ce-") as root:
        lay = fs.Layout(root, layout_of(case))
        real = fs.run_griffe(griffe, lay, listing_of(case), request_of(case), find_stubs=case["stubs"])
        canon = fs.run_griffe(griffe, lay, {}, "name", find_stubs=case["stubs"])
        if real["outcome"].startswith("NotInCollection:"):
            real["outcome"] = "KeyError"
        bad = evaluate(ref, real["outcome"], norm_tree(real["tree"]))
        differs = strip(norm_tree(real["tree"])) != strip(norm_tree(canon["tree"])) and case["request"] == "name"
    if bad or differs:
        run.note(f"defect domain ({fam}): TLC counterexample for {res.violated} reproduced on the real code: causes {sorted(case['causes'])}, clauses {sorted(bad) + (['order-independent'] if differs else [])}")
    else:
        run.note(f"defect domain ({fam}): TLC counterexample for {res.violated} does NOT reproduce on the real code ({ident(case)}): the model over-approximates")
    run.extra.setdefault("counterexamples", []).append({"fam": fam, "case": ident(case), "real_clauses": sorted(bad), "order_dependent": differs})


def main(tier: str, replay: str | None = None):
    griffe = ensure_repo()
    run = Run("C14", tier)
    run.rule = ("Finder.tla: every layout of four families (top: 9/13 kinds of entry for the name in search paths 1,2 x .pth to path 3 in two line forms; "
                "sub: every set of <=3/4 children out of 15 in a regular package; ns: every pair of sets of <=2/3 children out of 7/9 in two namespace portions; "
                "stubs: 4/5 kinds of package x 6 shapes of pkg-stubs in each of two search paths, find_stubs_package=True) "
                "x every listing order of every directory (files and sub-directories permuted separately) x request forms (name, dotted, path of the directory). "
                "Non-trivial = case whose loaded tree has >= 2 modules or whose layout has >= 3 files; distinct by (layout, request, listing).")
    totals = {"drift": 0, "drift_examples": [], "stats": collections.Counter()}
    if replay:
        with open(replay) as fh:
            stored = json.load(fh)
        print(stored["what"])
        c = stored["case"]
        cases = [x for x in (c.get("canon"), c["case"]) if x]
        if cases[0] is not cases[-1] and json.dumps(cases[0], sort_keys=True) == json.dumps(cases[-1], sort_keys=True):
            cases = cases[:1]
        merge(run, check_chunk(([{"layout": c["layout"], "cases": cases}], False)), totals)
        run.states = run.transitions = 1
        run.finish()
    params = TIERS[tier]
    t0 = time.time()
    jobs = {}
    nworkers = 3 if tier == "quick" else 4
    nproc = 6 if tier == "quick" else 8
    rnd = random.Random(SEED)
    run.exhaustive = True
    order = sorted(params, key=lambda f: ("ext", "stubs", "top", "sub", "ns").index(f))
    # at most len(params) + 1 concurrent JVMs (tlc.run takes one of the machine-wide TLC slots per run): the check runs
    # in parallel, the short defect runs (they stop at the first violation) one after the other on a single thread
    with ThreadPoolExecutor(max_workers=len(params)) as pool, ThreadPoolExecutor(max_workers=1) as dpool:
        for fam in order:
            consts = params[fam]
            jobs["check", fam] = pool.submit(tlc.run, "Finder", "Finder_check.cfg", workers=nworkers, constants=dict(consts, FAMILY=fam), timeout=7000, heap="2g")
            if EXPECTED_CAUSES[fam]:
                jobs["defect", fam] = dpool.submit(tlc.run, "Finder", "Finder_defect.cfg", workers=1, constants=dict(consts, FAMILY=fam), timeout=7000, heap="1g", dump_trace=True)
        # families are replayed one after the other, as soon as their TLC run is over (smallest first)
        for fam in order:
            res = jobs["check", fam].result()
            print(f"TLC {fam}: {res.generated} states generated, {res.distinct} distinct, {len(res.cases)} cases, {res.wall_s:.0f}s (t+{time.time() - t0:.0f}s)", flush=True)
            if res.violated:
                print(res.tail)
                die(f"C14: Finder.tla violates {res.violated} in the clean domain of family {fam}: the model or a cause predicate is wrong")
            tlc.must(res)
            run.add_tlc(res)
            groups = group_cases(res.cases)
            res.cases = []
            seen_causes = {c for g in groups for c in g["cases"][0]["causes"]}
            expected = EXPECTED_CAUSES[fam]
            if not expected <= seen_causes:
                die(f"C14: family {fam} no longer reaches the cause classes {sorted(expected - seen_causes)} (vacuous)")
            if not any(not g["cases"][0]["causes"] for g in groups):
                die(f"C14: family {fam} has no clean layout (vacuous)")
            cap = 1 << 30 if tier == "quick" else 90000
            ncases = sum(len(g["cases"]) for g in groups)
            if ncases > cap:
                # keep every layout; per layout keep the canonical case, every non-"name" request and a seeded sample of listings
                keep = max(2, cap // max(1, len(groups)))
                for g in groups:
                    fixed = [c for c in g["cases"] if c["iscanon"] or c["request"] != "name"]
                    rest = [c for c in g["cases"] if not (c["iscanon"] or c["request"] != "name")]
                    g["cases"] = fixed + (rest if len(rest) <= keep else rnd.sample(rest, keep))
                run.exhaustive = False
                run.note(f"family {fam}: {ncases} cases enumerated; replayed every layout with all request forms and <= {keep} sampled non-canonical listings each ({sum(len(g['cases']) for g in groups)} cases)")
            if ("defect", fam) in jobs:
                dres = jobs["defect", fam].result()
                tlc.must(dres, allow_violations=True)
                run.add_tlc(dres)
                if "NoViolationAnywhere" not in dres.violated or not dres.trace:
                    die(f"C14: the defect domain of family {fam} no longer violates any clause in the model (violated={dres.violated}): recorded defects are not exhibited")
                if [v for v in dres.violated if v != "NoViolationAnywhere"]:
                    die(f"C14: defect run of family {fam} violates {dres.violated}")
                replay_counterexample(run, griffe, fam, dres)
            # replay on the real code, in parallel worker processes
            groups.sort(key=lambda g: json.dumps(g["layout"], sort_keys=True))
            rnd.shuffle(groups)
            size = max(20, min(300, len(groups) // (nproc * 3) + 1))
            chunks = [(groups[i:i + size], False) for i in range(0, len(groups), size)]
            del groups
            with ProcessPoolExecutor(max_workers=nproc, mp_context=get_context("fork")) as procs:
                for out in procs.map(check_chunk, chunks):
                    merge(run, out, totals)
            del chunks
            print(f"replayed {fam} (t+{time.time() - t0:.0f}s)", flush=True)
    st = totals["stats"]
    run.extra["stats"] = dict(st)
    run.extra["drift"] = totals["drift"]
    if st["listing-not-injected"]:
        run.note(f"{st['listing-not-injected']} case(s) where a directory the finder read was listed by none of the wrapped primitives (os.scandir, os.listdir): TLC's order was not injected there")
    if totals["drift"]:
        run.note(f"{totals['drift']} case(s) where the real tree differs from the spec's Impl tree (model drift), e.g. {totals['drift_examples'][:2]}")
    if st["clean-layouts"] < 100 or st["walker-nonempty"] < 100 or st["non-canonical-listing"] < 100 or not (st["req:name"] and st["req:path"] and st["req:dotted"]):
        die(f"C14: vacuous run: {dict(st)}")
    run.finish()
