"""X04: what the real Griffe (working tree of $VERIF_REPO) does with a batch of annotations - public API only.

`observe(batch)` stores every annotation text of the batch in one module `m` (header of x04_terms, with or without
`from __future__ import annotations`), visits it with `griffe.visit` and returns, per case, the plain-data
observations the driver compares with the reference values of spec/ExprOps.tla.
"""
from __future__ import annotations

import traceback
from pathlib import Path

from gverif.common import ensure_repo
from gverif.props.x04_terms import FUTURE, HEADER


def _guard(fn, errors, what):
    try:
        return fn()
    except Exception as exc:  # noqa: BLE001
        errors.append([what, f"{type(exc).__name__}: {exc}", traceback.format_exc(limit=3)])
        return None


def _facts(griffe, x, errors, tag):
    """The read-only properties of one expression."""
    out = {"cls": type(x).__name__}
    for attr in ("path", "canonical_path", "canonical_name", "is_classvar", "is_tuple", "is_iterator", "is_generator"):
        out[attr] = _guard(lambda a=attr: getattr(x, a), errors, f"{tag}.{attr}")
    return out


def _flat(griffe, e):
    out = []
    for p in e.iterate(flat=True):
        if isinstance(p, str):
            out.append(["s", p])
        elif isinstance(p, griffe.ExprName):
            out.append(["n", p.name])
        else:
            out.append(["x", type(p).__name__])
    return out


def _layer_problems(griffe, e, depth=0):
    """Every expression of the tree: its first layer is made of strings and expressions whose own texts concatenate
    to its text, `iter(e)` is that layer, and the flat iteration is the recursive expansion of the layers."""
    probs = []
    items = list(e.iterate(flat=False))
    if any(not isinstance(i, (str, griffe.Expr)) for i in items):
        probs.append(f"layer of {type(e).__name__} yields {[type(i).__name__ for i in items]}")
        return probs
    joined = "".join(i if isinstance(i, str) else str(i) for i in items)
    if joined != str(e):
        probs.append(f"layer of {type(e).__name__} `{e}` concatenates to `{joined}`")
    via_iter = list(e)
    if len(via_iter) != len(items) or any((a is not b) and a != b for a, b in zip(via_iter, items)):
        probs.append(f"iter() of {type(e).__name__} `{e}` differs from iterate(flat=False)")
    expanded = []
    for i in items:
        if isinstance(i, str) or isinstance(i, griffe.ExprName):
            expanded.append(i if isinstance(i, str) else i.name)
        else:
            expanded.extend(p if isinstance(p, str) else p.name for p in i.iterate(flat=True))
    flat = [p if isinstance(p, str) else getattr(p, "name", "?") for p in e.iterate(flat=True)]
    if "".join(expanded) != "".join(flat):
        probs.append(f"flat iteration of `{e}` is not the expansion of its first layer")
    if depth < 8:
        for i in items:
            if isinstance(i, griffe.Expr) and i is not e and not isinstance(i, griffe.ExprName):
                probs.extend(_layer_problems(griffe, i, depth + 1))
    return probs


def _elems(griffe, e, errors, tag):
    def get():
        return [[p.name, p.path, p.canonical_path] for p in e.iterate(flat=True) if isinstance(p, griffe.ExprName)]

    return _guard(get, errors, f"{tag}.names")


def _one(griffe, e, errors):
    if isinstance(e, str) or e is None:
        return {"isstr": True, "repr": e}
    o = {"isstr": False}
    o["str"] = _guard(lambda: str(e), errors, "str")
    if o["str"] is None:
        return o
    o["flat"] = _guard(lambda: _flat(griffe, e), errors, "iterate(flat=True)")
    o["layer_problems"] = _guard(lambda: _layer_problems(griffe, e), errors, "iterate(flat=False)")
    items = _guard(lambda: [i for i in e.iterate(flat=False) if isinstance(i, griffe.Expr)], errors, "iterate(flat=False)") or []
    o["top"] = _facts(griffe, e, errors, "top")
    o["kids"] = [dict(_facts(griffe, k, errors, f"kid{j}"), str=_guard(lambda k=k: str(k), errors, "str(kid)")) for j, k in enumerate(items)]
    o["elems"] = _elems(griffe, e, errors, "expr")
    # modernize(): a (possibly new) expression; the receiver must not change; twice = once
    m = _guard(e.modernize, errors, "modernize")
    if m is not None:
        mo = {"same_obj": m is e, "isexpr": isinstance(m, (griffe.Expr, str))}
        mo["str"] = _guard(lambda: str(m), errors, "str(modernize)")
        if isinstance(m, griffe.Expr):
            mo["elems"] = _elems(griffe, m, errors, "modernized")
            m2 = _guard(m.modernize, errors, "modernize twice")
            mo["str2"] = None if m2 is None else _guard(lambda: str(m2), errors, "str(modernize twice)")
            mo["elems2"] = _elems(griffe, m2, errors, "modernized twice") if isinstance(m2, griffe.Expr) else None
            mo["layer_problems"] = _guard(lambda: _layer_problems(griffe, m), errors, "iterate(flat=False) of modernized")
            mo["top"] = _facts(griffe, m, errors, "modernized")
        mo["receiver_after"] = _guard(lambda: str(e), errors, "str after modernize")
        o["mod"] = mo
    return o


def _site(griffe, x, errors, tag):
    """The same annotation stored elsewhere (class body, parameter, return): text, canonical path, names."""
    if not isinstance(x, griffe.Expr):
        return {"isstr": True, "repr": x}
    return {"isstr": False, "str": str(x), "canonical_path": _guard(lambda: x.canonical_path, errors, f"{tag}.canonical_path"),
            "elems": _elems(griffe, x, errors, tag)}


def observe(batch: list, p0: bool) -> list:
    """batch: [{"i": n, "src": text, "value": bool}] -> one observation dict per case (same order)."""
    griffe = ensure_repo()
    lines = [("" if p0 else FUTURE) + HEADER]
    for c in batch:
        i = c["i"]
        if c["value"]:
            lines.append(f"x{i} = {c['src']}")
        else:
            lines.append(f"x{i}: {c['src']}")
            lines.append(f"class C{i}:\n    a: {c['src']}")
            lines.append(f"def f{i}(p: {c['src']}) -> {c['src']}: ...")
    code = "\n".join(lines) + "\n"
    mod = griffe.visit("m", filepath=Path("/nonexistent/x04/m.py"), code=code)
    out = []
    for c in batch:
        i, errors = c["i"], []
        obj = mod.members[f"x{i}"]
        o = _one(griffe, obj.value if c["value"] else obj.annotation, errors)
        if not c["value"]:
            a = mod.members[f"C{i}"].members["a"]
            o["labels"] = sorted(a.labels)
            o["class_annotation"] = None if a.annotation is None else str(a.annotation)
            fn = mod.members[f"f{i}"]
            o["sites"] = {}
            for site, get in (("class", lambda: a.annotation), ("param", lambda: fn.parameters["p"].annotation), ("returns", lambda: fn.returns)):
                o["sites"][site] = _guard(lambda g=get: _site(griffe, g(), errors, site), errors, f"{site} annotation")
        o["errors"] = errors
        out.append(o)
    return out


def observe_job(args):
    batch, p0 = args
    try:
        return observe(batch, p0)
    except Exception:  # noqa: BLE001
        return {"crash": traceback.format_exc()}
