"""C17 concretiser: abstract program of spec/Inspector.tla -> package on disk, and the common vocabulary.

The tables below are the concrete spellings of the constants of Inspector.tla (DocLines, SigParams,
FromTarget ...).  A wrong spelling cannot hide: the worker reads the real interpreter's object graph
back (`xdump`) and the driver compares it with the spec's Exec (exit 2 on disagreement).
"""
from __future__ import annotations

import os

# DocLines(shape): list of (indent, text); text "" = whitespace-only line
DOC_LINES = {
    "none": [],
    "one": [(0, "S")],
    "std": [(0, "S"), (0, ""), (4, "B"), (4, "")],
    "nl": [(0, ""), (4, "S"), (4, "B"), (4, "")],
    "deep": [(0, ""), (4, "S"), (6, "B"), (4, "")],
    "ragged": [(0, "S"), (4, "B"), (6, "C")],
}

SIG_TEXT = {"s0": [], "s1": ["p", "/", "x", "y=1"], "s2": ["*va", "k", "kd=2", "**kw"], "s3": ["*", "kd=2", "k", "ko=3"]}

# the top-level module `other` next to the package: same name as pkg/other.py, different content
TOP_OTHER_PY = "class TK:\n    pass\n"
OTHER_PY = "class OK:\n    pass\n\n\ndef og(u):\n    pass\n\n\nov = 3\n"


def doc_text(shape: str) -> str:
    return "\n".join(" " * i + t for i, t in DOC_LINES[shape])


def text_to_lines(text) -> list:
    """Real docstring (or None) -> the spec's line records."""
    if text is None:
        return []
    out = []
    for line in text.split("\n"):
        body = line.lstrip(" ")
        out.append({"ind": len(line) - len(body), "txt": body})
    return out


def _doc_stmt(shape: str, ind: str) -> list:
    if shape == "none":
        return []
    return [ind + '"""' + doc_text(shape) + '"""']


def render_main(case: dict, pkg: str) -> str:
    lines = _doc_stmt(case["mdoc"], "")
    depth = 0
    for k in case["prog"]:
        ind = "    " * depth
        t = k["t"]
        if t == "def":
            in_class = depth > 0
            deco = k["deco"]
            if deco == "static":
                lines.append(ind + "@staticmethod")
            elif deco == "class":
                lines.append(ind + "@classmethod")
            elif deco == "prop":
                lines.append(ind + "@property")
            elif deco == "cprop":
                lines.append(ind + "@cached_property")
            first = []
            if in_class and deco != "static":
                first = ["cls" if deco == "class" else "self"]
            params = ", ".join(first + SIG_TEXT[k["sig"]])
            lines.append(f"{ind}{'async ' if k['async'] else ''}def {k['n']}({params}):")
            lines += _doc_stmt(k["doc"], ind + "    ")
            tgt = k["what"] if k["what"] != "-" else "q"
            lines.append(ind + "    " + (f"self.{tgt} = 1" if k["inst"] else "pass"))
        elif t == "setter":
            lines.append(f"{ind}@{k['n']}.setter")
            lines.append(f"{ind}def {k['n']}(self, v):")
            lines.append(ind + "    pass")
        elif t == "class":
            chain = k.get("chain", "-")
            expr = k["base"] if chain == "-" else chain.replace("pkg.", pkg + ".", 1) if chain.startswith("pkg.") else chain
            base = "" if k["base"] == "-" else f"({expr})"
            lines.append(f"{ind}class {k['n']}{base}:")
            depth += 1
            lines += _doc_stmt(k["doc"], "    " * depth)
            lines.append("    " * depth + "pass")
        elif t == "end":
            depth -= 1
        elif t == "assign":
            lines.append(f"{ind}{k['n']} = {'None' if k['val'] == 'none' else '1'}")
        elif t == "ann":
            lines.append(f"{ind}{k['n']}: int = {'None' if k['val'] == 'none' else '1'}")
        elif t == "annonly":
            lines.append(f"{ind}{k['n']}: int")
        elif t == "from":
            w = k["what"]
            tail = "" if k["as"] == "-" else f" as {k['as']}"
            dots = "." * max(k.get("lvl", 1), 1)
            if w in ("OK", "og", "ov"):
                lines.append(f"{ind}from {dots}other import {w}{tail}")
            elif w == "other":
                lines.append(f"{ind}from {dots} import other{tail}")
            elif w == "ext":
                lines.append(f"{ind}from io import StringIO{tail}")
            elif w == "top":
                lines.append(f"{ind}from other import TK{tail}")
            elif w == "cp":
                lines.append(f"{ind}from functools import cached_property{tail}")
            else:
                raise ValueError(w)
        elif t == "import":
            lines.append(f"{ind}import {pkg}.other" + ("" if k["as"] == "-" else f" as {k['as']}"))
        elif t == "ref":
            lines.append(f"{ind}{k['n']} = {k['what']}")
        else:
            raise ValueError(t)
    if depth != 0:
        raise ValueError("unbalanced program")
    return "\n".join(lines) + "\n"


# where the main module lives: (file relative to the package directory, dotted suffix)
MAIN_FILES = {
    "init": ("__init__.py", ""),
    "sub": ("sub.py", ".sub"),
    "mid": ("mid/__init__.py", ".mid"),
    "deep": ("mid/deep/__init__.py", ".mid.deep"),
    "leaf": ("mid/deep/leaf.py", ".mid.deep.leaf"),
}


def write_package(root: str, pkg: str, case: dict) -> str:
    """Writes pkg/{__init__, other[, sub]}.py, pkg/mid/{__init__, other}.py, pkg/mid/deep/{__init__, other[, leaf]}.py
    (the two lower levels only when the main module lives there); returns the dotted name of the main module."""
    d = os.path.join(root, pkg)
    main_file, suffix = MAIN_FILES[case["main"]]
    files = {"__init__.py": "", "other.py": OTHER_PY}
    if case["main"] in ("mid", "deep", "leaf"):
        files.update({"mid/__init__.py": "", "mid/other.py": OTHER_PY, "mid/deep/__init__.py": "", "mid/deep/other.py": OTHER_PY})
    files[main_file] = render_main(case, pkg)
    top = os.path.join(root, "other.py")
    if not os.path.exists(top):
        with open(top, "w") as fh:
            fh.write(TOP_OTHER_PY)
    for rel, text in files.items():
        path = os.path.join(d, rel)
        os.makedirs(os.path.dirname(path), exist_ok=True)
        with open(path, "w") as fh:
            fh.write(text)
    return pkg + suffix
