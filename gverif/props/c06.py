"""C06 - alias resolution is total, all-or-nothing and cycle-safe on any import graph.

Spec: spec/Alias.tla (resolve_target / final_target / members / get_member as an explicit call-stack machine with
_passed_through, paths_seen, Bind, Unwind) under spec/Loader.tla (load, expand_exports, expand_wildcards,
resolve_aliases fix-point loop), Prop = "C06": ARBITRARY programs (cycles, self imports, dangling targets, paths
through aliases, wildcard cycles), two top-level packages loaded in any order, resolve_aliases() repeated.
TLC decides, at every micro step (Grain = 1):
   NoOther, NoRaise, PassedClean, AllOrNothing, ProbeConsistent, FixPoint, StackBound   (+ liveness: Terminates)
for the programs without a recorded defect pattern (E1..E3 of Loader.tla); in the `defect` domain TLC exhibits
the violation.  Binding: every behaviour TLC emits (program + schedule of public calls) is replayed: files on disk,
the same load order, the same resolve_aliases() calls; after EACH public call the real objects are checked
(no exception, no _passed_through left set, no bound alias on top of an unbound chain, fix-point), at the end every
member alias is dereferenced (final_target, members, target, kind, resolved) under a time / recursion guard.
   real code vs the property          -> VIOLATION
   real code vs Loader.tla (per call: outcome, unresolved set, iterations; final tree; probe outcomes) -> drift note
"""
from __future__ import annotations

import json
import os
import random
import signal
import time
import traceback
from concurrent.futures import ProcessPoolExecutor, ThreadPoolExecutor

from gverif import tlc
from gverif.common import SEED, die, ensure_repo, scratch
from gverif.harness import Run
from gverif.props import c05_lib as lib
from gverif.props.c05 import _sorted_walk

WALK = ["p", "p.a", "p.b", "p.s", "p.s.c", "q"]
_W = {}


class Hang(BaseException):       # not an Exception: nothing in the code under test (or in the probes) may swallow it
    pass


def _alarm(_sig, _frm):
    raise Hang()


def _worker_init():
    _W["griffe"] = ensure_repo()
    os.walk = _sorted_walk(os.walk)
    signal.signal(signal.SIGVTALRM, _alarm)   # CPU time of this process: a starved machine is not a hang


def _modules(coll, present):
    for m in present:
        mod = lib._navigate(coll, m)
        if mod is not None:
            yield m, mod


def _creator(alias, prog_by_mod: dict) -> str:
    """Which code path built this (already bound) alias object - abstract vocabulary of Loader.tla; public observations only."""
    par = alias.parent
    if par is None:
        return "detached"
    if par.is_alias:
        return "alias_members"
    if lib.is_expanded(alias):
        return "expand_wildcards"
    return "resolve_target"


def check_state(griffe, coll, present, prog_by_mod, after: str, skipped: set) -> list:
    """Clauses (ii) and (iii) on the real objects between public calls: [(sig, what)].  `resolved` / `target` are public;
    the in-progress flag is read through a tolerant accessor (absent -> the clause is skipped and noted)."""
    bad = []
    for m, mod in _modules(coll, present):
        for n, mem in list(mod.members.items()):
            if not mem.is_alias:
                continue
            # (ii) no _passed_through left behind, anywhere along the bound chain
            link, hops = mem, 0
            while link is not None and link.is_alias and hops < 12:
                flag = lib.passed_flag(link)
                if flag is None:
                    skipped.add("passed-flag")
                elif flag:
                    bad.append(({"clause": "passed-flag", "after": after}, f"{link.path}._passed_through is still True after {after}"))
                link, hops = lib.bound_target(link), hops + 1
            if not mem.resolved:
                continue
            # (iii) all-or-nothing: a bound alias must lead to a real object through bound links only
            if link is None:
                bad.append(({"clause": "all-or-nothing", "creator": _creator(_holder(mem), prog_by_mod),
                             "inner": "unresolved-alias", "after": after},
                            f"{mem.path} is resolved (resolved=True) but its chain stops at the unresolved alias {_inner(mem).path} -> {_inner(mem).target_path} (after {after})"))
            # (a chain of bound links that loops is not partial: dereferencing it reports CyclicAliasError, which the property allows)
    return bad


def _holder(mem):
    """The last bound alias of the chain (the one whose target is the unresolved alias)."""
    link, hops = mem, 0
    while hops < 12:
        nxt = lib.bound_target(link)
        if nxt is None or not nxt.is_alias or not nxt.resolved:
            return link
        link, hops = nxt, hops + 1
    return link


def _inner(mem):
    return lib.bound_target(_holder(mem))


def core(coll, present) -> dict:
    out = {}
    for m, mod in _modules(coll, present):
        ex = mod.exports
        out[m] = {"members": [[n, lib.oid(mem), lib.oid(lib.bound_target(mem)) if mem.is_alias else None, mem.target_path if mem.is_alias else None] for n, mem in mod.members.items()],
                  "exports": None if ex is None else [e if isinstance(e, str) else "expr:" + getattr(e, "name", "?") for e in ex]}
    return out


PUBLIC_LOADER = ("load", "resolve_aliases", "expand_exports", "expand_wildcards", "resolve_module_aliases")


def _site(tb) -> str:
    """Raise site in terms of PUBLIC functions only: the innermost public loader method on the stack and the first public
    function called below it (private helpers may be renamed / split freely)."""
    names = [f.name for f in traceback.extract_tb(tb) if "_griffe" in f.filename and not f.name.startswith("_") and f.name != "<lambda>"]
    last = max((i for i, n in enumerate(names) if n in PUBLIC_LOADER), default=-1)
    if last < 0:
        return "?:-"
    return names[last] + ":" + (names[last + 1] if last + 1 < len(names) else "-")


def run_case(case: dict) -> dict:
    griffe = _W["griffe"]
    present = [e["m"] for e in case["prog"]]
    prog_by_mod = {e["m"]: e["stmts"] for e in case["prog"]}
    files = lib.render_program(case["prog"])
    out = {"ops": [], "bad": [], "real": [], "probes": [], "trace": [], "extra_probes": [], "tap_missing": [], "skipped": []}
    skipped: set = set()
    lib.set_program(case["prog"])
    with scratch("c06-") as d:
        lib.write_package(d, files)
        loader = griffe.GriffeLoader(search_paths=[d], allow_inspection=False)
        coll = loader.modules_collection
        tap = lib.Tap(griffe)
        prev_core = None
        crashed = False
        api = any(o["op"] == "settarget" for o in case["ops"])
        signal.setitimer(signal.ITIMER_VIRTUAL, 8.0, 8.0)
        try:
            for op in case["ops"]:
                rec = {"op": op["op"], "arg": op["arg"], "out": "ok", "unres": [], "iter": 0}
                try:
                    if op["op"] == "load":
                        loader.load(op["arg"])
                        prev_core = None
                    elif op["op"] == "settarget":
                        # public setter between two member aliases (objects fetched from the members dictionaries, nothing dereferenced)
                        a = lib._navigate(coll, op["a"]["m"]).members[op["a"]["n"]]
                        v = lib._navigate(coll, op["v"]["m"]).members[op["v"]["n"]]
                        prev_core = None
                        try:
                            a.target = v
                        except (griffe.CyclicAliasError, griffe.AliasResolutionError) as exc:      # documented outcomes of the setter
                            rec["out"] = "CYC" if isinstance(exc, griffe.CyclicAliasError) else "ARE"
                    else:
                        unres, it = loader.resolve_aliases(implicit=True, external=(op["arg"] == "ext"))
                        rec["unres"] = sorted(unres)
                        rec["iter"] = it
                except Hang:
                    raise
                except Exception as exc:  # noqa: BLE001
                    cls = "ARE" if isinstance(exc, griffe.AliasResolutionError) else "CYC" if isinstance(exc, griffe.CyclicAliasError) else "OTHER:" + type(exc).__name__
                    rec["out"] = cls
                    out["bad"].append(({"clause": "no-raise", "op": op["op"], "exc": cls, "site": _site(exc.__traceback__)},
                                       f"{op['op']}({op['arg']}) raised {type(exc).__name__}: {str(exc)[:120]}"))
                    crashed = True
                out["ops"].append(rec)
                for sig, what in check_state(griffe, coll, present, prog_by_mod, op["op"], skipped):
                    if api and sig["clause"] == "all-or-nothing":
                        continue          # the setter binds onto whatever it is given: chains built through it are not claimed all-or-nothing
                    out["bad"].append((sig, what))
                if crashed:
                    break
                if op["op"] == "resolve":
                    now = (core(coll, present), rec["unres"])
                    if prev_core is not None and prev_core != now:
                        which = "unresolved-set" if prev_core[0] == now[0] else "state"
                        change, detail = "other", ""
                        if which == "state":
                            diffs = [(m, a, b) for m in now[0] for a, b in zip(prev_core[0][m]["members"], now[0][m]["members"]) if a != b]
                            same_shape = all(len(prev_core[0][m]["members"]) == len(now[0][m]["members"]) and prev_core[0][m]["exports"] == now[0][m]["exports"] for m in now[0])
                            if same_shape and diffs and all(a[:2] == b[:2] and a[2] == lib.NIL and b[2] != lib.NIL for _, a, b in diffs):
                                change = "alias-bound-by-second-call"
                                detail = ", ".join(f"{m}.{a[0]}" for m, a, _ in diffs)
                        out["bad"].append(({"clause": "fixpoint", "what": which, "change": change},
                                           f"a second resolve_aliases() changed the {which} ({change} {detail}): unresolved {prev_core[1]} -> {now[1]}"))
                    prev_core = now
            tap.close()
            out["trace"] = tap.events
            out["tap_missing"] = tap.missing
            out["real"] = lib.project(griffe, coll, present)
            if not crashed:
                out["probes"] = lib.probe_all(griffe, coll, present)
                for p in out["probes"]:
                    for acc, o in zip(("final_target", "members"), p["out"]):
                        if o not in ("ok", "ARE", "CYC"):
                            out["bad"].append(({"clause": "other", "accessor": acc, "exc": o}, f"{'.'.join(p['a'])}.{acc} raised {o}"))
                # the remaining accessors named by the property
                for m, mod in _modules(coll, present):
                    for n, mem in list(mod.members.items()):
                        if not mem.is_alias:
                            continue
                        r = bool(mem.resolved)
                        for acc in ("target", "kind", "final_target"):
                            o = lib.outcome(griffe, lambda mem=mem, acc=acc: getattr(mem, acc))
                            if o not in ("ok", "ARE", "CYC") or (acc == "kind" and o != "ok"):
                                out["bad"].append(({"clause": "other", "accessor": acc, "exc": o}, f"{mem.path}.{acc} raised {o}"))
                            if acc == "final_target" and r and o != "ok":
                                out["extra_probes"].append([mem.path, "resolved-but-" + o])
                for sig, what in check_state(griffe, coll, present, prog_by_mod, "probe", skipped):
                    if sig["clause"] == "passed-flag":
                        out["bad"].append((sig, what))
        except Hang:
            out["bad"].append(({"clause": "termination", "during": out["ops"][-1]["op"] if out["ops"] else "load"}, "no answer within 8 s of CPU time (hang)"))
        finally:
            signal.setitimer(signal.ITIMER_VIRTUAL, 0)
            tap.close()
            out["skipped"] = sorted(skipped)
    return out


def run_chunk(cases: list) -> list:
    return [run_case(c) for c in cases]


def sched_text(case: dict) -> str:
    return ", ".join(("load(" + o["arg"] + ")") if o["op"] == "load" else (f"{o['a']['m']}.{o['a']['n']}.target = {o['v']['m']}.{o['v']['n']}") if o["op"] == "settarget" else ("resolve_aliases(external=True)" if o["arg"] == "ext" else "resolve_aliases()") for o in case["ops"])


def evaluate(run: Run, case: dict, res: dict, stats: dict):
    run.replayed()
    run.evaluated(len(res["ops"]) + len(res["probes"]))
    text = f"[{lib.prog_text(case['prog'])}] {sched_text(case)}"
    if any(s["op"] in ("from", "star", "import") for e in case["prog"] for s in e["stmts"]):
        run.nontrivial_case(text)
    cause = "+".join(sorted(case["flags"])) or "none"
    seen = set()
    for sig, what in res["bad"]:
        sig = dict(sig, cause=cause)
        if sig["clause"] == "no-raise":
            sig["predicted"] = bool(case["crashed"])    # does Loader.tla predict that this public call raises?
        if sig["clause"] == "fixpoint":
            sig["predicted"] = bool(case["fixbad"])      # does Loader.tla (transcription of the current code) show it on this behaviour?
        k = json.dumps(sig, sort_keys=True)
        if k in seen:
            continue
        seen.add(k)
        run.violation(sig, f"{text}: {what}", case)
    if res["bad"]:
        stats["violating"] += 1
    if len(run.samples) < 4 and (res["bad"] or len(run.samples) < 2):
        run.sample({"program": lib.prog_text(case["prog"]), "schedule": sched_text(case), "flags": case["flags"], "violations": [w for _, w in res["bad"]][:2]})
    # ---- conformance with the model ----
    mops = [{"op": o["op"], "arg": o["arg"], "out": o["out"] if o["op"] != "settarget" or o["out"] in ("ARE", "CYC") else "ok", "unres": sorted(".".join(p) for p in o["unres"]), "iter": o["iter"]} for o in case["ops"] if o["out"] != ""]
    for o in mops:
        if o["out"] != "ok" and o["op"] != "settarget":
            o["unres"], o["iter"] = [], 0
    rops = res["ops"]
    if case["unmod"]:
        stats["unmodelled"] += 1
        return
    if [dict(o, out=o["out"].split(":")[0]) for o in rops] != mops:
        stats["drift"] += 1
        if stats["drift"] <= 4:
            k = next((i for i, (a, b) in enumerate(zip(mops, rops)) if a != b), min(len(mops), len(rops)))
            run.note(f"drift (public call {k}): {text}: spec {mops[k:k + 1]} real {rops[k:k + 1]}")
        return
    if any(o["out"] not in ("ok", "") for o in case["ops"] if o["op"] != "settarget"):
        stats["model_crash_confirmed"] += 1
        return
    d = lib.first_diff(lib.norm_impl(case["impl"]), res["real"])
    if d:
        stats["drift"] += 1
        if stats["drift"] <= 4:
            run.note(f"drift (final tree): {text}: {d}")
        return
    sp = [{"a": p["a"], "out": p["out"]} for p in case["probes"]]
    if sp != res["probes"]:
        stats["drift"] += 1
        if stats["drift"] <= 4:
            k = next((i for i, (a, b) in enumerate(zip(sp, res["probes"])) if a != b), min(len(sp), len(res["probes"])))
            run.note(f"drift (probe outcomes): {text}: spec {sp[k:k + 1]} real {res['probes'][k:k + 1]}")
        return
    model_aon = case["aon"]
    real_aon = not any(s["clause"] == "all-or-nothing" for s, _ in res["bad"])
    stats["conform"] += 1
    for k in res.get("tap_missing", []) + res.get("skipped", []):
        if k not in stats["not_observable"]:
            stats["not_observable"].append(k)
            run.note(f"'{k}' is not observable on this implementation (symbol absent): that conformance detail / clause is skipped")
    if case["hist"]:
        if lib.same_trace(case["hist"], res["trace"], res.get("tap_missing", [])):
            stats["trace_accepted"] += 1
        else:
            stats["trace_rejected"] += 1
            if stats["trace_rejected"] <= 3:
                st = [[ev[0], ev[1] if ev[1] else [""]] for ev in case["hist"] if ev[0] not in res.get("tap_missing", [])]
                rt = [[e[0], e[1]] for e in res["trace"]]
                k = next((i for i, (a, b) in enumerate(zip(st, rt)) if a != b), min(len(st), len(rt)))
                run.note(f"trace rejected (drift, not a verdict): {text}: step {k}: spec {st[k:k + 1]} real {rt[k:k + 1]} (lengths {len(st)}/{len(rt)})")
    _ = (model_aon, real_aon)


def replay_all(run: Run, cases: list, workers: int, stats: dict):
    if not cases:
        return
    import multiprocessing as mp

    size = max(20, min(150, len(cases) // (workers * 4) + 1))
    chunks = [cases[i:i + size] for i in range(0, len(cases), size)]
    with ProcessPoolExecutor(max_workers=workers, mp_context=mp.get_context("fork"), initializer=_worker_init) as pool:
        for chunk, results in zip(chunks, pool.map(run_chunk, chunks)):
            for case, res in zip(chunk, results):
                evaluate(run, case, res, stats)


# families of each tier; statement bounds, schedules and MaxOps of every family: Loader.tla (MaxTotal, Sched, MaxOps)
TIERS = {
    "quick": ["graph-q", "wild-q", "retarget-q", "fine", "side", "selfcyc", "twostar", "apicyc", "aliasstar", "cycsub"],
    "thorough": ["graph-q", "wild", "retarget", "fine", "side", "selfcyc", "twostar", "apicyc", "aliasstar", "cycsub"],
}
PRESENT = {"graph-q": ["p", "p.a", "p.b", "q"], "graph": ["p", "p.a", "p.b", "q"], "fine": ["p", "p.a", "p.b", "q"],
           "wild": ["p", "p.a", "p.b"], "wild-q": ["p", "p.a", "p.b"], "retarget": ["p", "p.a", "p.b"], "retarget-q": ["p", "p.a", "p.b"], "selfcyc": ["p", "p.a", "p.b"], "twostar": ["p", "p.a", "p.b"], "apicyc": ["p", "p.a", "p.b"], "aliasstar": ["p", "p.a", "p.b"], "cycsub": ["p", "p.a", "p.b", "p.s"], "side": ["p", "q", "r"]}


# fixed defect (name of the old behaviour in the spec) -> family on which TLC must still exhibit it when the old behaviour is switched on
REGRESSION = {"starpath": "wild-q", "expwild": "twostar", "wildcycle": "wild-q", "bindfirst": "selfcyc", "sideload": "side"}


def fam_set(fams) -> str:
    return ", ".join(f'"{f}"' for f in fams)


def main(tier: str, replay: str | None = None):
    ensure_repo()
    run = Run("C06", tier)
    run.rule = ("every program of a family (graph: from-imports/stars between p, p.a, p.b, q incl. self imports, dangling `zz`, paths through members; "
                "wild: wildcard cycles and stars through aliases; retarget: wildcard overriding definitions that already have importers; fine: "
                "free schedules) x every schedule of public calls (packages loaded in any order, resolve_aliases() in between and twice at the end); "
                "non-trivial = at least one import statement; distinct by (program text, schedule).")
    stats = {k: 0 for k in ("violating", "drift", "unmodelled", "conform", "model_crash_confirmed", "trace_accepted", "trace_rejected")}
    stats["not_observable"] = []
    if replay:
        with open(replay) as fh:
            rec = json.load(fh)
        c = rec["case"]          # the complete behaviour record TLC emitted (program, schedule, model outcomes and projection)
        print(rec["what"])
        replay_all(run, [c], 1, stats)
        run.extra["stats"] = stats
        run.states = run.transitions = 1
        run.finish()
    fams = TIERS[tier]
    t0 = time.time()
    common = {"FAMILIES": fam_set(fams), "SCALE": tier, "CAP": 0, "OLD": ""}
    with ThreadPoolExecutor(max_workers=8) as pool:
        jgen = pool.submit(tlc.run, "Loader", "Loader_c06.cfg", workers=8 if tier == "quick" else 12, timeout=6000, heap="8g",
                           constants=dict(common, DOMAIN="all", GEN="TRUE", TRACE="TRUE"))
        jdef = pool.submit(tlc.run, "Loader", "Loader_c06.cfg", workers=2, timeout=6000, heap="4g", dump_trace=True,
                           constants=dict(common, DOMAIN="defect", GEN="FALSE", TRACE="FALSE"))
        jlive = pool.submit(tlc.run, "Loader", "Loader_c06_live.cfg", workers=3, timeout=6000, heap="6g",
                            constants={"FAMILIES": fam_set(["fine"]), "SCALE": tier, "CAP": 2, "OLD": ""})
        # model-only regression: the OLD behaviour of each fixed defect (Loader.tla / Alias.tla constant Old) on the programs of
        # its pattern - TLC must still exhibit the defect there (the same programs are in the verified domain of the main run)
        def regressions():
            # one after the other (a single TLC slot at a time), in parallel with the main runs
            return {name: tlc.run("Loader", "Loader_c06.cfg", workers=3, timeout=6000, heap="4g",
                                  constants={"FAMILIES": fam_set([fam]), "SCALE": "quick", "CAP": 0, "OLD": f'"{name}"', "DOMAIN": "old", "GEN": "FALSE", "TRACE": "FALSE"})
                    for name, fam in REGRESSION.items()}

        jold = pool.submit(regressions)
    model = {}
    for name, r in jold.result().items():
        tlc.must(r, allow_violations=True)
        run.add_tlc(r)
        model["old:" + name] = r.violated
        if not r.violated:
            die(f"C06: the regression config Old = {{{name}}} no longer exhibits the fixed defect on the model")
    res = tlc.must(jgen.result(), allow_violations=True)
    run.add_tlc(res)
    model["claimed"] = res.violated
    if res.violated:
        print(res.tail)
        die(f"C06: Loader.tla violates {res.violated} on a program that matches no recorded defect pattern: replay it and either "
            "record the pattern or fix the model")
    cases = res.cases
    for c in cases:
        c["sched"] = {"fine": "free", "side": "ext", "apicyc": "api"}.get(c["family"], "std")
        c["scale"] = tier
    res = tlc.must(jdef.result(), allow_violations=True)
    run.add_tlc(res)
    model["defect-domain"] = res.violated
    if res.trace:
        last = res.trace[-1]
        prog = [{"m": m, "stmts": last["prog"][m]} for m in PRESENT[last["Family"]]]
        run.note(f"defect domain: TLC exhibits {res.violated} on [{lib.prog_text(prog)}] after {[o['op'] for o in last['ops']]} (family {last['Family']})")
    res = tlc.must(jlive.result(), allow_violations=True)
    run.add_tlc(res)
    model["liveness"] = res.violated
    if res.violated:
        print(res.tail)
        die(f"C06: termination / safety violated on the unconstrained instance: {res.violated}")
    fcount = {}
    for c in cases:
        fcount[c["family"]] = fcount.get(c["family"], 0) + 1
    run.extra["behaviours_per_family"] = fcount
    run.extra["model_verdicts"] = model
    run.extra["tlc_wall_s"] = round(time.time() - t0, 1)
    # vacuity: every family produced behaviours; load orders, intermediate resolves, all three probe outcomes, model crashes,
    # partially resolved chains and every tapped function occur
    frames_seen = {ev[0] for c in cases for ev in c["hist"]}
    outs = {o for c in cases for p in c["probes"] for o in p["out"]}
    scheds = {tuple(o["op"][0] + o["arg"] for o in c["ops"]) for c in cases}
    missing = ([f for f in fams if not fcount.get(f)] + sorted({"LD", "RA", "EE", "EW", "RM", "RT"} - frames_seen) + sorted({"ok", "ARE", "CYC"} - outs)
               + ([] if any(s[:2] == ("lq", "lp") for s in scheds) else ["q-before-p"]) + ([] if any(s[:3] == ("lp", "r", "lq") for s in scheds) else ["resolve-between-loads"])
               + ([] if any(c["crashed"] for c in cases) else ["model-crash"]) + ([] if any(not c["aon"] for c in cases) else ["model-partial-chain"]))
    if missing or len(cases) < (1500 if tier == "quick" else 15000):
        die(f"C06: vacuous enumeration: missing {missing}, {len(cases)} behaviours")
    rnd = random.Random(SEED)
    cap = 4000 if tier == "quick" else 60000
    run.exhaustive = len(cases) <= cap
    if len(cases) > cap:
        keep = [c for c in cases if c["flags"] or c["crashed"] or not c["aon"]]
        rest = [c for c in cases if not (c["flags"] or c["crashed"] or not c["aon"])]
        if len(keep) > cap * 2 // 3:
            keep = rnd.sample(keep, cap * 2 // 3)
        cases = keep + rnd.sample(rest, min(len(rest), cap - len(keep)))
    replay_all(run, cases, 6 if tier == "quick" else 10, stats)
    run.extra["stats"] = stats
    run.extra["replay_wall_s"] = round(time.time() - t0 - run.extra["tlc_wall_s"], 1)
    if stats["drift"] or stats["trace_rejected"]:
        run.note(f"model drift on {stats['drift']} behaviour(s), {stats['trace_rejected']} recorded trace(s) rejected")
    run.finish()
