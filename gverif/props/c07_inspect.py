"""C07 child process: load rendered hierarchies with `force_inspection=True` (the modules are really imported,
so this never happens in the driver process).  usage: python -m gverif.props.c07_inspect IN.json OUT.json DIR

IN: list of C3.tla CASE records (dag domain only: CPython must be able to import the modules; class statements
CPython refuses are wrapped in try/except so that the module still imports - those classes do not exist at run
time and are skipped).  OUT: {"results": [{"i", "viol", "drift"}], "machinery": [msg]}.
"""
from __future__ import annotations

import importlib
import json
import os
import sys


def main(argv):
    from gverif.common import ensure_repo
    from gverif.props import c07_bind as B

    griffe = ensure_repo()
    with open(argv[1]) as fh:
        cases = json.load(fh)
    directory = argv[3]
    sys.path.insert(0, directory)
    results, machinery = [], []
    for i, case in enumerate(cases):
        prefix = f"h{i}_"
        sources = B.render(case, prefix, guarded=True)
        for name, src in sources.items():
            with open(os.path.join(directory, name + ".py"), "w") as fh:
                fh.write(src)
        try:  # the rendering itself must be importable by CPython: otherwise the harness is wrong, not Griffe
            for name in sources:
                importlib.import_module(name)
        except Exception as exc:  # noqa: BLE001
            machinery.append(f"case {i}: rendered modules do not import: {exc!r}")
            continue
        try:
            coll = B.load_disk(griffe, sources, directory, force_inspection=True)
            real = B.real_view(case, coll, prefix)
        except Exception as exc:  # noqa: BLE001
            results.append({"i": i, "viol": [({"clause": "load-total", "agent": "inspect", "domain": case["domain"], "layout": case["layout"], "kind": "-", "forward": False, "who": "class"}, f"inspection raised {exc!r}")], "drift": 0})
            continue
        # the imported classes themselves: CPython, in the real module layout, against the reference
        for c in range(1, case["n"] + 1):
            mod = sys.modules.get(B.mod_name(case, c, prefix))
            k = getattr(mod, f"C{c}", None) if mod else None
            ref = case["ref"][c - 1]
            if (k is not None) != ref["ok"]:
                machinery.append(f"case {i}: class C{c} exists at run time = {k is not None}, reference ok = {ref['ok']}")
            elif k is not None:
                got = [int(x.__name__[1:]) for x in k.__mro__ if x is not object]
                if got != ref["order"]:
                    machinery.append(f"case {i}: imported C{c}.__mro__ = {got}, reference {ref['order']}")
        viol, drift = B.compare(case, real, "inspect", prefix)
        results.append({"i": i, "viol": viol, "drift": drift})
        for name in sources:
            sys.modules.pop(name, None)
    with open(argv[2], "w") as fh:
        json.dump({"results": results, "machinery": machinery}, fh)


if __name__ == "__main__":
    main(sys.argv)
