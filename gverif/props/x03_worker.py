"""X03 worker: replay the cases of one layout on the real code and compare with the spec's Ref / Impl values.

Runs inside a multiprocessing pool (chdir is process-global).  Returns plain dicts; the parent owns the `Run`.
Only public observations are used: `griffe.GriffeLoader(...).load(...)`, member look-ups, and the attributes themselves.
A case fixes layout, search-path form and request; it is loaded afresh under every cwd position of the case: under the
first one every attribute of every object is compared, under the others the cwd-dependent one (relative_filepath).
"""
from __future__ import annotations

import os
import shutil
import tempfile
import traceback
from pathlib import Path

from gverif.common import ensure_repo, scratch_root
from gverif.props.x03_fs import ATTR, FIELDS, SPN, Layout, build_api, dotted, purge_imports, so_source, to_real, to_spec

PRED = {"init", "package", "subpackage", "ns", "nssub"}
CWD_ORDER = ["w", "root", "sp1", "sp2", "other", "in", "deep"]


def observe(root: str, obj, field: str):
    """Real attribute -> spec value (Val record or "T"/"F"/exception name)."""
    try:
        v = getattr(obj, ATTR[field])
    except Exception as exc:  # noqa: BLE001
        name = type(exc).__name__
        return name if field in PRED else {"t": "err", "v": [[name]]}
    if field in PRED:
        return "T" if v is True else "F" if v is False else f"<{v!r}>"
    if isinstance(v, list):
        return {"t": "list", "v": [to_spec(root, p) for p in v]}
    if isinstance(v, Path):
        return {"t": "path", "v": [to_spec(root, v)]}
    return {"t": "other", "v": [[repr(v)]]}


def path_of(obj, attr: str) -> str:
    try:
        v = getattr(obj, attr)
        return v if isinstance(v, str) else v.path
    except Exception as exc:  # noqa: BLE001
        return "!" + type(exc).__name__


class Checker:
    def __init__(self, root: str, case: dict, ident: dict):
        self.root, self.case, self.ident = root, case, ident
        self.out = {"violations": [], "drift": 0, "checked": 0, "kinds": set(), "structure": None, "loads": 0}
        self.viol = {(tuple(v["node"]), v["who"], v["f"]) for v in case["viol"]}
        self.causes = sorted(case["causes"])
        self.cwd = None       # cwd position being observed
        self.full = True      # first position: every attribute; later ones: relative_filepath only

    def bad(self, clause: str, who: str, predicted: bool, what: str):
        sig = {"fam": self.case["fam"], "top": self.case["top"], "clause": clause, "who": who, "causes": self.causes,
               "predicted": predicted, "form": self.case["form"], "req": self.case["req"], "agent": self.case["agent"]}
        if len(self.out["violations"]) < 20:
            self.out["violations"].append({"sig": sig, "what": f"{what} [cwd {self.cwd}={self.case['cwds'][self.cwd]}]", "case": self.ident})

    def attrs(self, obj, impl: dict, ref: dict, refrf: dict, node: list, who: str, label: str, model_who: str | None = None):
        """File-derived attributes of `obj` against the acceptable set (Ref) and the model's value (Impl)."""
        for f in FIELDS if self.full else ("rf",):
            real = observe(self.root, obj, f)
            if f == "rf":
                want = impl["rf"][self.cwd]
                accept = refrf.get(self.cwd, [want])
            else:
                want = impl[f]
                accept = ref.get(f, [want])
            self.out["checked"] += 1
            if real not in accept:
                predicted = (tuple(node), model_who or who, f) in self.viol and real == want
                self.bad(f, who, predicted, f"{label}.{ATTR[f]} = {real} not in {accept}")
            elif real != want:
                self.out["drift"] += 1

    def names(self, obj, who: str, label: str, path: str, canonical: str, module: str, package: str):
        if not self.full:
            return
        got = {"path": path_of(obj, "path"), "canonical_path": path_of(obj, "canonical_path"),
               "module": path_of(obj, "module"), "package": path_of(obj, "package")}
        want = {"path": path, "canonical_path": canonical, "module": module, "package": package}
        self.out["checked"] += 4
        for k in want:
            if got[k] != want[k]:
                self.bad(k, who, False, f"{label}.{k} = {got[k]!r}, expected {want[k]!r}")

    def tree(self, top):
        case = self.case
        topname = case["obs"][0]["name"][0]
        # an empty TLA+ function prints as the empty sequence
        nodes = {tuple(o["name"]): {k: ({} if v == [] and k in ("mr", "mrf", "oi", "or", "orf") else v) for k, v in o.items()} for o in case["obs"]}
        real_mods = {}

        def walk(mod, name):
            real_mods[name] = mod
            for mname, m in mod.members.items():
                if not m.is_alias and m.is_module:
                    walk(m, (*name, mname))

        walk(top, (topname,))
        if set(real_mods) != set(nodes):
            self.out["structure"] = f"modules {sorted(dotted(n) for n in real_mods)} != table {sorted(dotted(n) for n in nodes)}"
        for name, o in nodes.items():
            mod = real_mods.get(name)
            if mod is None:
                continue
            d = dotted(name)
            mi = o["mi"]
            self.attrs(mod, mi, o["mr"], o["mrf"], o["name"], "module", d)
            self.names(mod, "module", d, d, d, d, topname)
            self.out["kinds"].add("module:" + mi["fp"]["t"])
            if not o["holder"]:
                continue
            oi = {**mi, **o["oi"]}

            def objects(parent, ppath):
                for mname, m in parent.members.items():
                    if m.is_alias or m.is_module:
                        continue
                    opath = f"{ppath}.{mname}"
                    self.attrs(m, oi, o["or"], o["orf"], o["name"], "object", opath)  # noqa: B023
                    self.names(m, "object", opath, opath, opath, d, topname)  # noqa: B023
                    self.out["kinds"].add(m.kind.value)
                    objects(m, opath)

            objects(mod, d)
        for a in case["aliases"]:
            holder = real_mods.get(tuple(a["at"]))
            tgt = nodes[tuple(a["tgt"])]
            if holder is None or tuple(a["tgt"]) not in real_mods:
                continue
            label = f"{dotted(a['at'])}.{a['name']}"
            al = holder.members.get(a["name"])
            if al is None or not al.is_alias:
                self.out["structure"] = f"planned alias {label} is {al!r}"
                continue
            who = "alias-chain" if a["via"] else "alias"
            if a["obj"]:
                self.attrs(al, {**tgt["mi"], **tgt["oi"]}, tgt["or"], tgt["orf"], tgt["name"], who, label, "object")
                canonical = dotted(a["tgt"]) + "." + a["obj"]
            else:
                self.attrs(al, tgt["mi"], tgt["mr"], tgt["mrf"], tgt["name"], who, label, "module")
                canonical = dotted(a["tgt"])
            self.names(al, who, label, label, canonical, dotted(a["tgt"]), topname)
            self.out["kinds"].add(who + (":class" if a["obj"] else ":module"))
        for dd in case["dangling"]:
            holder = real_mods.get(tuple(dd["at"]))
            al = holder.members.get(dd["name"]) if holder is not None else None
            if al is None or not al.is_alias:
                continue
            label = f"{dotted(dd['at'])}.{dd['name']}"
            got = {ATTR[f]: observe(self.root, al, f) for f in (FIELDS if self.full else ("rf",))}
            got = {k: (v if isinstance(v, str) else v["v"][0][0] if v["t"] == "err" else str(v)) for k, v in got.items()}
            if self.full:
                got.update({k: path_of(al, k).lstrip("!") for k in ("canonical_path", "module", "package")})
                if path_of(al, "path") != label:
                    self.bad("path", "alias-dangling", False, f"{label}.path = {path_of(al, 'path')!r}")
            self.out["checked"] += len(got)
            wrong = {k: v for k, v in got.items() if v != dd["err"]}
            if wrong:
                predicted = dd["ierr"][self.cwd] != dd["err"] and set(wrong.values()) == {dd["ierr"][self.cwd]}
                self.bad("error", "alias-dangling", predicted, f"{label} (target {dd['target']}): {wrong}, expected {dd['err']}")
            elif dd["ierr"][self.cwd] != dd["err"]:
                self.out["drift"] += 1
            self.out["kinds"].add("alias-dangling")


def load_case(griffe, layout, root: str, case: dict, cwd: Path):
    if case["fam"] == "api":
        return build_api(griffe, root, case)
    if case["fam"] == "builtin":
        return griffe.GriffeLoader(search_paths=layout.search_paths("abs", cwd), allow_inspection=True).load("itertools")
    if case["req"] == "path":
        sp = [str(Path(root, "o"))]
        spec = Path(root, "w", SPN[case["kids"][0]["i"] - 1], "pkg")
    else:
        sp = layout.search_paths(case["form"], cwd)
        spec = "pkg"
    inspect = case["agent"] == "inspect"
    loader = griffe.GriffeLoader(search_paths=sp, allow_inspection=layout.has_so or inspect, force_inspection=inspect)
    try:
        return loader.load(spec, find_stubs_package=case["fam"] == "stubs")
    finally:
        if layout.has_so or inspect:
            purge_imports("pkg")


def run_case(griffe, layout, root: str, case: dict, ident: dict) -> dict:
    chk = Checker(root, case, ident)
    for n, c in enumerate(sorted(case["cwds"], key=CWD_ORDER.index)):
        chk.cwd, chk.full = c, n == 0
        cwd = to_real(root, case["cwds"][c])
        os.chdir(cwd)
        try:
            chk.tree(load_case(griffe, layout, root, case, cwd))
            chk.out["loads"] += 1
        except Exception as exc:  # noqa: BLE001
            chk.bad("total", "load", False, f"loading / walking raised {exc!r}: {traceback.format_exc()[-600:]}")
        finally:
            os.chdir(root)
    chk.out["kinds"] = sorted(chk.out["kinds"])
    return chk.out


def run_group(group: list) -> list:
    """All cases of one layout: [(index, case)] -> [(index, result)]."""
    try:
        return _run_group(group)
    except BaseException as exc:  # noqa: BLE001  (also SystemExit of gverif.common.die: report, never leave the parent waiting)
        return [(group[0][0], {"error": f"{exc!r}: {traceback.format_exc()[-800:]}"})]


def _run_group(group: list) -> list:
    griffe = ensure_repo()
    first = group[0][1]
    if any(f["r"][-1] == "_bisect.so" for f in first["disk"]) and so_source() is None:
        return [(i, {"skipped": "no extension module file to copy"}) for i, _ in group]
    results = []
    root = os.path.realpath(tempfile.mkdtemp(prefix="x03-", dir=scratch_root()))
    try:
        layout = Layout(root, first)
        for _, case in group:
            for p in case["cwds"].values():
                to_real(root, p).mkdir(parents=True, exist_ok=True)
        for i, case in group:
            results.append((i, run_case(griffe, layout, root, case, {"index": i, "key": case_key(case)})))
    finally:
        os.chdir("/")
        shutil.rmtree(root, ignore_errors=True)
    return results


def layout_key(c: dict):
    return (c["fam"], c["top"], tuple((k["i"], tuple(sorted(k["ks"]))) for k in sorted(c["kids"], key=lambda k: k["i"])),
            c["sg"], tuple(sorted(c["skids"])), tuple(c["chain"]), c["agent"])


def case_key(c: dict):
    return [*layout_key(c), c["form"], c["req"]]
