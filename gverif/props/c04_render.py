"""C04 - concretiser: abstract case of spec/Scope.tla -> package on disk (source text only, no Griffe import here).

The import statements come from TLC (`stm` of the case: Scope.tla StmtOf), the rest of the layout is the skeleton the
header comment of Scope.tla describes.  Every reference site exists twice, side by side, in the same scope:

  * statically, below `if _S:` (never executed, `_S` is False) - the annotation / value / base class / decorator /
    parameter / return / attribute-chain / lambda / comprehension expressions that the real Griffe visitor stores;
  * dynamically, as a probe `try: _P[key] = <same expression> except NameError: _P[key] = _U` that CPython executes
    at that very point of that very scope (class bodies while the class is being built, methods when called).
"""
from __future__ import annotations

MOD_FILE = {"P": "pkg/__init__.py", "PA": "pkg/a.py", "PS": "pkg/sub/__init__.py", "PSB": "pkg/sub/b.py", "PSD": "pkg/sub/deep/__init__.py", "Q": "q.py"}
MOD_PATH = {"P": "pkg", "PA": "pkg.a", "PS": "pkg.sub", "PSB": "pkg.sub.b", "PSD": "pkg.sub.deep", "Q": "q"}
MOD_PARENT = {"P": None, "PA": "P", "PS": "P", "PSB": "PS", "PSD": "PS", "Q": None}
SCOPES = ["mod", "A", "B", "A.init", "A.m", "B.init", "B.m"]
NIL = "nil"

ZRT = '''"""runtime support of the probes (C04)"""
P = {}
S = False
class V:
    def __init__(self, path):
        self.path = path
class _Mark:
    def __init__(self, name):
        self.name = name
U = _Mark("unbound")
E = _Mark("local")
PARAM = _Mark("param")
ATTR = _Mark("attr")
REJECTED = []
class _Obj:
    def __getattr__(self, name):      # every attribute of the runtime value is the marker, whatever the scopes bind
        return ATTR
O = _Obj()
L = [O]
def G():
    return O
'''

HEADER = "from zrt import P as _P, V as _V, S as _S, U as _U, E as _E, REJECTED as _R, G as _g, L as _L\n"
VALUE_ROOT = {"call": "_g()", "subscript": "_L[0]", "str": '"s"'}       # Scope.tla RootKinds -> root expression of `<root>.n`
LIB_K = "class K:\n    class N: pass\n"


def stmt_text(st: dict) -> str:
    if st["stmt"] == "import":
        s = "import " + ".".join(st["mod"])
    elif st["stmt"] == "from":
        s = "from " + "." * st["level"] + ".".join(st["mod"]) + " import " + st["name"]
    else:
        raise ValueError(f"no statement in {st}")
    if st["asname"] != NIL:
        s += " as " + st["asname"]
    return s


def anc(m: str) -> list:
    out = []
    while MOD_PARENT[m]:
        m = MOD_PARENT[m]
        out.append(m)
    return out


def binding_lines(kind: str, st: dict, n: str, own_path: str, guarded: bool, tag: str, pre: dict | None = None) -> list:
    """Source lines (unindented) that realise binding kind `kind` of name n in the scope whose dotted path is own_path."""
    if kind in ("none", "skel", "iattr"):
        return []
    if kind == "dclass":
        return [f"class {n}: pass"]
    if kind == "dfunc":
        return [f"def {n}(*a): pass"]
    if kind == "dattr":
        return [f'{n} = _V("{own_path}.{n}")']
    if kind == "annonly":
        return [f"{n}: int"]
    text = stmt_text(st)
    if pre and pre["stmt"] != NIL:       # Scope.tla PreStmtOf: an earlier statement binding the same name, rebound by `st`
        return [stmt_text(pre), text]
    if guarded:
        return ["try:", "    " + text, "except ImportError:", f'    _R.append("{tag}")']
    return [text]


def value_attr_sites(n: str, rks: list, target: str) -> list:
    """`<root>.n` with a root that is not a name (attribute of a runtime value); target = 's_' or 'self.i_'."""
    out = [f"    {target}v_{rk} = {VALUE_ROOT[rk]}.{n}" for rk in sorted(rks)]
    if "call" in rks:
        out.append(f"    {target}v_chain = _g().{n}.K")
        if target == "s_":
            out += [f"    @_g().{n}", "    def s_v_dec(): pass"]
    return out


def probe_lines(key: str, n: str, suffix: list, rks: list = ()) -> list:
    out = ["try:", f'    _P["{key}"] = {n}', "except NameError:", f'    _P["{key}"] = _U']
    for rk in sorted(rks):        # what CPython evaluates `<root>.n` to: the attribute of the value (str: of its type)
        out.append(f'_P["{key}/v_{rk}"] = ' + (f"{VALUE_ROOT[rk]}.{n}" if rk != "str" else f"type({VALUE_ROOT[rk]})"))
    for c in range(1, len(suffix) + 1):
        expr = ".".join([n] + suffix[:c])
        out += ["try:", f'    _P["{key}/c{c}"] = {expr}', "except (NameError, AttributeError):", f'    _P["{key}/c{c}"] = _U']
    out += [f'_P["{key}/lam"] = (lambda {n}: {n})(_E)', f'_P["{key}/cmp"] = [{n} for {n} in (_E,)][0]']
    return out


def class_sites(n: str, suffix: list, rks: list = ()) -> list:
    out = [f's_str: "{n}"',       # stringized annotation: executed for real, evaluated later by inspect.get_annotations(eval_str=True)
           "if _S:",
           f"    s_ann: {n}",
           f"    s_val = {n}",
           f"    class s_base({n}): pass",
           f"    @{n}",
           "    def s_dec(): pass",
           f"    def s_par(p: {n} = {n}) -> {n}: pass",
           f"    @{n}()",
           "    def s_dcall(): pass",
           f"    s_sub: {n}[{n}]",
           "    @property",
           f"    def s_prop(self) -> {n}: pass"]
    for c in range(1, len(suffix) + 1):
        out.append(f"    s_c{c} = " + ".".join([n] + suffix[:c]))
    out += [f"    s_lam = lambda {n}: {n}", f"    s_cmp = [{n} for {n} in ()]"]
    return out + value_attr_sites(n, rks, "s_")


def init_sites(n: str, suffix: list, rks: list = ()) -> list:
    out = ["if _S:", f"    self.i_ann: {n} = None", f"    self.i_val = {n}"]
    for c in range(1, len(suffix) + 1):
        out.append(f"    self.i_c{c} = " + ".".join([n] + suffix[:c]))
    out += [f"    self.i_lam = lambda {n}: {n}", f"    self.i_cmp = [{n} for {n} in ()]"]
    return out + value_attr_sites(n, rks, "self.i_")


def ind(lines: list, k: int) -> list:
    return [("    " * k + ln) if ln else ln for ln in lines]


def render(env: dict) -> dict:
    """env: fam, M, n, up1, up2, modb, ab, bb, fnb, inh, zmod, stm{M,A,B,F}, suffix{scope: [...]} -> {relative file name: text}."""
    m, n = env["M"], env["n"]
    mp = MOD_PATH[m]
    guarded = env["fam"] == "rel"
    suf = env["suffix"]
    rks = env.get("rks", [])
    stm = env["stm"]
    pre = env.get("pre") or {}
    files = {"zrt.py": ZRT}
    # library modules (everything but the site module); ancestors of M may bind n
    ancs = anc(m)
    for lib in MOD_FILE:
        if lib == m:
            continue
        text = LIB_K
        if lib == "Q":
            text += "".join(f"class {q}: pass\n" for q in ("x", "A", "B"))
        if lib == env.get("zmod") and env.get("inh") == "i_dclass":
            text += f"class Z:\n    class {n}: pass\n"       # the base class of A and B, imported by the site module
        if lib in ancs:
            up = env["up1"] if ancs.index(lib) == 0 else env["up2"]
            if up == "dclass":
                text += f"class {n}: pass\n"
            elif up != "none":
                raise ValueError(up)
        files[MOD_FILE[lib]] = text

    param = f", {n}" if env["fnb"] == "param" else ""

    def method_block(cls_key: str, cls_path: str, cls_kind: str) -> list:
        body = []
        if cls_kind == "iattr":
            body.append(f'self.{n} = _V("{cls_path}.{n}")')
        if env["fnb"] == "limp":
            body += binding_lines("limp", stm["F"], n, cls_path + ".__init__", guarded, cls_key + ".init")
        body += probe_lines(cls_key + ".init", n, suf.get(cls_key + ".init", []), rks)
        body += init_sites(n, suf.get(cls_key + ".init", []), rks)
        out = [f"def __init__(self{param}):"] + ind(body, 1)
        out += [f"def m(self{param}):"] + ind(probe_lines(cls_key + ".m", n, []), 1)
        return out

    lines = [HEADER.rstrip("\n")] + LIB_K.rstrip("\n").split("\n")
    # the base class Z of A and B: what it declares is inherited by A and B but in no scope
    inh = env.get("inh", "none")
    if inh == "i_dclass":
        lines.append(f"from {MOD_PATH[env['zmod']]} import Z")
    else:
        z_body = binding_lines({"none": "none", "l_dclass": "dclass", "l_dfunc": "dfunc", "l_dattr": "dattr"}[inh], None, n, mp + ".Z", False, "Z")
        lines += ["class Z:"] + ind(z_body or ["pass"], 1)
    lines += binding_lines(env["modb"], stm["M"], n, mp, guarded, "mod", pre.get("M"))
    a_body = binding_lines(env["ab"], stm["A"], n, mp + ".A", guarded, "A", pre.get("A"))
    b_body = binding_lines(env["bb"], stm["B"], n, mp + ".A.B", guarded, "B", pre.get("B"))
    b_body += method_block("B", mp + ".A.B", env["bb"])
    b_body += probe_lines("B", n, suf.get("B", []), rks)
    b_body += class_sites(n, suf.get("B", []), rks)
    a_body += ["class B(Z):"] + ind(b_body, 1)
    a_body += method_block("A", mp + ".A", env["ab"])
    a_body += probe_lines("A", n, suf.get("A", []), rks)
    a_body += class_sites(n, suf.get("A", []), rks)
    lines += ["class A(Z):"] + ind(a_body, 1)
    lines += probe_lines("mod", n, suf.get("mod", []), rks)
    lines += class_sites(n, suf.get("mod", []), rks)
    files[MOD_FILE[m]] = "\n".join(lines) + "\n"
    return files
