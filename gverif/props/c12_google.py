"""Google style: concretiser (line class -> spellings), classifier (line -> class, with the real regexes),
projection of real sections onto the vocabulary of spec/DocGoogle.tla."""
from __future__ import annotations

import re

from gverif.common import die
from gverif.props.c12_common import norm_lines, norm_list

STYLE = "google"
TYPES = ["int", "list[str]", "Optional[Foo]", "a.b.C"]


class Google:
    style = STYLE
    module = "DocGoogle"

    # what the parser's admonition / named-value patterns accept, as documented (docs/reference/docstrings.md: "section identifier:
    # optional section title"; "name (type): description") - own transcriptions, VALIDATED against the parser's behaviour by
    # check_classifier(); no private object of the parser module is read
    ADMONITION = re.compile(r"^(?P<type>[\w][\s\w-]*):(\s+(?P<title>[^\s].*))?\s*$", re.IGNORECASE)
    NAMED_VALUE = re.compile(r"^(?:(?P<name>\w+)?\s*(?:\((?P<type>.+)\))?:\s*)?(?P<desc>.*)$")

    def __init__(self, griffe):
        from gverif.props.c12_probe import probe_titles  # noqa: PLC0415

        self.griffe = griffe
        # section keyword table PROBED through the public parser at check time
        self.keywords = probe_titles(griffe, "google")
        self.kind_of = {kw: kind for kind, kws in self.keywords.items() for kw in kws}
        spec_kinds = {"parameters", "other_parameters", "raises", "warns", "functions", "classes", "modules", "attributes", "returns", "yields", "receives", "examples"}
        if set(self.keywords) != spec_kinds:
            die(f"google: the parser accepts titles for the section kinds {sorted(self.keywords)}, DocGoogle.tla models {sorted(spec_kinds)}")

    # ---- concretiser -----------------------------------------------------------------------------------------
    def spell(self, ln: dict, i: int, v: int) -> dict:
        """Concrete text of line i of class `ln`, variant v; also the parts the readers should extract."""
        k, ind, a, t = ln["k"], ln["ind"], ln["a"], ln["t"]
        pad = " " * ind
        name, typ, desc = f"n{i}", TYPES[(v + i) % len(TYPES)], f"d{i} words"
        if k == "blank":
            return {"text": "" if a == "e" else ("  ", "       ")[v % 2]}
        if k == "text":
            if a == "plain":
                text = [f"alpha d{i} beta", f"Ünï d{i} wörd — dash", f">>> d{i} = 1", f"d{i}"][v % 4]
            else:
                text = [f"see (x): d{i} note", f": d{i} lead", f"a, b: d{i}", f"http://d{i}.example"][v % 4]
            return {"text": text}
        if k == "sec":
            kws = self.keywords[a]
            kw = kws[(v + i) % len(kws)]
            kw = [kw.capitalize(), kw.upper(), kw.title(), kw][v % 4]
            title = f"Title d{i}: more" if (v % 2) else f"Title d{i}"
            return {"text": f"{kw}:" + (f" {title}" if t else ""), "title": title if t else None, "kw": kw}
        if k == "adm":
            typ_ = ["Note", "See also", "Tip", f"foo{i} bar", "Danger-zone"][(v + i) % 5]
            title = f"Check d{i} out"
            return {"text": f"{typ_}:" + (f" {title}" if t else ""), "title": title if t else None, "admtype": typ_}
        if k == "fence":
            return {"text": pad + ["```", "```python", f"```d{i}"][v % 3]}
        if k == "prompt":
            if a == "flags":
                return {"text": pad + f">>> print(d{i})  # doctest: +SKIP", "pre": f">>> print(d{i})  # doctest", "desc": "+SKIP", "name": None, "type": None}
            return {"text": pad + [f">>> d{i} = 1", f">>> print(d{i})"][v % 2]}
        if k == "item":
            if a == "F1":
                if v % 3 == 2:
                    return {"text": f"{pad}{name}:", "name": name, "type": None, "desc": "", "pre": name}
                return {"text": f"{pad}{name}: {desc}", "name": name, "type": None, "desc": desc, "pre": name}
            if a == "F2":
                opt = ", optional" if v % 2 else ""
                return {"text": f"{pad}{name} ({typ}{opt}): {desc}", "name": name, "type": typ, "desc": desc, "pre": f"{name} ({typ}{opt})", "opt": opt}
            if a == "F3":
                return {"text": f"{pad}({typ}): {desc}", "name": None, "type": typ, "desc": desc, "pre": f"({typ})"}
            if a == "F4":
                return {"text": f"{pad}: {desc}", "name": "", "type": None, "desc": desc, "pre": ""}
            if a == "F5":
                text = [f"{desc} plain", f"d{i}", f"d{i} (see below) - really"][v % 3]
                return {"text": pad + text, "name": None, "type": None, "desc": text, "pre": None}
            if a == "F7":
                gap = (" ", "   ")[v % 2]
                return {"text": f"{pad}{name}{gap}: {desc}", "name": name, "type": None, "desc": desc, "pre": name + gap}
            if a == "BL":
                return {"text": f"{pad}<BLANKLINE>", "name": None, "type": None, "desc": "<BLANKLINE>", "pre": None}
            if a == "F6":
                sig = ["a=1", "b", "*args"][v % 3]
                return {"text": f"{pad}{name}({sig}): {desc}", "name": name, "type": sig, "desc": desc, "pre": f"{name}({sig})"}
        raise ValueError(f"unknown line class {ln}")

    def concretise(self, lines: list, v: int, wf: bool = False) -> tuple[str, list]:
        """wf: well-formed rendering (C13): blank lines are really empty."""
        parts = [self.spell(ln, i, v) for i, ln in enumerate(lines)]
        if wf:
            for p, ln in zip(parts, lines):
                if ln["k"] == "blank":
                    p["text"] = ""
        if len(parts) == 1 and not parts[0]["text"].strip():
            parts[0]["text"] = ""          # the empty docstring
        return "\n".join(p["text"] for p in parts), parts

    # ---- classifier: line -> class, computed with the regexes / tables of the working tree -------------------------
    def classify(self, line: str) -> dict:
        if not line.strip():
            return {"k": "blank", "ind": 0, "a": "e" if line == "" else "w", "t": False}
        ind = len(line) - len(line.lstrip())
        if line.lower().lstrip(" ").startswith("```"):
            return {"k": "fence", "ind": ind, "a": "-" if ":" not in line else "colon", "t": False}
        m = self.ADMONITION.match(line)
        if m:
            typ = m.group("type")
            if typ.lower() in self.kind_of:
                return {"k": "sec", "ind": ind, "a": self.kind_of[typ.lower()], "t": m.group("title") is not None}
            return {"k": "adm", "ind": ind, "a": "-", "t": m.group("title") is not None}
        if ind == 0:
            return {"k": "text", "ind": 0, "a": "colon" if ":" in line else "plain", "t": False}
        body = line[ind:]
        if body.startswith(">>>"):
            return {"k": "prompt", "ind": ind, "a": "flags" if ":" in body else "-", "t": False}
        if body == "<BLANKLINE>":
            form = "BL"
        elif ":" not in body:
            form = "F5"
        else:
            pre = body.split(":", 1)[0]
            m2 = self.NAMED_VALUE.match(body)
            nm, ty = m2.group("name"), m2.group("type")
            if pre == "":
                form = "F4"
            elif re.fullmatch(r"\w+", pre) and nm == pre and ty is None:
                form = "F1"
            elif re.fullmatch(r"\w+ +", pre) and nm == pre.strip() and ty is None:
                form = "F7"
            elif re.fullmatch(r"\w+ \(.+\)", pre) and nm and ty and " " in pre:
                form = "F2"
            elif re.fullmatch(r"\(\S+\)", pre) and nm is None and ty:
                form = "F3"
            elif re.fullmatch(r"\w+\(\S*\)", pre) and " " not in pre:
                form = "F6"
            else:
                form = "F?"
        return {"k": "item", "ind": ind, "a": form, "t": False}

    # ---- behaviour of the real parser on one spelling (public API only) ---------------------------------------------
    def behaves_as(self, ln: dict, p: dict) -> str | None:
        """Does the PARSER treat the concrete line the way its class says?  None = yes, else what differs."""
        D = self.griffe.Docstring
        text, k = p["text"], ln["k"]

        def parse(doc, **opts):
            return D(doc).parse("google", **opts)

        if k == "blank":
            return None if not text.strip() else "not blank"
        if k in ("sec", "adm", "text"):
            secs = parse(f"S.\n\n{text}\n    x: d")
            kinds = [s.kind.value.replace(" ", "_") for s in secs]
            if k == "sec":
                ok = kinds == ["text", ln["a"]] and secs[1].title == p["title"]
            elif k == "adm":
                ok = kinds == ["text", "admonition"] and secs[1].title == (p["title"] or p["admtype"])
            else:
                ok = kinds == ["text"] and ((":" in text) == (ln["a"] == "colon"))
            return None if ok else f"parser gives {kinds} / titles {[s.title for s in secs]}"
        if k == "fence":      # opens a code block: the section header below is not interpreted
            kinds = [s.kind.value for s in parse(f"S.\n\n{text}\n\nArgs:\n    x: d")]
            return None if kinds == ["text"] else f"parser gives {kinds} below the fence"
        if k == "prompt":
            secs = parse(f"S.\n\nExamples:\n{text}", trim_doctest_flags=False)
            subs = [(a.value, b) for a, b in secs[1].value] if len(secs) == 2 and secs[1].kind.value == "examples" else None
            return None if subs == [("examples", text.strip())] else f"parser gives {subs}"
        # item forms, as the named returns reader sees them
        secs = parse(f"S.\n\nReturns:\n{text}\nend")
        if len(secs) < 2 or secs[1].kind.value != "returns" or len(secs[1].value) != 1:
            return f"parser gives {[s.kind.value for s in secs]}"
        el = secs[1].value[0]
        a = ln["a"]
        want_name = {"F1": p.get("name"), "F2": p.get("name"), "F3": "", "F4": "", "F5": "", "BL": "", "F6": p.get("name"), "F7": p.get("name")}[a]
        typed = a in ("F2", "F3", "F6")
        desc = p["desc"] if a not in ("F5", "BL") else text.strip()
        if el.name != want_name or (typed != (el.annotation is not None and p.get("type") is not None and p["type"] in str(el.annotation).replace(", ", ","))) or el.description != desc:
            return f"parser gives name={el.name!r} annotation={el.annotation!r} description={el.description!r}"
        return None

    # ---- the alphabet of DocGoogle.tla ("rich"), for the classifier test and the long sequences -------------------
    def long_alphabet(self) -> list:
        def rec(k, ind, a, t=False):
            return {"k": k, "ind": ind, "a": a, "t": t}

        out = [rec("blank", 0, "e"), rec("blank", 0, "w"), rec("text", 0, "plain"), rec("text", 0, "colon"), rec("adm", 0, "-"), rec("adm", 0, "-", True),
               rec("fence", 0, "-"), rec("fence", 4, "-"), rec("prompt", 4, "-"), rec("prompt", 4, "flags")]
        out += [rec("sec", 0, k, t) for k in sorted(self.keywords) for t in (False, True)]
        out += [rec("item", 4, f) for f in ("F1", "F2", "F3", "F4", "F5", "F6", "F7", "BL")]
        out += [rec("item", 6, "F1"), rec("item", 6, "F5"), rec("item", 8, "F1"), rec("item", 8, "F4"), rec("item", 8, "F5")]
        return out

    @staticmethod
    def can_be_first(c: dict) -> bool:
        return c["ind"] == 0 and c["k"] != "blank"

    @staticmethod
    def can_be_last(c: dict) -> bool:
        return c["k"] != "blank"

    @staticmethod
    def make_fixed_point(lines: list) -> list:
        """inspect.cleandoc leaves the text alone iff line 0 is unindented and non-blank, the last line is non-blank
        and the minimal indentation of the other non-blank lines is 0."""
        if len(lines) > 1 and not any(c["k"] != "blank" and c["ind"] == 0 for c in lines[1:]):
            lines = list(lines)
            lines[1 + (len(lines) - 1) // 2] = {"k": "text", "ind": 0, "a": "plain", "t": False}
        return lines

    @staticmethod
    def code(lines: list) -> str:
        return " ".join(f"{c['k'][0]}{c['ind']}:{c['a']}{'+t' if c['t'] else ''}" for c in lines)

    @staticmethod
    def summary_altered(lines: list, options: dict, parent: str) -> bool:
        """Documented options that alter the text on purpose (outside the plain-text clause)."""
        return bool((options.get("ignore_init_summary") and parent == "init") or (options.get("returns_type_in_property_summary") and parent in ("property", "tupleprop")))

    def check_classifier(self):
        """Every spelling of every class classifies back to the class, and the PARSER (public API) treats it as that class."""
        n = 0
        for ln in self.long_alphabet():
            for v in range(12):
                for i in (0, 3, 11):
                    p = self.spell(ln, i, v)
                    got = self.classify(p["text"])
                    n += 1
                    if got != {"k": ln["k"], "ind": ln["ind"], "a": ln["a"], "t": ln["t"]}:
                        die(f"google classifier: spelling {p['text']!r} of class {ln} classifies as {got}")
                    if i == 3 and not (ln["k"] == "item" and ln["ind"] != 4):
                        diff = self.behaves_as(ln, p)
                        if diff:
                            die(f"google classifier: the parser does not treat {p['text']!r} as class {ln}: {diff}")
        return n

    # ---- syntax predicate of the plain-text clause ---------------------------------------------------------------
    @staticmethod
    def no_syntax(lines: list) -> bool:
        return all(ln["k"] not in ("sec", "adm") for ln in lines)

    # ---- projections ------------------------------------------------------------------------------------------
    def project_real(self, sections) -> list:
        out = []
        for s in sections:
            kind = s.kind.value.replace(" ", "_")
            rec = {"kind": kind, "title": s.title}
            if kind == "text":
                rec["lines"] = norm_lines(s.value)
            elif kind == "admonition":
                rec["lines"] = norm_lines(s.value.description)
                rec["admkind"] = s.value.annotation
            elif kind == "examples":
                rec["subs"] = [(k.value, norm_lines(t)) for k, t in s.value]
            else:
                rec["items"] = [{"name": getattr(el, "name", None), "ann": el.annotation, "value": getattr(el, "value", None), "lines": norm_lines(el.description)} for el in s.value]
            out.append(rec)
        return out

    def project_spec(self, case_sections: list, parts: list, flags: dict | None = None) -> list:
        """What the spec's sections say in the same projection (texts rebuilt from the concrete lines)."""
        out = []

        def txt(idx):
            return norm_list([parts[i]["text"] for i in idx])

        for s in case_sections:
            kind = s["kind"]
            hdr = parts[s["hdr"]] if s["hdr"] >= 0 else {}
            title = {"none": None, "given": hdr.get("title"), "type": hdr.get("admtype")}[s["title"]]
            rec = {"kind": kind, "title": title}
            if kind == "text":
                rec["lines"] = txt(s["tl"])
            elif kind == "admonition":
                rec["lines"] = txt(s["tl"])
                rec["admkind"] = hdr["admtype"].lower().replace(" ", "-")
            elif kind == "examples":
                rec["subs"] = [(sub["kind"], txt(sub["tl"])) for sub in s["subs"]]
            else:
                items = []
                for el in s["items"]:
                    if el["first"] < 0:      # the synthetic returns element of returns_type_in_property_summary
                        items.append({"lines": [], "name": "e", "ann": "x", "first": None})
                        continue
                    p = parts[el["first"]]
                    line = p["text"].strip()
                    first = line.split(":", 1)[1].strip() if el["d"] == "c" and ":" in line else line
                    items.append({"lines": norm_list([first] + [parts[i]["text"] for i in el["body"]]), "name": el["name"], "ann": el["ann"], "dflt": el["dflt"], "first": p})
                rec["items"] = items
            out.append(rec)
        if flags and flags.get("propsum") and out and out[0]["kind"] == "text":
            # returns_type_in_property_summary: value.lstrip(), then the text before the first colon of the first line is cut off
            ls = [parts[i]["text"] for i in case_sections[0]["tl"]]       # the raw lines (a doctest comment contains the colon too)
            while ls and not ls[0].strip():
                ls.pop(0)
            if ls and ":" in ls[0]:
                ls[0] = ls[0].split(":", 1)[1]
            out[0]["lines"] = norm_list(ls)
        return out

    @staticmethod
    def compare(real: list, spec: list) -> tuple[str | None, str | None]:
        """(structural difference, value-category difference) between the real projection and the spec projection."""
        if [r["kind"] for r in real] != [s["kind"] for s in spec]:
            return f"section kinds {[r['kind'] for r in real]} != spec {[s['kind'] for s in spec]}", None
        soft = None
        for j, (r, s) in enumerate(zip(real, spec)):
            if r["title"] != s["title"]:
                return f"section {j} ({r['kind']}) title {r['title']!r} != spec {s['title']!r}", None
            if "lines" in s and r["lines"] != s["lines"]:
                return f"section {j} ({r['kind']}) lines {r['lines']} != spec {s['lines']}", None
            if "admkind" in s and r["admkind"] != s["admkind"]:
                return f"section {j} admonition kind {r['admkind']!r} != spec {s['admkind']!r}", None
            if "subs" in s and [(k, l) for k, l in r["subs"]] != [(k, l) for k, l in s["subs"]]:
                return f"section {j} examples {r['subs']} != spec {s['subs']}", None
            if "items" in s:
                if len(r["items"]) != len(s["items"]):
                    return f"section {j} ({r['kind']}) has {len(r['items'])} items, spec {len(s['items'])}", None
                prev_ann = None
                for m, (ri, si) in enumerate(zip(r["items"], s["items"])):
                    if si["first"] is None:
                        continue
                    if ri["lines"] != si["lines"]:
                        return f"section {j} ({r['kind']}) item {m} lines {ri['lines']} != spec {si['lines']}", None
                    p = si["first"]
                    nm, an = si["name"], si["ann"]
                    if nm == "n" and ri["name"] != p.get("name"):
                        soft = soft or f"section {j} item {m} name {ri['name']!r} != written {p.get('name')!r}"
                    if nm == "e" and ri["name"] != "":
                        soft = soft or f"section {j} item {m} name {ri['name']!r}, spec says empty"
                    if nm == "-" and ri["name"] is not None:
                        soft = soft or f"section {j} item {m} has a name, spec says none"
                    a = ri["ann"]
                    if an == "p":
                        pass      # whatever the parent's return annotation supplies (not modelled in seq mode)
                    elif an == "none" and a is not None:
                        soft = soft or f"section {j} item {m} annotation {a!r}, spec says none"
                    if an == "doc" and (a is None or not (str(a) in (p.get("type"), p.get("pre"), p.get("name")) or (p.get("type") and p["type"] in str(a)))):
                        soft = soft or f"section {j} item {m} annotation {a!r}, spec says the written one ({p.get('type')!r})"
                    if an == "prev" and (a is None or str(a) != str(prev_ann)):
                        soft = soft or f"section {j} item {m} annotation {a!r}, spec says left over from the previous item ({prev_ann!r})"
                    if an == "e" and (a is None or str(a).strip() != ""):
                        soft = soft or f"section {j} item {m} annotation {a!r}, spec says empty string"
                    prev_ann = a
        return None, soft
