"""X01 - replay of the histories of spec/ExtDispatch.tla on the real Extensions / load_extensions (runs in the worker).

The recording classes live in modules written to <root>/site (so that the "mod" specification is a real module with two
Extension subclasses).  A hook records [label, event, kw shape, dcdone]; kw shape is "std" / "extra" when the hook got
exactly the keyword arguments of the call and every value *is* the object that was passed, "wrong" otherwise.
"""
from __future__ import annotations

import importlib
import os
from pathlib import Path

from gverif.props import x01_world as W

REC_SRC = '''
from griffe import Extension
LOG = []
SENT = {}
class Boom(Exception):
    pass
def record(self, ev, kw):
    same = set(kw) == set(SENT) and all(kw[k] is SENT[k] for k in kw)
    shape = ("extra" if "x01_extra" in kw else "std") if same else "wrong"
    done = ev == "on_package_loaded" and "__init__" in kw["pkg"]["D"].members
    LOG.append({"ext": self.label, "ev": ev, "kw": shape, "dcdone": done})
class KA(Extension):
    label = "c"
    def on_node(self, *, node, agent, **kwargs):
        record(self, "on_node", dict(kwargs, node=node, agent=agent))
    def on_instance(self, *, node, obj, agent, **kwargs):
        record(self, "on_instance", dict(kwargs, node=node, obj=obj, agent=agent))
    def on_package_loaded(self, *, pkg, loader, **kwargs):
        record(self, "on_package_loaded", dict(kwargs, pkg=pkg, loader=loader))
class KB(Extension):
    label = "b"
    def on_instance(self, *, node, obj, agent, **kwargs):
        record(self, "on_instance", dict(kwargs, node=node, obj=obj, agent=agent))
    def on_package_loaded(self, *, pkg, loader, **kwargs):
        record(self, "on_package_loaded", dict(kwargs, pkg=pkg, loader=loader))
class KX(Extension):
    label = "x"
    def on_instance(self, *, node, obj, agent, **kwargs):
        record(self, "on_instance", dict(kwargs, node=node, obj=obj, agent=agent))
        raise Boom("x")
class KP(Extension):
    label = "p"
'''
MOD_SRC = '''
import griffe as _g
import x01disp as _d
class M1(_g.Extension):
    label = "m1"
    def on_instance(self, *, node, obj, agent, **kwargs):
        _d.record(self, "on_instance", dict(kwargs, node=node, obj=obj, agent=agent))
    def on_package_loaded(self, *, pkg, loader, **kwargs):
        _d.record(self, "on_package_loaded", dict(kwargs, pkg=pkg, loader=loader))
class M2(M1):
    label = "m2"
'''
KW_NAMES = {"on_node": ("node", "agent"), "on_instance": ("node", "obj", "agent"), "on_members": ("node", "obj", "agent"),
            "on_package_loaded": ("pkg", "loader")}


def ensure_world(root: str):
    site = os.path.join(root, "site")
    if not os.path.exists(os.path.join(site, "x01disp.py")):
        with open(os.path.join(site, "x01disp.py"), "w") as fh:
            fh.write(REC_SRC)
        with open(os.path.join(site, "x01disp_mod.py"), "w") as fh:
            fh.write(MOD_SRC)
        importlib.invalidate_caches()


def run_history(griffe, hist: list, root: str) -> list:
    ensure_world(root)
    d = importlib.import_module("x01disp")

    class DCSub(griffe.DataclassesExtension):
        pass

    made = {}

    def inst(label):
        if label not in made:
            made[label] = {"a": d.KA, "b": d.KB, "x": d.KX, "p": d.KP}[label]()
            made[label].label = label
        return made[label]

    def spec(s):
        if s.startswith("inst:"):
            return inst(s[5:])
        return {"cls": d.KA, "mod": "x01disp_mod", "dc": "dataclasses", "dcinst": griffe.DataclassesExtension(),
                "dcsub": DCSub(), "bad": "x01nopkg.nothing"}[s]

    exts, out = None, []
    for op in hist:
        name, args = op["op"], op["args"]
        try:
            if name == "ctor":
                exts = griffe.Extensions(*[inst(a) for a in args])
                out.append({"status": "ok"})
            elif name == "load":
                try:
                    exts = griffe.load_extensions(*[spec(s) for s in args])
                    out.append({"status": "ok"})
                except griffe.ExtensionNotLoadedError:
                    out.append({"status": "enle"})
            elif name == "add":
                exts.add(*[inst(a) for a in args])
                out.append({"status": "ok"})
            else:
                ev, kw = args
                del d.LOG[:]
                d.SENT.clear()
                pkg = griffe.visit("x01dc", filepath=Path("x01dc.py"), code=W.DATACLASS_SRC) if ev == "on_package_loaded" else None
                for k in KW_NAMES[ev]:
                    d.SENT[k] = pkg if k == "pkg" else object()
                if kw == "extra":
                    d.SENT["x01_extra"] = object()
                try:
                    exts.call(ev, **d.SENT)
                    status = "ok"
                except d.Boom:
                    status = "Boom"
                out.append({"status": status, "log": list(d.LOG), "dcran": bool(pkg is not None and "__init__" in pkg["D"].members)})
        except Exception as exc:  # noqa: BLE001
            out.append({"status": f"{type(exc).__name__}: {exc}"[:200]})
            break
    return out
