"""X04 - expression operations beyond building/rendering: iterate(flat=False), path / canonical_path / canonical_name,
is_classvar / is_tuple / is_iterator / is_generator, modernize().   Spec: spec/ExprOps.tla (INSTANCEs ExprBuild).

TLC enumerates annotations (chains of templates over the annotation grammar), computes the reference value of every
operation, explores the whole rewrite graph of the documented modernisation rules and checks termination, confluence,
idempotence, type / name preservation and rendering on the model.  This driver
  1. validates the model against CPython (exit 2 on disagreement): every source evaluates, `Den` = what
     typing.get_type_hints returns, every term of every rewrite graph evaluates to the same type, every name's
     canonical path denotes the object the name evaluates to;
  2. replays every case on the real Griffe (x04_real.observe) and judges the public observations against the
     reference values (the verdict);  3. requires TLC to exhibit the type error of the unguarded rules.
"""
from __future__ import annotations

import concurrent.futures as cf
import json
import multiprocessing as mp
import os
import time

from gverif import tlc
from gverif.common import SEED, die, ensure_repo
from gverif.harness import Run
from gverif.props import x04_terms as T
from gverif.props.x04_real import observe_job

MODULE, CFG = "ExprOps", "ExprOps_check.cfg"
BATCH = 120


def jobs_for(tier: str) -> list:
    """(name, constants, emits cases, expected violated invariant or None)"""
    def c(depths, stride=1, guarded="TRUE", rules="DE", emit="TRUE", sample_from=3):
        return {"DEPTHS": depths, "SAMPLEFROM": sample_from, "STRIDE": stride, "OFFSET": SEED % stride, "GUARDED": guarded, "RULES": rules, "EMIT": emit}

    # one JVM per job (a machine-wide limiter hands out TLC slots): depths 1 and 2 exhaustively + a sample of depth 3 in one run
    if tier == "quick":
        s3 = int(os.environ.get("VERIF_X04_STRIDE3", "32"))
        return [("main", c("1, 2, 3", s3), True, None),
                ("documented-only", c("1, 2", rules="D", emit="FALSE"), False, None),
                ("unguarded", c("1, 2", guarded="FALSE", emit="FALSE"), False, "TypePreserved")]
    s3 = int(os.environ.get("VERIF_X04_STRIDE3", "2"))
    s4 = int(os.environ.get("VERIF_X04_STRIDE4", "400"))
    return [("main", c("1, 2, 3", s3), True, None), ("d4", c("4", s4, sample_from=4), True, None),
            ("documented-only", c("1, 2, 3", 8, rules="D", emit="FALSE"), False, None),
            ("unguarded", c("1, 2", guarded="FALSE", emit="FALSE"), False, "TypePreserved")]


class Collector:
    """Compacts the CASE records of one TLC run: cases by id, rewrite graph terms by id."""

    def __init__(self):
        self.cases: dict = {}
        self.reach: dict = {}

    def __call__(self, rec):
        cid = json.dumps(rec["id"], sort_keys=True)
        cur = rec["expr"] if rec["k"] == "case" else rec["cur"]
        self.reach.setdefault(cid, {})[T.key(cur)] = {"text": T.text_of(cur), "terminal": rec["terminal"], "dnormal": rec["dnormal"]}
        if rec["k"] == "case":
            chain = rec["id"]["chain"]
            self.cases[cid] = {"cid": cid, "P0": rec["id"]["P0"], "chain": chain, "src": T.text_of(rec["tree"]), "tree": rec["tree"],
                               "expr": rec["expr"], "obs": rec["obs"], "nf": rec["nf"], "den": rec["den"], "keep": rec["keep"],
                               "value": chain[-1]["h"] in T.VALUE_LEAVES}


def run_tlc(run: Run, tier: str):
    jobs = jobs_for(tier)
    cols = {name: Collector() for name, _c, emits, _e in jobs if emits}
    results = {}

    def one(job):
        name, consts, emits, expect = job
        big = name in ("main", "d4")
        return name, tlc.run(MODULE, CFG, workers=(6 if big else 2), constants=consts, timeout=(3000 if tier == "thorough" else 600),
                             keep_cases=not emits, on_line=cols.get(name), dump_trace=bool(expect), heap="4g")

    with cf.ThreadPoolExecutor(max_workers=len(jobs)) as ex:
        for name, res in ex.map(one, jobs):
            results[name] = res
    for name, _consts, _emits, expect in jobs:
        res = results[name]
        run.add_tlc(res)
        if expect:
            if expect not in res.violated or not res.trace:
                die(f"X04: TLC did not exhibit the type error of the unguarded rules ({name}): {res.violated} {res.errors[:2]}\n{res.tail[-600:]}")
        else:
            tlc.must(res)
            if res.violated:
                die(f"X04: TLC job {name}: the model violates {res.violated}\n{res.tail[-1500:]}")
    cases, reach = {}, {}
    for col in cols.values():
        cases.update(col.cases)
        reach.update(col.reach)
    return cases, reach, results


def check_unguarded(run: Run, res, oracle: T.Oracle):
    """The counterexample of the naive rules: CPython accepts the source and rejects the rewritten text."""
    last = res.trace[-1]
    src, bad = T.text_of(last["expr"]), T.text_of(last["cur"])
    ok_src, _ = oracle.hints(src)
    ok_bad, exc = oracle.hints(bad)
    if not ok_src or ok_bad:
        die(f"X04: the model says `{src}` -> `{bad}` loses the type but CPython evaluates source={ok_src} rewritten={ok_bad}")
    run.extra["unguarded_rules_counterexample"] = {"source": src, "rewritten": bad, "cpython": f"{type(exc).__name__}: {exc}"}


def dotted(ref: dict, text: str) -> str:
    """A reference path/canonical path of the spec as the string the API must return (`text`: the rendering itself)."""
    if ref["k"] == "dotted":
        return ".".join(ref["segs"])
    if ref["k"] == "param":
        return ".".join(ref["segs"]) + "(" + ref["arg"] + ")"
    return text


def validate_model(case: dict, reach: dict, oracle: T.Oracle, stats: dict):
    """CPython vs the model (exit 2 on disagreement): nothing here looks at Griffe."""
    src = case["src"]
    if T.key(T.term_of_text(src)) != T.key(case["tree"]):
        die(f"X04: source `{src}` does not parse back to the tree of the case")
    terms = reach[case["cid"]]
    for nfk, flag in (("de", "terminal"), ("d", "dnormal")):
        ent = terms.get(T.key(case["nf"][nfk]))
        if ent is None or not ent[flag]:
            die(f"X04: normal form ({nfk}) of `{src}` is not a {flag} term of its own rewrite graph")
    if case["value"]:
        return
    if case["P0"]:
        ok, val = oracle.eval_now(src)
        if not ok:
            die(f"X04: CPython cannot evaluate the generated annotation `{src}`: {val!r}")
    want = T.den_canon(case["den"])
    for ent in terms.values():
        ok, hint = oracle.hints(ent["text"])
        stats["cpython_evaluations"] += 1
        if not ok:
            die(f"X04: the rewrite system turns `{src}` into `{ent['text']}` which CPython rejects: {hint!r}")
        got = T.canon(hint)
        if got != want:
            die(f"X04: `{ent['text']}` (from `{src}`) evaluates to {got}, the model's Den says {want}")
    for el in case["obs"]["elems"]:
        ok, val = oracle.eval_now(".".join(el["path"]))
        if not ok or val is not oracle.resolve(el["canon"]):
            die(f"X04: Scope table is wrong: `{'.'.join(el['path'])}` is not `{'.'.join(el['canon'])}` in CPython")


def origin_of(ref: dict) -> str:
    segs = ref["canon"]["segs"]
    if ref["canon"]["k"] != "dotted":
        return "none"
    return {"m": "shadow", "typing": "typing", "typing_extensions": "typing_extensions", "collections": "collections.abc"}.get(segs[0], "builtin")


CLASSIFIERS = (("is_classvar", "classvar"), ("is_tuple", "tuple"), ("is_iterator", "iterator"), ("is_generator", "generator"))


def judge_facts(ref: dict, real: dict, text, where: str, report):
    """path / canonical_path / canonical_name / classifiers of one expression against the reference."""
    if real["cls"] != ref["cls"]:
        report("layer-direct", where, f"{where} is a {real['cls']}, the direct sub-expression there is a {ref['cls']}")
        return
    for attr, key in (("path", "path"), ("canonical_path", "canon")):
        want = dotted(ref[key], text)
        if real[attr] != want:
            report(attr, where, f"{where}.{attr} = {real[attr]!r}, expected {want!r}", kind=ref[key]["k"], origin=origin_of(ref))
    if ref["cname"] and real["canonical_name"] != ref["cname"]:
        report("canonical_name", where, f"{where}.canonical_name = {real['canonical_name']!r}, expected {ref['cname']!r}", kind=ref["canon"]["k"], origin=origin_of(ref))
    for attr, key in CLASSIFIERS:
        if real[attr] is None:
            continue
        if real[attr] != ref["strict"][key]:
            agrees = "last-component" if real[attr] == ref["lax"][key] else "nothing"
            report("classifier", where, f"{where}.{attr} = {real[attr]} although the subscripted name resolves to "
                   f"{dotted(ref['canon'], text)!r}", which=attr, origin=origin_of(ref), agrees_with=agrees)


def judge(case: dict, reach: dict, o: dict, oracle: T.Oracle, stats: dict, report_case):
    """The verdict for one case: public observations `o` of the real code vs the reference values of the spec."""
    obs, src = case["obs"], case["src"]

    def report(clause, where, what, **more):
        report_case(case, dict(clause=clause, where=where.rstrip("0123456789"), **more), f"`{src}` (P0={case['P0']}): {what}")

    for what, err, _tb in o.get("errors", []):
        report("raises", "top", f"{what} raised {err}", op=what.split(".")[-1])
    expr_text = T.text_of(case["expr"])
    if o["isstr"]:
        e = case["expr"]
        want = None
        if e["t"] == "Const":
            want = repr(T.text_of(e["kids"][0])) if e["op"] == "str" else expr_text
        if o["repr"] != want:
            report("render", "top", f"stored as the string {o['repr']!r}, expected {'the expression `' + expr_text + '`' if want is None else repr(want)}")
        return
    if case["expr"]["t"] == "Const":
        report("render", "top", f"stored as an expression `{o.get('str')}`, expected a plain string")
        return
    text = o.get("str")
    if text is None:
        return
    if T.norm_dump(text) != T.norm_dump(expr_text):
        report("render", "top", f"str() = `{text}`, which is not `{expr_text}`")
    flat = o.get("flat") or []
    if any(k == "x" for k, _ in flat) or "".join(v for _, v in flat) != text:
        report("flat", "top", f"iterate(flat=True) yields {flat[:12]} for `{text}`")
    for p in o.get("layer_problems") or []:
        report("layer-text", "top", p)
    kids = o.get("kids") or []
    if [k["cls"] for k in kids] != [k["cls"] for k in obs["kids"]]:
        report("layer-direct", "top", f"iterate(flat=False) yields the expressions {[k['cls'] for k in kids]}, the direct sub-expressions are {[k['cls'] for k in obs['kids']]}")
    else:
        for j, (rk, ok_) in enumerate(zip(obs["kids"], kids)):
            judge_facts(rk, ok_, ok_["str"], f"kid{j}", report)
    judge_facts(obs["top"], o["top"], text, "top", report)
    want_elems = [[e["name"], ".".join(e["path"]), ".".join(e["canon"])] for e in obs["elems"]]
    if o.get("elems") is not None and o["elems"] != want_elems:
        report("names", "top", f"name elements {o['elems']}, expected {want_elems}")
    if not case["value"]:
        strict_cv = obs["top"]["strict"]["classvar"]
        want_labels = ["class-attribute"] if strict_cv else ["instance-attribute"]
        if o.get("labels") != want_labels and o["top"]["is_classvar"] == strict_cv:
            report("classvar-label", "top", f"class-level `a: {src}` gets labels {o.get('labels')}, expected {want_labels}")
        judge_sites(case, o, text, want_elems, strict_cv, report)
    judge_modernize(case, reach, o, oracle, stats, report, text)


def judge_sites(case, o, text, want_elems, strict_cv, report):
    """The same annotation in a class body, on a parameter and as a return annotation: same text, same resolution
    (the scope is searched outwards); `ClassVar[X]` resolved to typing's leaves `X` on the class attribute."""
    for site, so in (o.get("sites") or {}).items():
        if so is None:
            continue
        if site == "class" and strict_cv and o["top"]["is_classvar"]:
            want = T.text_of(case["expr"]["kids"][1])
            got = so["repr"] if so["isstr"] else so["str"]
            if T.norm_dump(got) != T.norm_dump(want):
                report("classvar-label", site, f"class-level `a: {case['src']}` keeps the annotation `{got}`, expected `{want}`")
            continue
        if site == "class" and o["top"]["is_classvar"]:
            continue                                          # the classifier deviation itself is reported by the classifier clause
        if so["isstr"]:
            report("site", site, f"stored as the string {so['repr']!r} at the {site} site, as the expression `{text}` at module level")
            continue
        if so["str"] != text:
            report("site", site, f"`{so['str']}` at the {site} site, `{text}` at module level")
        want_cp = dotted(case["obs"]["top"]["canon"], text)
        if so["canonical_path"] is not None and so["canonical_path"] != want_cp:
            report("canonical_path", site, f"{site} annotation: canonical_path = {so['canonical_path']!r}, expected {want_cp!r}", kind=case["obs"]["top"]["canon"]["k"], origin=origin_of(case["obs"]["top"]))
        if so["elems"] is not None and so["elems"] != want_elems:
            report("names", site, f"{site} annotation: name elements {so['elems']}, expected {want_elems}")


def keep_of(elems: list) -> list:
    """Canonical paths of the name elements that no rule rewrites (the typing aliases and their builtin targets left out)."""
    maximal = [(p, c) for i, (_n, p, c) in enumerate(elems) if not (i + 1 < len(elems) and elems[i + 1][1].startswith(p + "."))]
    out = []
    for _path, canon in maximal:       # a dotted chain a.b.c yields a, a.b, a.b.c: only the last one stands for the object
        segs = canon.split(".")
        alias = segs[1] if len(segs) == 2 and segs[0] in ("typing", "typing_extensions") else ""
        if alias in ("Optional", "Union", "List", "Dict", "Set", "Tuple", "FrozenSet", "Type"):
            continue
        if len(segs) == 1 and segs[0] in ("list", "dict", "set", "tuple", "frozenset", "type"):
            continue
        out.append(canon)
    return out


def judge_modernize(case, reach, o, oracle, stats, report, text):
    mo = o.get("mod")
    if mo is None:
        return
    src, terms = case["src"], reach[case["cid"]]
    mtext = mo.get("str")
    if not mo.get("isexpr") or mtext is None:
        report("modernize-result", "top", "modernize() did not return an expression")
        return
    if mo.get("receiver_after") != text:
        report("modernize-pure", "top", f"the receiver changed from `{text}` to `{mo.get('receiver_after')}`")
    mterm = T.term_of_text(mtext)
    if mterm is None:
        report("modernize-parse", "top", f"modernize() renders `{mtext}`, which CPython does not parse")
        return
    changed = T.key(mterm) != T.key(case["expr"])
    stats["modernize_changed"] += int(changed)
    stats["modernize_calls"] += 1
    ent = terms.get(T.key(mterm))
    if ent is None:
        report("modernize-reach", "top", f"modernize() = `{mtext}`: not obtainable from `{text}` by the documented rewrites "
               f"(complete result: `{T.text_of(case['nf']['d'])}`)")
    else:
        stats["modernize_outcomes"].append((case["cid"], ent["dnormal"], changed, mtext))
    if mo.get("str2") is not None and T.norm_dump(mo["str2"]) != T.norm_dump(mtext):
        report("modernize-idempotent", "top", f"modernize() twice = `{mo['str2']}`, once = `{mtext}`")
    for p in mo.get("layer_problems") or []:
        report("layer-text", "modernized", p)
    if mo.get("elems") is not None and o.get("elems") is not None:
        before, after = keep_of(o["elems"]), keep_of(mo["elems"])
        if before != after:
            report("modernize-names", "top", f"names kept by modernize(): {after}, before: {before}")
    if not case["value"]:
        ok, hint = oracle.hints(mtext)
        stats["cpython_evaluations"] += 1
        if not ok:
            report("modernize-type", "top", f"modernize() = `{mtext}`: CPython cannot evaluate it ({type(hint).__name__}: {hint})", outcome="error")
        elif T.canon(hint) != T.den_canon(case["den"]):
            report("modernize-type", "top", f"modernize() = `{mtext}` evaluates to {hint!r}, the annotation `{src}` to another type", outcome="other-type")


def shape_sig(case: dict) -> dict:
    top, leaf = case["chain"][0], case["chain"][-1]
    return {"form": top["f"], "head": top["h"], "sp": top["sp"], "leaf": leaf["h"], "depth": len(case["chain"]), "P0": case["P0"]}


def replay(run: Run, cases: dict, reach: dict, oracle: T.Oracle, pool, stats: dict):
    order = sorted(cases)
    batches = []
    for p0 in (True, False):
        ids = [c for c in order if cases[c]["P0"] == p0]
        for k in range(0, len(ids), BATCH):
            chunk = ids[k:k + BATCH]
            batches.append((chunk, [{"i": n, "src": cases[c]["src"], "value": cases[c]["value"]} for n, c in enumerate(chunk)], p0))
    futures = [pool.submit(observe_job, (b, p0)) for _ids, b, p0 in batches] if pool else None

    def report_case(case, sig, what):
        full = dict(sig, **shape_sig(case))
        run.violation(full, what, {"case": case, "reach": reach[case["cid"]]})

    for n, (ids, batch, p0) in enumerate(batches):
        for cid in ids:                                   # CPython vs the model first: a wrong reference never judges
            validate_model(cases[cid], reach, oracle, stats)
        result = futures[n].result() if futures else observe_job((batch, p0))
        if isinstance(result, dict):
            # the visitor itself failed on the batch: find the case(s) one by one
            for cid, item in zip(ids, batch):
                single = observe_job(([item], p0))
                if isinstance(single, dict):
                    report_case(cases[cid], {"clause": "raises", "where": "visit", "op": "visit"}, f"`{cases[cid]['src']}`: visiting the module raised\n{single['crash'][-600:]}")
                else:
                    judge(cases[cid], reach, single[0], oracle, stats, report_case)
                run.replayed()
            continue
        for cid, o in zip(ids, result):
            case = cases[cid]
            judge(case, reach, o, oracle, stats, report_case)
            run.replayed()
            run.evaluated(1 + len(reach[cid]))
            ob = case["obs"]["top"]
            if len(reach[cid]) > 1 or any(ob["strict"].values()) or any(ob["lax"].values()) or "Str" in case["chain"][-1]["h"]:
                run.nontrivial_case(cid)
            if len(reach[cid]) > 2 and not case["P0"]:
                run.sample({"annotation": case["src"], "modernized": T.text_of(case["nf"]["d"]), "canonical_path": dotted(ob["canon"], "<text>"),
                            "rewrite_graph_terms": len(reach[cid])})


def modernize_progress(run: Run, cases: dict, stats: dict):
    """`modernize()` may be absent (the identity everywhere: the documented rewrites are a feature of another edition);
    when it does rewrite anything it has to finish the documented rewrites everywhere."""
    outcomes = stats.pop("modernize_outcomes")
    present = stats["modernize_changed"] > 0
    run.extra["modernize_feature_present"] = present
    if not present:
        run.note(f"modernize() returned the receiver's own text on all {stats['modernize_calls']} cases: the documented rewrites are not implemented in this "
                 "tree (community edition stub `return self`); soundness clauses hold trivially, completeness is not applicable")
        return
    for cid, dnormal, _changed, mtext in outcomes:
        if not dnormal:
            case = cases[cid]
            run.violation(dict(clause="modernize-incomplete", where="top", **shape_sig(case)),
                          f"`{case['src']}`: modernize() = `{mtext}` leaves a documented rewrite undone (complete: `{T.text_of(case['nf']['d'])}`)",
                          {"case": case})


def main(tier: str, replay_file: str | None):
    run = Run("X04", tier)
    run.rule = ("distinct (chain, P0) cases whose rewrite graph has at least one step, whose top expression is classified by an "
                "is_* property (strictly or by its last component), or that contain a string annotation")
    ensure_repo()
    stats = {"cpython_evaluations": 0, "modernize_changed": 0, "modernize_calls": 0, "modernize_outcomes": []}
    t0 = time.time()
    if replay_file:
        with open(replay_file) as fh:
            stored = json.load(fh)
        case = stored["case"]["case"]
        reach = {case["cid"]: stored["case"].get("reach") or {}}
        res = tlc.must(tlc.run(MODULE, CFG, constants=dict(jobs_for("quick")[1][1], DEPTHS="1"), keep_cases=True))   # counters only
        run.add_tlc(res)
        oracle = T.Oracle()
        if reach[case["cid"]]:
            validate_model(case, reach, oracle, stats)
        else:
            reach[case["cid"]] = {T.key(case["expr"]): {"text": T.text_of(case["expr"]), "terminal": False, "dnormal": False}}
        replay(run, {case["cid"]: case}, reach, oracle, None, stats)
        modernize_progress(run, {case["cid"]: case}, stats)
        run.finish()
    nproc = 8 if tier == "thorough" else 6
    pool = cf.ProcessPoolExecutor(max_workers=nproc, mp_context=mp.get_context("spawn"))       # before the big parent exists
    try:
        cases, reach, results = run_tlc(run, tier)
        t1 = time.time()
        oracle = T.Oracle()
        check_unguarded(run, results["unguarded"], oracle)
        if not cases or set(cases) - set(reach):
            die("X04: TLC emitted no cases")
        depths = {}
        for c in cases.values():
            depths[len(c["chain"])] = depths.get(len(c["chain"]), 0) + 1
        if depths.get(1, 0) < 16 or depths.get(2, 0) < 800:
            die(f"X04: unexpected case counts per depth {depths} (vacuity)")
        replay(run, cases, reach, oracle, pool, stats)
        modernize_progress(run, cases, stats)
    finally:
        pool.shutdown(wait=False, cancel_futures=True)
    run.exhaustive = False
    run.extra.update({"cases_per_depth": depths, "rewrite_graph_terms": sum(len(v) for v in reach.values()),
                      "cases_with_rewrites": sum(1 for v in reach.values() if len(v) > 1), "cpython_evaluations": stats["cpython_evaluations"],
                      "modernize_calls": stats["modernize_calls"], "modernize_changed": stats["modernize_changed"],
                      "tlc_wall_s": round(t1 - t0, 1), "replay_wall_s": round(time.time() - t1, 1)})
    run.finish()
