"""C01 helper: run one abstract program of spec/Visitor.tla on the real Griffe and compare.

`replay_case(case, variant, mode)` runs inside worker processes (fork) and returns plain data:
  {"violations": [(sig, what)], "drift": [str], "machinery": str | None, "nontrivial": bool, "summary": {...}}

Three comparisons (BUILDER_GUIDE, "Binding"):
  real Griffe vs spec reference (case["ref"], ["rimps"], ["rexps"])  -> the property on the code (violations)
  real Griffe vs spec Impl (case["impl"], ["events"], ...)           -> conformance of the model (drift)
  CPython (compile, ast, symtable) vs the reference / the renderer    -> validity of the oracle (machinery)
plus the text-level clauses the model cannot state (line spans, docstrings, source slices), evaluated on
the same cases.
"""
from __future__ import annotations

import ast
import inspect
import os
import symtable
from pathlib import Path

from gverif.props.c01_render import PRELUDE_NAMES, expected_doc, render

DECO_U = {"async", "property", "cached", "staticmethod", "classmethod", "abstractmethod", "writable", "deletable", "dataclass"}
NO_ALL = ["<no __all__>"]

_griffe = None


def griffe():
    global _griffe
    if _griffe is None:
        from gverif.common import ensure_repo

        _griffe = ensure_repo()
    return _griffe


def make_recorder():
    g = griffe()

    class Recorder(g.Extension):
        """Passive: records every on_instance / on_members / on_alias call, in call order."""

        def __init__(self):
            super().__init__()
            self.ev = []

        def on_instance(self, *, node, obj, agent, **kwargs):  # noqa: ARG002
            self.ev.append(("inst", obj, node, obj.parent))

        def on_members(self, *, node, obj, agent, **kwargs):  # noqa: ARG002
            self.ev.append(("members", obj, node, obj.parent))

        def on_alias(self, *, node, alias, agent, **kwargs):  # noqa: ARG002
            self.ev.append(("alias", alias, node, alias.parent))

    return Recorder()


# ---------------------------------------------------------------------------------------------------
# the event protocol, evaluated on a recorded trace (used for generated programs and for the corpus)
def check_protocol(events: list, module) -> list:
    """Returns [(clause, cause, text)].  events: [(ev, obj, node, parent)] restricted to one module."""
    bad = []
    announced: dict[int, int] = {}
    closed: dict[int, int] = {}
    kids_last: dict[int, int] = {}
    objs: dict[int, object] = {}
    for q, (ev, obj, _node, parent) in enumerate(events):
        objs[id(obj)] = obj
        if ev in ("inst", "alias"):
            if id(obj) in announced:
                bad.append(("events-once", "-", f"{_desc(obj)} announced twice (events {announced[id(obj)]} and {q})"))
            announced[id(obj)] = q
            if parent is not None and obj is not module:
                objs[id(parent)] = parent
                if id(parent) not in announced:
                    bad.append(("events-parent-first", "-", f"{_desc(obj)} announced before its parent {_desc(parent)}"))
                kids_last[id(parent)] = q
                if id(parent) in closed:
                    cause = "member-of-function" if _kind(parent) == "function" else "-"
                    bad.append(("events-members-last", cause, f"{_desc(obj)} announced after on_members of its parent {_desc(parent)}"))
        else:
            if id(obj) in closed:
                bad.append(("events-members-last", "-", f"on_members fired twice for {_desc(obj)}"))
            closed[id(obj)] = q
    # every object that received members (or is a module / class) gets exactly one members-complete event
    for pid in set(kids_last) | {i for i, o in objs.items() if i in announced and _kind(o) in ("module", "class")}:
        if pid not in closed:
            o = objs[pid]
            cause = "member-of-function" if _kind(o) == "function" else "-"
            bad.append(("events-members-last", cause, f"{_desc(o)} has members but never got on_members"))
    # every object hanging in the final tree was announced exactly once
    seen = set()

    def walk(o):
        for m in list(o.members.values()):
            if id(m) in seen:
                continue
            seen.add(id(m))
            if id(m) not in announced:
                bad.append(("events-once", "-", f"{_desc(m)} is in the tree but was never announced"))
            if not m.is_alias:
                for extra in [*((m.overloads or []) if _kind(m) == "function" else []), getattr(m, "setter", None), getattr(m, "deleter", None)]:
                    if extra is not None and id(extra) not in announced:
                        bad.append(("events-once", "-", f"{_desc(extra)} (overload/accessor of {_desc(m)}) was never announced"))
                walk(m)

    if id(module) not in announced:
        bad.append(("events-once", "-", "the module itself was never announced"))
    walk(module)
    return bad


def _kind(o) -> str:
    try:
        return "alias" if o.is_alias else o.kind.value
    except Exception:  # noqa: BLE001
        return "?"


def _desc(o) -> str:
    try:
        return f"{_kind(o)} {o.path}"
    except Exception:  # noqa: BLE001
        return f"{_kind(o)} {getattr(o, 'name', '?')}"


# ---------------------------------------------------------------------------------------------------
def _parse_indented(text: str):
    if text[:1] in (" ", "\t"):
        return ast.parse("if 1:\n" + text).body[0].body
    return ast.parse(text).body


def _dump(node, *, drop_decorators: bool = False, clean_docs: bool = False) -> str:
    """Structure of a statement (no positions); clean_docs: string constants compared after inspect.cleandoc,
    because obj.source is dedented text."""

    def fmt(n, top):
        if isinstance(n, ast.AST):
            return type(n).__name__ + "(" + ",".join(f"{name}={fmt(val, False)}" for name, val in ast.iter_fields(n) if not (top and drop_decorators and name == "decorator_list")) + ")"
        if isinstance(n, list):
            return "[" + ",".join(fmt(x, False) for x in n) + "]"
        if clean_docs and isinstance(n, str):
            return repr(inspect.cleandoc(n))
        return repr(n)

    return fmt(node, True)


def _load(src: str, mode: str, rec):
    """Run the real Griffe.  Returns (module object, lines of the module file)."""
    g = griffe()
    exts = g.load_extensions(rec) if False else g.Extensions(rec)
    if mode == "visit":
        lc = g.LinesCollection()
        fp = Path("m.py")
        lc[fp] = src.splitlines()
        return g.visit("m", filepath=fp, code=src, extensions=exts, lines_collection=lc)
    from gverif.common import scratch

    with scratch("c01-") as d:
        os.makedirs(os.path.join(d, "pk"))
        with open(os.path.join(d, "pk", "__init__.py"), "w") as fh:
            fh.write(src if mode == "loadinit" else '"""Package."""\n')      # loadinit: the program is the package's __init__.py
        if mode != "loadinit":
            with open(os.path.join(d, "pk", "m.py"), "w") as fh:
                fh.write(src)
        pkg = g.load("pk", search_paths=[d], allow_inspection=False, extensions=exts)
        mod = pkg if mode == "loadinit" else pkg.members["m"]
        _ = mod.lines  # read while the files exist (they are stored in the lines collection anyway)
        return mod


def visit_only(prog: list, variant: int, mode: str) -> None:
    """Visit a program without judging it (re-creates the process history of a stored case)."""
    try:
        _load(render(prog, variant, mode).source, mode, make_recorder())
    except Exception:  # noqa: BLE001, S110
        pass


def replay_case(case: dict, variant: int, mode: str) -> dict:
    out = {"violations": [], "drift": [], "machinery": None, "nontrivial": False, "summary": None}
    prog = case["prog"]
    hz = set(case["hz"])
    r = render(prog, variant, mode)
    src = r.source
    info = r.info
    ident = {"prog": prog, "variant": variant, "mode": mode}

    def viol(clause, cause, what, **extra):
        sig = {"part": "visitor", "clause": clause, "cause": cause, **extra}
        out["violations"].append((sig, f"{what}\n--- source ({mode}, spelling {variant}) ---\n{src}"))

    # ---- CPython: the rendered text is a valid module, and says what the renderer thinks it says -------
    try:
        tree = ast.parse(src)
        compile(src, "<c01>", "exec", dont_inherit=True)
    except SyntaxError as exc:
        out["machinery"] = f"renderer produced invalid Python ({exc}) for {prog}\n{src}"
        return out
    node_at = {}
    for node in ast.walk(tree):
        if isinstance(node, (ast.FunctionDef, ast.AsyncFunctionDef, ast.ClassDef, ast.Assign, ast.AnnAssign, ast.AugAssign, ast.Import, ast.ImportFrom)):
            node_at[node.lineno] = node
    for i, inf in info.items():
        if inf["k"] in ("def", "init", "class", "assign", "import", "all"):
            node = node_at.get(inf["defline"])
            if node is None:
                out["machinery"] = f"renderer table: no statement node at line {inf['defline']} for abstract line {i}\n{src}"
                return out
            first = min([d.lineno for d in getattr(node, "decorator_list", [])] + [node.lineno])
            if first != inf["first"] or node.end_lineno != inf["last"]:
                out["machinery"] = f"renderer table disagrees with CPython's ast on abstract line {i}: ({inf['first']},{inf['last']}) vs ({first},{node.end_lineno})\n{src}"
                return out
            inf["node"] = node
            if inf["k"] in ("def", "init", "class"):
                want = ast.get_docstring(node, clean=True)
                have = expected_doc(inf["doc"][0]) if inf["doc"] else None
                if want != have:
                    out["machinery"] = f"renderer docstring table disagrees with ast.get_docstring on abstract line {i}: {have!r} vs {want!r}"
                    return out
    linemap = {}
    for i, inf in info.items():
        if inf["k"] in ("def", "init", "class", "assign", "import", "all"):
            for ln in range(inf["first"], inf["hdr_end"] + 1):
                linemap[ln] = i
    ref = {(m["s"], m["n"]): m for m in case["ref"]}
    # symtable: the names CPython's compiler considers bound in the module / class blocks are the reference's
    if case["wf"]:
        msg = _symtable_check(src, info, ref, prog, set(case.get("submods") or ()))
        if msg:
            out["machinery"] = msg + "\n" + src
            return out

    # ---- the real visitor ----------------------------------------------------------------------------------
    rec = make_recorder()
    try:
        mod = _load(src, mode, rec)
    except Exception as exc:  # noqa: BLE001
        viol("total", "none", f"static loading raised {type(exc).__name__}: {exc}", exc=type(exc).__name__)
        if case["outcome"] == "ok":
            out["drift"].append(f"model says the visit completes, real code raised {type(exc).__name__}")
        return out
    if case["outcome"] != "ok":
        out["drift"].append(f"model predicts {case['outcome']}, the real visitor completed: {prog}")
        return out
    out["nontrivial"] = sum(1 for l in prog if l[0] in ("def", "init", "class", "assign", "import", "all")) >= 2 or any(l[0] in ("if", "try", "with") for l in prog)

    # ---- projection of the real tree onto the spec's vocabulary ----------------------------------------------
    real = {}
    objs = {}

    def walk(o, s):
        for name, m in o.members.items():
            if m.is_alias:
                ln = m.alias_lineno
                if s == 0 and name in PRELUDE_NAMES and r.prelude_span[0] <= (ln or 0) <= r.prelude_span[1]:
                    continue
                rec_ = {"s": s, "n": name, "l": linemap.get(ln, -1), "k": "alias", "rt": bool(m.runtime), "lab": [], "p": m.target_path.split("."), "ov": []}
            else:
                rec_ = {"s": s, "n": name, "l": linemap.get(m.lineno, -1), "k": m.kind.value, "rt": bool(m.runtime), "lab": sorted(m.labels), "p": [],
                        "ov": [linemap.get(o2.lineno, -1) for o2 in ((m.overloads or []) if m.kind.value == "function" else [])]}
            real[(s, name)] = rec_
            objs[(s, name)] = m
            if not m.is_alias and rec_["l"] > 0 and m.kind.value in ("class", "function"):
                walk(m, rec_["l"])

    walk(mod, 0)

    def exp_path(m):
        return _path_of(info[m["l"]], m["n"]) if m["k"] == "alias" else []

    if case["wf"]:
        core_real = {(m["s"], m["n"], m["l"], m["k"], tuple(m["p"])) for m in real.values()}
        core_ref = {(m["s"], m["n"], m["l"], m["k"], tuple(exp_path(m))) for m in ref.values()}
        if core_real != core_ref:
            extra, missing = core_real - core_ref, core_ref - core_real
            local = not missing and all(_under_init(e[0], info, prog) for e in extra)
            cause = "init-local" if local and "init-local" in hz else "none"
            viol("members", cause, f"members differ from the reference: extra {sorted(extra)} missing {sorted(missing)}  [(scope line, name, line, kind, target)]")
        for key, rm in ref.items():
            m = real.get(key)
            if m is None or m["l"] != rm["l"]:
                continue
            if m["rt"] != rm["rt"]:
                viol("runtime", "none", f"{key[1]!r} (abstract line {m['l']}, source line {info[m['l']]['defline']}) has runtime={m['rt']}, lexically type-guarded={not rm['rt']}", direction="unguarded" if m["rt"] else "overguarded")
            dl = sorted(set(m["lab"]) & DECO_U)
            if dl != sorted(rm["dl"]):
                cause = "label-inherit" if "label-inherit" in hz and set(dl) >= set(rm["dl"]) and m["k"] == "attribute" else "none"
                viol("labels", cause, f"{key[1]!r} (abstract line {m['l']}) carries labels {dl}, its own definition gives {sorted(rm['dl'])}")
        # imports map, exports
        rimps = set()
        for (s, name), m in [((0, None), None)] + [(k, v) for k, v in real.items() if v["k"] in ("class", "function") and v["l"] > 0]:
            o = mod if m is None else objs[(s, name)]
            sc = 0 if m is None else m["l"]
            for nm, path in o.imports.items():
                if sc == 0 and nm in PRELUDE_NAMES:
                    continue
                rimps.add((sc, nm, tuple(path.split("."))))
        want_imps = set()
        for im in case["rimps"]:
            want_imps.add((im["s"], im["n"], tuple(_path_of(info[im["l"]], im["n"]))))
        if rimps != want_imps:
            extra = rimps - want_imps
            cause = "init-local" if "init-local" in hz and not (want_imps - rimps) and all(_under_init(e[0], info, prog) or info.get(e[0], {}).get("k") == "init" for e in extra) else "none"
            viol("imports", cause, f"imports map differs: extra {sorted(extra)} missing {sorted(want_imps - rimps)}")
        rex = NO_ALL if mod.exports is None else [e if isinstance(e, str) else getattr(e, "name", str(e)) for e in mod.exports]
        if rex != case["rexps"]:
            viol("exports", "none", f"exports {rex} differ from the reference {case['rexps']}")
        elif rex != case["iexps"]:
            out["drift"].append(f"exports: model Impl {case['iexps']} real {rex}")

    # ---- events ---------------------------------------------------------------------------------------------
    evs = [e for e in rec.ev if _module_of(e[1]) is mod or e[1] is mod]
    for clause, cause, text in check_protocol(evs, mod):
        if cause == "member-of-function" and "init-local" not in hz:
            cause = "none"
        viol(clause, "init-local" if cause == "member-of-function" else ("none" if cause == "-" else cause), text)
    abstract_events = []
    for ev, obj, node, _parent in evs:
        if obj is mod:
            abstract_events.append({"e": ev, "l": 0, "n": "-"})
        else:
            ln = getattr(node, "lineno", None)
            if ev == "alias" and obj.name in PRELUDE_NAMES and r.prelude_span[0] <= (ln or 0) <= r.prelude_span[1]:
                continue
            abstract_events.append({"e": ev, "l": linemap.get(ln, -1), "n": obj.name})
    if abstract_events != [{"e": e["e"], "l": e["l"], "n": e["n"]} for e in case["events"]]:
        out["drift"].append(f"event trace differs from the model: real {_short(abstract_events)} model {_short(case['events'])} for {prog}")

    # ---- conformance of the transcription (drift) --------------------------------------------------------------
    impl = {(m["s"], m["n"]): m for m in case["impl"]}
    for key in set(impl) | set(real):
        a, b = impl.get(key), real.get(key)
        if a is None or b is None:
            out["drift"].append(f"member {key}: model {a} real {b}")
            continue
        pa = exp_path(a) if a["l"] in info and a["k"] == "alias" else a["p"]
        if (a["l"], a["k"], a["rt"], sorted(a["lab"]), list(pa), list(a["ov"])) != (b["l"], b["k"], b["rt"], b["lab"], b["p"], b["ov"]):
            out["drift"].append(f"member {key}: model {a} real {b}")

    # ---- text-level clauses (harness-evaluated on the same case) -------------------------------------------------
    lines = src.splitlines()
    for key, m in real.items():
        if m["l"] <= 0 or (case["wf"] and (key not in ref or ref[key]["l"] != m["l"])):
            continue
        inf = info[m["l"]]
        o = objs[key]
        sigx = {"kind": m["k"]}
        if m["k"] == "alias":
            if (o.alias_lineno, o.alias_endlineno) != (inf["first"], inf["last"]):
                viol("span", "none", f"alias {key[1]!r}: reported lines {o.alias_lineno}-{o.alias_endlineno}, import statement spans {inf['first']}-{inf['last']}", **sigx)
            continue
        starts = {inf["first"]} if not ("property" in m["lab"] and inf["k"] == "def") else {inf["first"], inf["defline"]}
        if o.lineno not in starts or o.endlineno != inf["last"]:
            viol("span", "none", f"{m['k']} {key[1]!r}: reported lines {o.lineno}-{o.endlineno}, the statement spans {inf['first']}-{inf['last']}", **sigx)
        else:
            # slicing the source by the reported span returns that very definition
            for label, text in (("lines", "\n".join(lines[o.lineno - 1 : o.endlineno])), ("source", o.source)):
                try:
                    got = _parse_indented(text) if label == "lines" else ast.parse(text).body
                    cd = label == "source"
                    same = len(got) == 1 and _dump(got[0], drop_decorators=True, clean_docs=cd) == _dump(inf["node"], drop_decorators=True, clean_docs=cd)
                    full = len(got) == 1 and _dump(got[0], clean_docs=cd) == _dump(inf["node"], clean_docs=cd)
                except SyntaxError:
                    same = full = False
                if not same or (o.lineno == inf["first"] and not full):
                    viol("slice", "none", f"{m['k']} {key[1]!r}: obj.{label} for lines {o.lineno}-{o.endlineno} does not re-parse to the definition at line {inf['defline']}:\n{text}", via=label, **sigx)
        # docstrings
        if inf["k"] in ("def", "init", "class"):
            _check_doc(viol, o, inf["doc"], f"{m['k']} {key[1]!r}", lines, sigx)
        elif inf["k"] in ("assign", "all") and case["wf"] and key in ref:
            want, why = _attr_doc(ref[key]["chain"], info, key[1])
            got = o.docstring.value if o.docstring else None
            if got != (expected_doc(want[0]) if want else None):
                cause = _doc_cause(got, ref[key]["chain"], info, prog, m["l"], key[1])
                viol("attr-docstring", cause, f"attribute {key[1]!r} (abstract line {m['l']}): docstring {got!r}, the source gives {expected_doc(want[0]) if want else None!r} ({why})")
            elif want and inf["doc"] and want is inf["doc"]:
                _check_doc(viol, o, inf["doc"], f"attribute {key[1]!r}", lines, sigx)
    _check_doc(viol, mod, r.module_doc, "module", lines, {"kind": "module"})
    out["summary"] = {"prog": prog, "mode": mode, "variant": variant, "members": sorted(f"{k[0]}:{k[1]}:{v['k']}" for k, v in real.items())}
    return out


def _path_of(inf, name):
    """Target path the renderer wrote for `name` in an import statement (per name for `import a, b`)."""
    return (inf.get("paths") or {}).get(name) or inf["path"]


def _short(evs):
    return [f"{e['e']}:{e['l']}:{e['n']}" for e in evs]


def _module_of(o):
    """The module an object or alias hangs from (parent chain only: Alias.module would resolve the target)."""
    n = 0
    while o is not None and n < 50:
        if not o.is_alias and o.kind.value == "module":
            return o
        o, n = o.parent, n + 1
    return None


def _check_doc(viol, o, doc, what, lines, sigx):
    got = o.docstring
    if doc is None:
        if got is not None:
            viol("docstring", "none", f"{what}: docstring {got.value!r} but the source has none", **sigx)
        return
    raw, lo, hi = doc
    if got is None:
        viol("docstring", "none", f"{what}: no docstring, the source has {expected_doc(raw)!r} at lines {lo}-{hi}", **sigx)
        return
    if got.value != expected_doc(raw):
        viol("docstring", "none", f"{what}: docstring text {got.value!r} != {expected_doc(raw)!r}", **sigx)
    if (got.lineno, got.endlineno) != (lo, hi):
        viol("docstring-span", "none", f"{what}: docstring lines {got.lineno}-{got.endlineno}, written at {lo}-{hi}", **sigx)
    else:
        try:
            val = ast.literal_eval("\n".join(lines[got.lineno - 1 : got.endlineno]).strip())
        except Exception:  # noqa: BLE001
            val = None
        if val != raw:
            viol("docstring-span", "none", f"{what}: source lines {got.lineno}-{got.endlineno} are not the docstring literal", **sigx)


def _attr_doc(chain, info, name):
    """Docstring the source gives the surviving attribute: its own, else the one of the attribute(s) of the
    same name it re-assigns (Griffe forwards previous docstrings 'instead of erasing them')."""
    cur, cur_attr, why = None, False, "no docstring written"
    for c in chain:
        inf = info[c]
        if inf["k"] in ("assign", "all"):
            if inf["doc"]:
                cur, why = inf["doc"], f"written after line {c}"
            elif cur_attr and cur:
                why = why + ", forwarded"
            else:
                cur, why = None, "no docstring written"
            cur_attr = True
        elif inf["k"] == "def" and inf["x"] in ("property", "cached_property", "propabstract"):
            cur, cur_attr, why = inf["doc"], True, f"docstring of the property at line {c}"
        else:
            cur, cur_attr, why = None, False, "no docstring written"
    return cur, why


def _doc_cause(got, chain, info, prog, line, name):
    if got is None:
        return "none"
    if got.startswith("Stray text"):
        return "docstring-across-else"
    # which written docstring is it?
    src = [i for i, inf in info.items() if inf["doc"] and expected_doc(inf["doc"][0]) == got]
    if not src:
        return "none"
    i = src[0]
    if prog[line - 1][1] == "multi" and prog[line - 1][2] != name:
        return "multi-target-leak"      # second target of  a = b = ...: it takes what was forwarded to the first target
    if i in chain and info[i]["k"] in ("def", "init", "class"):
        return "forwarded-from-non-attribute"
    if i not in chain and any(prog[c - 1][1] == "multi" for c in chain):
        return "multi-target-leak"      # leaked into this name by an earlier  a = b = ...  (possibly forwarded since)
    return "none"


def _anc(i, prog):
    out, d = [], prog[i - 1][3]
    for j in range(i - 1, 0, -1):
        if prog[j - 1][3] < d:
            out.append(j)
            d = prog[j - 1][3]
    return out


def _under_init(s, info, prog):
    """Is scope id `s` (an abstract line) an __init__ function or something nested in one?"""
    if s <= 0 or s not in info:
        return False
    return info[s]["k"] == "init" or any(prog[a - 1][0] == "init" for a in _anc(s, prog))


def _symtable_check(src, info, ref, prog, submods=frozenset()):
    try:
        top = symtable.symtable(src, "<c01>", "exec")
    except SyntaxError as exc:
        return f"symtable rejects the rendered module: {exc}"
    alphabet = {"f", "g", "h", "__init__", "__all__"}
    by_scope = {0: top}

    def walk(tab, depth=0):
        for ch in tab.get_children():
            if ch.get_type() == "class":
                for i, inf in info.items():
                    if inf["k"] == "class" and inf["first"] <= ch.get_lineno() <= inf["hdr_end"]:
                        by_scope[i] = ch
            walk(ch, depth + 1)

    walk(top)
    scopes = {0} | {m["l"] for m in ref.values() if m["k"] == "class"}
    for s in scopes:
        tab = by_scope.get(s)
        if tab is None:
            return f"symtable has no block for class at abstract line {s}"
        bound = {sym.get_name() for sym in tab.get_symbols() if sym.is_assigned() or sym.is_imported() or sym.is_namespace()} & alphabet
        # nested classes of an enclosing if/try block are the same scope for CPython
        names = {k[1] for k in ref if k[0] == s and k[1] != "zz/*"}
        selfonly = {n for n in names if all(prog[c - 1][0] == "assign" and prog[c - 1][1] in ("self", "selfann") for c in ref[(s, n)]["b"])}
        # a name bound both by self.x in __init__ and at class level is in `bound`; one bound only through self.x is not
        if s == 0:
            bound -= submods - names      # `from . import n` in pk/__init__.py: n is the submodule itself, no alias (Visitor.tla SubmoduleImport)
        if bound - names or (names - selfonly) - bound:
            # names whose class-level bindings were all skipped (conditional) cannot happen: the first binding always counts
            return f"reference names of scope {s} {sorted(names)} (instance-only {sorted(selfonly)}) disagree with symtable {sorted(bound)}"
    return None
