"""X05 - concretiser: an abstract DynImport.tla case -> directories R / X / E on disk.

Vocabulary of a case (see spec/DynImport.tla): n, mk[i] (absent|mod|pkg|ns), body[i] (ok|exc|sysexit|kbint|
modnotfound|badstr), at[i] (none|obj|raise|shadow), setup {ip, up, ipk}, pmut (none|append|rebind).
Every generated object carries its spec identity: modules by (name, directory), classes by `__vid__ = "O:k:i"`.
"""
from __future__ import annotations

import os

COMPS = ["x05a", "x05b", "x05c", "x05d", "x05e"]

BODY_RAISE = {
    "exc": 'raise ValueError("x05 boom in " + __name__)',
    "sysexit": "raise SystemExit(3)",
    "kbint": 'raise KeyboardInterrupt("x05 interrupt in " + __name__)',
    "modnotfound": "import x05_missing_dependency",
    "badstr": 'class _BadStr(Exception):\n    def __str__(self):\n        raise RuntimeError("x05 nostr")\nraise _BadStr()',
}
BODY_CLASS = {"exc": "ValueError", "sysexit": "SystemExit", "kbint": "KeyboardInterrupt", "modnotfound": "ModuleNotFoundError", "badstr": "_BadStr"}

META = (
    "class _X05Meta(type):\n"
    "    def __getattr__(cls, name):\n"
    "        if name == cls.__dict__.get('_x05_raise'):\n"
    "            raise RuntimeError('x05 getattr boom on ' + name)\n"
    "        raise AttributeError(f'type object {cls.__name__!r} has no attribute {name!r}')\n"
)


def prefix(case: dict, i: int) -> str:
    return ".".join(COMPS[:i])


def dotted(case: dict) -> str:
    return prefix(case, case["n"])


def _render_class(case: dict, k: int, i: int, indent: str) -> list:
    """class for component i reached from module k (identity O:k:i), nesting what `at` says about i+1.."""
    n, at = case["n"], case["at"]
    lines = [f"{indent}class {COMPS[i - 1]}(metaclass=_X05Meta):", f'{indent}    __vid__ = "O:{k}:{i}"']
    if i < n:
        nxt = at[i]  # at[i+1] in 1-based spec terms
        if nxt in ("obj", "shadow"):
            lines += _render_class(case, k, i + 1, indent + "    ")
        elif nxt == "raise":
            lines.append(f'{indent}    _x05_raise = "{COMPS[i]}"')
    return lines


def module_source(case: dict, i: int, plus: str) -> str:
    """Body of the module of prefix i (1-based) in directory R."""
    n, at, body = case["n"], case["at"], case["body"][i - 1]
    out = [
        "import builtins as _b, sys as _s",
        '_k = __name__ + "@R"',
        '_e = _b.__dict__.setdefault("_x05_execs", {})',
        "_e[_k] = _e.get(_k, 0) + 1",
        '_b.__dict__.setdefault("_x05_seen", {}).setdefault(_k, [type(p).__name__ + ":" + str(p) for p in _s.path])',
    ]
    if i == 1 and case["pmut"] == "append":
        out.append(f"_s.path.append({plus!r})")
    elif i == 1 and case["pmut"] == "rebind":
        out.append(f"_s.path = list(_s.path) + [{plus!r}]")
    if body != "ok":
        out.append(BODY_RAISE[body])
        return "\n".join(out) + "\n"
    if i < n:
        nxt = at[i]
        if nxt == "shadow":
            out += ["try:", f"    import {prefix(case, i + 1)}", "except BaseException:", "    pass"]
        if nxt in ("obj", "shadow"):
            out += [META.rstrip("\n")] + _render_class(case, i, i + 1, "")
        elif nxt == "raise":
            out += [
                "def __getattr__(name):",
                f'    if name == "{COMPS[i]}":',
                "        raise RuntimeError('x05 getattr boom on ' + name)",
                "    raise AttributeError(f'module {__name__!r} has no attribute {name!r}')",
            ]
    return "\n".join(out) + "\n"


DECOY = (
    "import builtins as _b\n"
    '_k = __name__ + "@X"\n'
    '_e = _b.__dict__.setdefault("_x05_execs", {})\n'
    "_e[_k] = _e.get(_k, 0) + 1\n"
)


def build(case: dict, d: str) -> dict:
    """Writes the world of `case` under directory d; returns the concrete names the children need."""
    roots = {t: os.path.join(d, t) for t in ("R", "X", "E")}
    for p in roots.values():
        os.makedirs(p, exist_ok=True)
    plus = os.path.join(d, "plus-nonexistent")
    with open(os.path.join(roots["X"], COMPS[0] + ".py"), "w") as fh:
        fh.write(DECOY)
    parent = roots["R"]
    for i in range(1, case["n"] + 1):
        kind = case["mk"][i - 1]
        if kind == "absent":
            break
        name = COMPS[i - 1]
        if kind == "mod":
            with open(os.path.join(parent, name + ".py"), "w") as fh:
                fh.write(module_source(case, i, plus))
            break  # nothing can live below a plain module
        os.makedirs(os.path.join(parent, name), exist_ok=True)
        if kind == "pkg":
            with open(os.path.join(parent, name, "__init__.py"), "w") as fh:
                fh.write(module_source(case, i, plus))
        parent = os.path.join(parent, name)
    return {
        "dir": d,
        "roots": roots,
        "plus": plus,
        "dotted": dotted(case),
        "comps": COMPS[: case["n"]],
        "ip": [roots[t] for t in case["setup"]["ip"]],
        "up": [roots[t] for t in case["setup"]["up"]],
        "ipk": case["setup"]["ipk"],
    }
