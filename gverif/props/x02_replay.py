"""X02 - replay of one abstract layout on the real Griffe (runs inside pool workers).

check_case(case, variant, modes) -> {"viol": [(sig, what)], "drift": n, "fatal": str|None, "seen": {...}}
  real Griffe vs spec ref  -> viol (the verdict);  real vs spec impl -> drift;  CPython oracle vs ref -> fatal.
Only public observations are used: load()/visit()/resolve_aliases(), members, kind, filepath, lineno, endlineno,
alias_lineno, alias_endlineno, lines, source, docstring.lineno/endlineno/source, decorators, lines_collection,
as_json/from_json.
"""
from __future__ import annotations

import os
import shutil
import sys
import tempfile
import textwrap
from pathlib import Path

from gverif.props import x02_oracle as oracle
from gverif.props.x02_render import PRELUDE_NAMES, item_names, render_case

SELF_FORMS = {"sasg", "sasgp3"}
_G = {}


def griffe_mod():
    if "g" not in _G:
        from gverif.common import ensure_repo  # noqa: PLC0415

        _G["g"] = ensure_repo()
    return _G["g"]


def _workdir() -> str:
    """Directory for rendered packages: below the parent's scratch (X02_WORKDIR) when run from the pool."""
    if "wd" not in _G:
        from gverif.common import scratch_root  # noqa: PLC0415

        base = os.environ.get("X02_WORKDIR")
        if base and os.path.isdir(base):
            _G["wd"] = tempfile.mkdtemp(prefix="w", dir=base)
        else:
            import atexit  # noqa: PLC0415

            _G["wd"] = tempfile.mkdtemp(prefix="x02-", dir=scratch_root())
            atexit.register(shutil.rmtree, _G["wd"], True)
    return _G["wd"]


def impl_table(case: dict) -> dict:
    t = {(r["it"], r["nm"]): r for r in case["ref"]}
    for r in case.get("implx", []):
        t[(r["it"], r["nm"])] = r
    return t


def wanted(case: dict) -> list:
    """(key, class path names, python name, kind, griffe path below the module) per ref object."""
    out = []
    for r in case["ref"]:
        cpath = [f"n{j}" for j in r["p"]]
        if r["it"] == 0:
            out.append(((0, 1), [], "", "module", []))
            continue
        form = case["items"][r["it"] - 1]["f"]
        name = item_names(r["it"], form)[r["nm"] - 1]
        pyname = "self." + name if form in SELF_FORMS else name
        out.append(((r["it"], r["nm"]), cpath, pyname, r["k"], cpath + [name]))
    return out


def cause_of(case: dict, r: dict, m: dict, fields: tuple) -> str:
    """Named hazard when the spec's transcription of the code (impl) already deviates on these fields."""
    if all(r[f] == m[f] for f in fields):
        return "none"
    it = case["items"][r["it"] - 1] if r["it"] else None
    if case.get("twin") and it and not it["py"]:
        return "stub-only-member"
    if it and it["dc"] in ("prop", "d1prop") and "lo" in fields:
        return "property-decorator"
    if it and it["dc"] == "dp" and "lo" in fields:
        return "decorator-expression-line"
    if "tx" in fields or "dtx" in fields:
        return "splitlines"
    if "dlo" in fields:
        return "else-docstring"
    return "other"


def _nav(mod, gpath):
    obj = mod
    for name in gpath:
        obj = obj.members[name]
    return obj


def _rel(path, root) -> str:
    try:
        return str(Path(path).relative_to(root))
    except Exception:  # noqa: BLE001
        return str(path)


def observe(obj, root, lc) -> dict:
    """Public observations of one object (or alias)."""
    if obj.is_alias:
        par = obj.parent
        lo, hi = obj.alias_lineno, obj.alias_endlineno
        fp = par.filepath
        try:
            lines = lc[fp][lo - 1 : hi] if lo and hi else []
        except KeyError:
            lines = None
        return {"k": "alias", "file": _rel(fp, root), "lo": lo, "hi": hi, "lines": lines, "source": None,
                "slice": lines, "dlo": 0, "dhi": 0, "dfile": None, "dsrc": None, "ds": []}
    fp = obj.filepath
    lo, hi = obj.lineno, obj.endlineno
    doc = obj.docstring
    rec = {"k": obj.kind.value, "file": _rel(fp, root), "lo": lo, "hi": hi, "lines": list(obj.lines), "source": obj.source,
           "dlo": 0, "dhi": 0, "dfile": None, "dsrc": None,
           "ds": [[d.lineno, d.endlineno] for d in getattr(obj, "decorators", [])]}
    try:
        rec["slice"] = lc[fp][lo - 1 : hi] if lo and hi else (lc[fp] if obj.is_module else [])
    except KeyError:
        rec["slice"] = None
    if doc is not None:
        rec["dlo"], rec["dhi"] = doc.lineno or 0, doc.endlineno or 0
        try:
            rec["dsrc"] = doc.source.split("\n")
            rec["dfile"] = _rel(doc.parent.filepath, root)
        except Exception as exc:  # noqa: BLE001
            rec["dsrc"] = f"raised {type(exc).__name__}"
    return rec


def write_files(files: dict) -> str:
    root = tempfile.mkdtemp(prefix="c", dir=_workdir())
    for rel, data in files.items():
        p = os.path.join(root, rel)
        os.makedirs(os.path.dirname(p), exist_ok=True)
        with open(p, "wb") as fh:
            fh.write(data)
    return root


def purge_modules():
    import importlib  # noqa: PLC0415
    import linecache  # noqa: PLC0415

    for name in [n for n in sys.modules if n == "pk" or n.startswith("pk.")]:
        del sys.modules[name]
    importlib.invalidate_caches()
    linecache.clearcache()


def sig_of(case, r, clause, mode, cause) -> dict:
    it = case["items"][r["it"] - 1] if r["it"] else {"f": "module", "dc": "none", "d": 0}
    return {"clause": clause, "mode": mode, "kind": r["k"], "form": it["f"], "deco": it["dc"],
            "nested": bool(r["p"]) or it["d"] > 0, "cause": cause}


FILES = {"m": "pk/m.py", "py": "pk/m.py", "stub": "pk/m.pyi"}
TARGET = {"imp": ["lib", "lib"], "imp2": ["lib", "lib"], "from": ["L1"], "from2": ["L1", "L2"], "fromp4": ["L1", "L2"],
          "fromb2": ["L1", "L2"], "star": ["L1", "L2"]}


def _lib_spans():
    if "lib" not in _G:
        from gverif.props.x02_render import LIB  # noqa: PLC0415

        t = oracle.table(LIB.encode(), [("L1", [], "L1", "function"), ("L2", [], "L2", "class")])
        _G["lib"] = {k: (v["lo"], v["hi"]) for k, v in t.items()}
        _G["liblines"] = oracle.pylines(LIB.encode())
    return _G["lib"], _G["liblines"]


class Out:
    def __init__(self, case, variant):
        self.case, self.variant = case, variant
        self.viol, self.drift, self.objects, self.keys = [], 0, 0, set()

    def v(self, r, clause, mode, cause, what):
        self.viol.append((sig_of(self.case, r, clause, mode, cause), what))


def compare_tree(case, rend, root, mod, lc, mode, out, hazard_free_lines=False):
    """Every object of the reference table against the loaded tree `mod` (module pk.m)."""
    ref = {(r["it"], r["nm"]): r for r in case["ref"]}
    impl = impl_table(case)
    pl = {rel: oracle.pylines(data) for rel, data in rend["files"].items()}
    live = {}
    for key, cpath, pyname, kind, gpath in wanted(case):
        r, m = ref[key], impl[key]
        if mode == "visit" and r["k"] == "alias" and case["items"][r["it"] - 1]["f"] == "star":
            continue            # wildcard imports are expanded by the loader only
        try:
            obj = _nav(mod, gpath)
        except KeyError:
            out.v(r, "member", mode, "none", f"{'.'.join(gpath)} is not a member of the loaded module")
            continue
        o = observe(obj, root, lc)
        live[key] = (o, gpath)
        out.objects += 1
        name = ".".join(gpath) or "<module>"
        if o["k"] != r["k"]:
            out.v(r, "kind", mode, "none", f"{name}: kind {o['k']}, expected {r['k']}")
            continue
        out.keys.add((r["k"], sig_of(case, r, "", "", "")["form"], sig_of(case, r, "", "", "")["deco"], bool(r["p"])))
        if any(o[f] != m[f] for f in ("lo", "hi", "dlo", "dhi", "ds") if r["k"] != "module") or o["file"] != FILES[m["file"]]:
            out.drift += 1
        file_ok = o["file"] == FILES[r["file"]]
        if not file_ok:
            out.v(r, "file", mode, cause_of(case, r, m, ("file",)), f"{name}: filepath {o['file']}, its text is in {FILES[r['file']]}")
        if r["k"] == "module":
            if not case["brk"] and not hazard_free_lines and o["lines"] != pl[FILES[r["file"]]]:
                out.v(r, "text", mode, "none", f"module lines differ from the file's lines ({len(o['lines'])} vs {len(pl[FILES[r['file']]])})")
        elif (o["lo"], o["hi"]) != (r["lo"], r["hi"]):
            out.v(r, "alias-span" if r["k"] == "alias" else "span", mode, cause_of(case, r, m, ("lo", "hi")),
                  f"{name}: lines {o['lo']}-{o['hi']}, its definition spans {r['lo']}-{r['hi']}")
        elif file_ok:
            want = pl[FILES[r["file"]]][r["lo"] - 1 : r["hi"]]
            if o["lines"] != want:
                out.v(r, "text", mode, cause_of(case, r, m, ("tx",)), f"{name}: lines[{r['lo']}-{r['hi']}] = {o['lines']!r}, the file has {want!r}")
            elif o["source"] is not None and o["source"] != textwrap.dedent("\n".join(want)):
                out.v(r, "source", mode, "none", f"{name}: source {o['source']!r} is not the dedented text {want!r}")
            if o["slice"] is not None and o["slice"] != o["lines"]:
                out.v(r, "lines-slice", mode, "none", f"{name}: lines {o['lines']!r} != lines_collection[filepath][lineno-1:endlineno] {o['slice']!r}")
        if o["ds"] != r["ds"] and r["k"] in ("function", "class"):
            out.v(r, "deco-span", mode, cause_of(case, r, m, ("ds",)), f"{name}: decorator spans {o['ds']}, expressions span {r['ds']}")
        if (o["dlo"], o["dhi"]) != (r["dlo"], r["dhi"]):
            out.v(r, "doc-span", mode, cause_of(case, r, m, ("dlo", "dhi")), f"{name}: docstring lines {o['dlo']}-{o['dhi']}, its literal spans {r['dlo']}-{r['dhi']}")
        elif r["dlo"]:
            want = pl[FILES[r["dfile"]]][r["dlo"] - 1 : r["dhi"]]
            if o["dsrc"] != want:
                out.v(r, "doc-text", mode, cause_of(case, r, m, ("dtx", "dfile")), f"{name}: Docstring.source {o['dsrc']!r}, the literal is {want!r}")
    return live


def compare_alias_targets(case, mod, mode, out):
    spans, liblines = _lib_spans()
    ref = {(r["it"], r["nm"]): r for r in case["ref"]}
    for key, cpath, pyname, kind, gpath in wanted(case):
        r = ref[key]
        if r["k"] != "alias":
            continue
        tname = TARGET[case["items"][r["it"] - 1]["f"]][r["nm"] - 1]
        try:
            al = _nav(mod, gpath)
            got = (al.lineno, al.endlineno, list(al.lines), _rel(al.filepath, "").rsplit("/", 1)[-1])
        except Exception as exc:  # noqa: BLE001
            out.v(r, "alias-target", mode, "none", f"{'.'.join(gpath)}: reading the target location raised {exc!r}")
            continue
        want = (None, None, liblines, "lib.py") if tname == "lib" else (*spans[tname], liblines[spans[tname][0] - 1 : spans[tname][1]], "lib.py")
        if got != want:
            out.v(r, "alias-target", mode, "none", f"{'.'.join(gpath)}: target location {got[:2]} {got[3]}, {tname} is at {want[:2]} in lib.py (or text differs)")


def oracle_check(case, rend):
    """The spec's reference table must be what CPython's ast / tokenize say about the rendered files."""
    fkeys = sorted({r["file"] for r in case["ref"]} | {r["dfile"] for r in case["ref"] if r["dlo"]})
    want = [(k, cp, py, kind) for k, cp, py, kind, _ in wanted(case)]
    tabs = {}
    for fkey in fkeys:
        data = rend["files"][FILES[fkey]]
        n = len(oracle.pylines(data))
        placed = case["lines2"] if (case.get("twin") and fkey == "py") else case["lines"]
        if rend["variant"] in (0, 1) and n != placed:
            return f"{FILES[fkey]} has {n} lines, the spec placed {placed}"
        try:
            tabs[fkey] = oracle.table(data, want)
        except SyntaxError as exc:
            return f"rendered file {FILES[fkey]} is not valid Python: {exc}"
    for r in case["ref"]:
        key = (r["it"], r["nm"])
        rec = tabs[r["file"]][key]
        if rec is None:
            return f"object {key} not found by the oracle in {FILES[r['file']]}"
        got = (rec["k"], rec["lo"], rec["hi"], rec["ds"])
        if got != (r["k"], r["lo"], r["hi"], r["ds"]):
            return f"object {key}: spec {(r['k'], r['lo'], r['hi'], r['ds'])}, CPython {got}"
        drec = tabs[r["dfile"]][key] if r["dlo"] else rec
        d = (drec["dlo"], drec["dhi"]) if drec else (0, 0)
        if d != (r["dlo"], r["dhi"]):
            return f"object {key}: spec docstring {(r['dlo'], r['dhi'])}, CPython {d}"
    return None


def check_collection(case, rend, root, lc, mode, out):
    """LinesCollection: one entry per loaded file, keyed by its path, holding the file's lines."""
    ref0 = next(r for r in case["ref"] if r["it"] == 0)
    want = {str(Path(root, rel)) for rel in rend["files"]}
    got = {str(p) for p in lc.keys()}
    if got != want:
        out.v(ref0, "collection", mode, "none", f"lines collection keys {sorted(_rel(g, root) for g in got)}, loaded files {sorted(rend['files'])}")
        return
    for rel, data in rend["files"].items():
        p = Path(root, rel)
        if case["brk"] and rel == rend["main"]:
            continue
        if p not in lc or dict(lc.items())[p] != lc[p] or lc[p] != oracle.pylines(data) or Path(root, "nowhere.py") in lc:
            out.v(ref0, "collection", mode, "none", f"lines collection entry of {rel} is not the file's lines")


def check_json(case, mod, live, out):
    g = griffe_mod()
    ref = {(r["it"], r["nm"]): r for r in case["ref"]}
    try:
        mod2 = g.Module.from_json(mod.as_json())
    except Exception as exc:  # noqa: BLE001
        out.v(ref[(0, 1)], "json-total", "json", "none", f"as_json/from_json raised {exc!r}")
        return
    for key, (o, gpath) in live.items():
        r = ref[key]
        try:
            o2 = observe(_nav(mod2, gpath), "", {})
        except ValueError:
            # no lines collection after a reload: lines/source are unavailable (nothing is promised) - read the numbers only
            obj2 = _nav(mod2, gpath)
            d = obj2.docstring if not obj2.is_alias else None
            o2 = {"lo": obj2.alias_lineno if obj2.is_alias else obj2.lineno, "hi": obj2.alias_endlineno if obj2.is_alias else obj2.endlineno,
                  "dlo": (d.lineno or 0) if d else 0, "dhi": (d.endlineno or 0) if d else 0,
                  "ds": [] if obj2.is_alias else [[x.lineno, x.endlineno] for x in getattr(obj2, "decorators", [])], "lines": None}
        except Exception as exc:  # noqa: BLE001
            out.v(r, "json-total", "json", "none", f"{'.'.join(gpath)}: reading the reloaded object raised {exc!r}")
            continue
        if r["k"] == "module":
            continue
        if any(o2[f] != o[f] for f in ("lo", "hi", "dlo", "dhi", "ds")):
            out.v(r, "json-span", "json", "none", f"{'.'.join(gpath)}: after a JSON round-trip {[o2[f] for f in ('lo', 'hi', 'dlo', 'dhi', 'ds')]}, before {[o[f] for f in ('lo', 'hi', 'dlo', 'dhi', 'ds')]}")
        if o2.get("lines") not in (None, [], o["lines"]):
            out.v(r, "json-lines", "json", "none", f"{'.'.join(gpath)}: after a JSON round-trip lines = {o2['lines']!r}")


def check_nosource(case, root, out):
    g = griffe_mod()
    ref = {(r["it"], r["nm"]): r for r in case["ref"]}
    mod = g.GriffeLoader(search_paths=[root], allow_inspection=False, store_source=False).load("pk")["m"]
    for key, cpath, pyname, kind, gpath in wanted(case):
        r = ref[key]
        try:
            obj = _nav(mod, gpath)
        except KeyError:
            continue
        if obj.is_alias:
            continue
        if list(obj.lines) != [] or obj.source != "" or (obj.lineno, obj.endlineno) != ((None, None) if kind == "module" else (r["lo"], r["hi"])):
            if (obj.lineno, obj.endlineno) != (r["lo"], r["hi"]) and kind != "module" and impl_table(case)[key]["lo"] != r["lo"]:
                continue  # a span deviation the load mode already reports
            out.v(r, "nosource", "nosource", "none", f"{'.'.join(gpath)}: store_source=False gives lines {obj.lines!r} / span {(obj.lineno, obj.endlineno)}")


def check_inspect(case, rend, root, out):
    """force_inspection: functions and classes carry inspect.getsourcelines' location when sources are stored."""
    g = griffe_mod()
    ref = {(r["it"], r["nm"]): r for r in case["ref"]}
    pl = oracle.pylines(rend["files"]["pk/m.py"])
    purge_modules()
    try:
        loader = g.GriffeLoader(search_paths=[root], force_inspection=True)
        mod = loader.load("pk")["m"]
    except Exception as exc:  # noqa: BLE001
        out.v(ref[(0, 1)], "total", "inspect", "none", f"inspecting the rendered package raised {exc!r}")
        return 0
    finally:
        purge_modules()
    seen = 0
    for key, cpath, pyname, kind, gpath in wanted(case):
        r = ref[key]
        if r["k"] not in ("function", "class"):
            continue
        try:
            obj = _nav(mod, gpath)
        except KeyError:
            continue        # not bound at run time (else branch, ...)
        if obj.is_alias or obj.lineno is None:
            continue
        seen += 1
        name = ".".join(gpath)
        lo, hi = obj.lineno, obj.endlineno
        it = case["items"][r["it"] - 1]
        # tolerance stated in the spec (InspEnd): inspect's block finder keeps comment lines of the block
        extra = pl[r["hi"] : hi] if hi and hi >= r["hi"] else None
        end_ok = extra is not None and all(x.strip() == "" or x.strip().startswith("#") for x in extra) and (not extra or extra[-1].strip() != "")
        if lo != r["lo"] or not end_ok:
            cause = "decorator-expression-line" if it["dc"] == "dp" and lo != r["lo"] else "none"
            out.v(r, "span", "inspect", cause, f"{name}: inspected lines {lo}-{hi}, its definition spans {r['lo']}-{r['hi']}")
            continue
        if _rel(obj.filepath, root) != "pk/m.py":
            out.v(r, "file", "inspect", "none", f"{name}: filepath {obj.filepath}")
        elif not case["brk"] and list(obj.lines) != pl[lo - 1 : hi]:
            out.v(r, "text", "inspect", "none", f"{name}: lines {obj.lines!r}, the file has {pl[lo - 1:hi]!r}")
        elif not case["brk"] and obj.source != textwrap.dedent("\n".join(pl[lo - 1 : hi])):
            out.v(r, "source", "inspect", "none", f"{name}: source is not the dedented text")
    return seen


def check_visit(case, rend, root, out):
    """griffe.visit() with a lines collection filled by the caller (CPython's line splitting)."""
    g = griffe_mod()
    data = rend["files"]["pk/m.py"]
    path = Path(root, "pk", "m.py")
    lc = g.LinesCollection()
    lc[path] = oracle.pylines(data)
    code = "\n".join(oracle.pylines(data)) + "\n"
    mod = g.visit("m", filepath=path, code=code, lines_collection=lc)
    compare_tree(case, rend, root, mod, lc, "visit", out, hazard_free_lines=True)


def check_case(case: dict, variant: int = 0, modes=("load",)) -> dict:
    g = griffe_mod()
    out = Out(case, variant)
    res = {"viol": out.viol, "drift": 0, "fatal": None, "objects": 0, "keys": [], "inspected": 0, "modes": []}
    rend = render_case(case, variant)
    fatal = oracle_check(case, rend)
    if fatal:
        res["fatal"] = fatal
        return res
    root = write_files(rend["files"])
    ref0 = next(r for r in case["ref"] if r["it"] == 0)
    try:
        if "load" in modes or "stubs" in modes:
            mode = "stubs" if case.get("twin") else "load"
            try:
                loader = g.GriffeLoader(search_paths=[root], allow_inspection=False)
                pkg = loader.load("pk")
                loader.resolve_aliases(implicit=False, external=False)
                mod = pkg["m"]
            except Exception as exc:  # noqa: BLE001
                out.v(ref0, "total", mode, "bom" if case["head"][0] == "bom" else "none", f"loading the rendered package raised {type(exc).__name__}: {str(exc)[:120]}")
                mod = None
            if mod is not None:
                res["modes"].append(mode)
                live = compare_tree(case, rend, root, mod, loader.lines_collection, mode, out)
                check_collection(case, rend, root, loader.lines_collection, mode, out)
                if not case.get("twin"):
                    compare_alias_targets(case, mod, mode, out)
                if "json" in modes:
                    res["modes"].append("json")
                    check_json(case, mod, live, out)
                if "nosource" in modes:
                    res["modes"].append("nosource")
                    check_nosource(case, root, out)
        if "visit" in modes and not case.get("twin") and case["head"][0] != "bom":
            res["modes"].append("visit")
            check_visit(case, rend, root, out)
        if "inspect" in modes and not case.get("twin") and case["head"][0] != "bom":
            res["modes"].append("inspect")
            res["inspected"] = check_inspect(case, rend, root, out)
    finally:
        shutil.rmtree(root, ignore_errors=True)
    res["drift"], res["objects"], res["keys"] = out.drift, out.objects, sorted(out.keys)
    return res


def check_chunk(chunk: list) -> list:
    """Pool entry: [(key, case, variant, modes)] -> [(key, result)]; the case travels back only when it is needed."""
    out = []
    for key, case, variant, modes in chunk:
        try:
            res = check_case(case, variant, modes)
        except Exception as exc:  # noqa: BLE001
            import traceback  # noqa: PLC0415

            res = {"viol": [], "drift": 0, "fatal": f"harness crashed: {exc!r}\n{traceback.format_exc()[-800:]}", "objects": 0, "keys": [], "inspected": 0, "modes": []}
        if res["viol"] or res["fatal"] or (res["objects"] > 3 and key % 997 == 0):
            res["case"] = case
        out.append((key, res))
    return out
