"""C11 - API diff: silent on compatible change, reports every public removal / re-kinding (spec/DiffTree.tla).

TLC decides the clauses (i)-(v) on the model for every (base package, edit script) state:
  * quick:    every base package x <= 1 edit, and the "small" family of base packages x <= 2 edits;
  * thorough: every base package x <= 2 edits, and the "small" family x <= 3 edits.
Binding, per state: both versions are rendered to disk, loaded with griffe.load(resolve_aliases=True), diffed
with the real find_breaking_changes; every Breakage.explain(style) is called;
   real vs Ref (allcompat / obligations / okpaths / no abort, all from TLC) -> the property on the code (VIOLATION)
   real vs Impl (Report)                                                    -> conformance of the model (drift note)
and, for a seeded sample, a git repository is generated (old = tag v1, new = work tree) and
`python -m griffe check` / `griffe.check` are run in a child process: exit code vs the in-process result.
CatchCyclic (does _alias_incompatibilities catch CyclicAliasError?) is extracted from the working tree.
"""
from __future__ import annotations

import json
import multiprocessing
import os
import random
from concurrent.futures import ThreadPoolExecutor

from gverif import tlc
from gverif.common import SEED, die, ensure_repo, scratch
from gverif.harness import Run
from gverif.props import c11_lib as L


def run_tlc(cfg: str, max_edits: int, family: str, catch: bool, emit=True, workers=4, dump_trace=False, timeout=2400):
    consts = {"MAXEDITS": max_edits, "FAMILY": family, "CATCHCYCLIC": "TRUE" if catch else "FALSE", "EMIT": "TRUE" if emit else "FALSE"}
    return tlc.run("DiffTree", cfg, workers=workers, constants=consts, dump_trace=dump_trace, timeout=timeout, heap="3g")


def case_key(c: dict) -> str:
    return json.dumps([c["mpriv"], c["old"], c["log"]], sort_keys=True)


_G: dict = {}


def _judge_group(cases: list):
    """Worker: all cases share (mpriv, old). Returns aggregated verdicts."""
    griffe = _G["griffe"]
    styles = list(griffe.ExplanationStyle)
    agg: dict = {}
    stats = {"cases": 0, "drift": 0, "drift_ex": None, "breakages": 0, "explains": 0, "aborted": 0}
    real_of = {}
    with scratch("c11-") as d:
        mpriv = cases[0]["mpriv"]
        old_pkg = L.load_version(griffe, os.path.join(d, "old"), cases[0]["old"], mpriv)
        cache: dict = {}
        for i, c in enumerate(cases):
            vkey = json.dumps(c["new"], sort_keys=True)
            if vkey not in cache:
                cache[vkey] = L.load_version(griffe, os.path.join(d, f"n{len(cache)}"), c["new"], mpriv)
            real, aborted, bad = L.real_report(griffe, old_pkg, cache[vkey], mpriv, styles)
            stats["cases"] += 1
            stats["breakages"] += len(real)
            stats["explains"] += len(real) * len(styles)
            stats["aborted"] += aborted != "no"
            viols, drift = L.judge(c, real, aborted, bad)
            if drift:
                stats["drift"] += 1
                stats["drift_ex"] = stats["drift_ex"] or f"{L.describe(c)}: real {sorted((k, '.'.join(p)) for k, p in real)} aborted={aborted}; model {sorted((k, '.'.join(p)) for k, p in c['out'])} aborted={c['aborted']}"
            real_of[case_key(c)] = (sorted((k, list(p)) for k, p in real), aborted)
            for sig, what in viols:
                kk = json.dumps(sig, sort_keys=True)
                if kk not in agg:
                    files_old, files_new = L.render(c["old"], mpriv), L.render(c["new"], mpriv)
                    agg[kk] = [0, sig, what, {"mpriv": mpriv, "old": c["old"], "new": c["new"], "log": c["log"], "files_old": files_old, "files_new": files_new,
                                              "real": sorted((k, ".".join(p)) for k, p in real), "aborted": aborted}]
                agg[kk][0] += 1
    return agg, stats, real_of


def replay_cases(run: Run, griffe, cases: list, procs: int) -> dict:
    groups: dict = {}
    for c in cases:
        groups.setdefault(json.dumps([c["mpriv"], c["old"]], sort_keys=True), []).append(c)
    _G.update(griffe=griffe)
    glist = sorted(groups.values(), key=len, reverse=True)
    if procs > 1:
        with multiprocessing.get_context("fork").Pool(procs) as pool:
            results = pool.map(_judge_group, glist, chunksize=1)
    else:
        results = [_judge_group(g) for g in glist]
    real_of: dict = {}
    tot = {"cases": 0, "drift": 0, "breakages": 0, "explains": 0, "aborted": 0}
    drift_ex = None
    for agg, stats, ro in results:
        real_of.update(ro)
        for k in tot:
            tot[k] += stats[k]
        drift_ex = drift_ex or stats["drift_ex"]
        for _kk, (count, sig, what, case) in sorted(agg.items()):
            run.violation(sig, what, case)
            for _ in range(count - 1):
                run.violation(sig, what, None)
    run.replayed(tot["cases"])
    run.evaluated(tot["cases"] + tot["explains"])
    for k in ("breakages", "explains", "aborted"):
        run.extra[k] = run.extra.get(k, 0) + tot[k]
    if tot["drift"]:
        run.note(f"{tot['drift']} state(s) where the real finder differs from the model's transcription Report (model drift; the verdict comes from the reference clauses only), e.g. {drift_ex}")
    return real_of


def cli_sample(run: Run, cases: list, real_of: dict, count: int, rnd: random.Random):
    """Clause (v): exit code of the command-line check on generated git repositories."""
    strata = {"silent": [], "reported": [], "reported-one": [], "aborted": [], "dangling": []}
    for c in cases:
        real, aborted = real_of[case_key(c)]
        if aborted != "no":
            strata["aborted"].append(c)
        elif c["old"]["ext"] and c["old"]["hasRall"] and c["log"]:
            strata["dangling"].append(c)
        elif len(real) == 1:
            strata["reported-one"].append(c)
        elif real:
            strata["reported"].append(c)
        elif c["log"]:
            strata["silent"].append(c)
    picked = []
    for name in ("reported-one", "reported", "silent", "dangling", "aborted"):
        pool = sorted(strata[name], key=case_key)
        rnd.shuffle(pool)
        picked += [(name, c) for c in pool[: max(2, count // 5)]]       # >= 2: one through the CLI, one through griffe.check
    for i, (name, c) in enumerate(picked):
        real, aborted = real_of[case_key(c)]
        mode = "cli" if i % 2 == 0 else "api"
        with scratch("c11-git-") as repo:
            res = L.cli_check(repo, c, mode)
        run.replayed()
        run.evaluated()
        desc = L.describe(c)
        if aborted != "no":
            # in-process the comparison aborted: the command must crash the same way (reported under clause iv)
            if res["crashed"]:
                run.violation({"clause": "iv-no-abort", "exception": res["exception"], "reexport": L.reexport_class(c["old"])}, f"`griffe check` ({mode}) crashed with {res['exception']} on {desc}", {"cli": True, "mode": mode, "mpriv": c["mpriv"], "old": c["old"], "new": c["new"], "log": c["log"]})
            else:
                run.note(f"cli: in-process comparison aborted ({aborted}) but `griffe check` ({mode}) exited {res['rc']} on {desc}")
            continue
        want = 1 if real else 0
        if res["crashed"] or res["rc"] != want or res["lines"] < len(real) or (not real and res["lines"]):
            run.violation({"clause": "v-exit-code", "mode": mode, "expected": want, "rc": "crash" if res["crashed"] else res["rc"]},
                          f"`griffe check` ({mode}) exited {res['rc']} printing {res['lines']} line(s) while find_breaking_changes yields {len(real)} breakage(s) on {desc}\n{res['stderr']}",
                          {"cli": True, "mode": mode, "mpriv": c["mpriv"], "old": c["old"], "new": c["new"], "log": c["log"]})
        run.sample({"cli": mode, "package": desc, "rc": res["rc"], "breakages_in_process": len(real)}, limit=10)


def confirm_defect(run: Run, griffe, res, inv: str, what: str):
    """DiffTree_defect_*.cfg: the model of the unchanged code must violate the unrestricted clause; the
    counterexample is replayed on the real code."""
    if inv not in res.violated:
        run.note(f"DiffTree ({what}): the model does not violate {inv} any more (the implementation changed: CatchCyclic extracted as TRUE?)")
        return
    if not res.trace:
        die(f"C11: {inv} violated without counterexample dump")
    st = res.trace[-1]
    case = {"mpriv": st["mpriv"], "old": st["old"], "new": st["new"], "log": st["log"], "out": st["report"]["out"], "aborted": st["report"]["aborted"]}
    with scratch("c11-") as d:
        old_pkg = L.load_version(griffe, os.path.join(d, "o"), case["old"], case["mpriv"])
        new_pkg = L.load_version(griffe, os.path.join(d, "n"), case["new"], case["mpriv"])
        real, aborted, _ = L.real_report(griffe, old_pkg, new_pkg, case["mpriv"], [])
    run.replayed()
    same = aborted == case["aborted"] and (aborted != "no" or real == {(k, tuple(p)) for k, p in case["out"]})
    run.note(f"DiffTree ({what}): TLC counterexample to {inv}: {L.describe(case)} -> model {'aborted ' + case['aborted'] if case['aborted'] != 'no' else sorted((k, '.'.join(p)) for k, p in case['out'])}; "
             + ("confirmed on the real code" if same else f"the real code gives {sorted((k, '.'.join(p)) for k, p in real)} aborted={aborted} (model of the implementation is stale)"))


def main(tier: str, replay: str | None = None):
    griffe = ensure_repo()
    run = Run("C11", tier)
    run.rule = ("DiffTree.tla: one state per (base package, edit script): base = defining module mod/_mod x __all__ none/full/part x re-exports in pkg/__init__ x root __all__ x dangling x cyclic re-export x K(B); "
                "edits from the catalogue Remove/ChangeKind/ChangeValue/RemoveBase (incompatible) and AddPublic/AddOptKw/AddBase (compatible) at public and private locations. "
                "Non-trivial = state with >= 1 edit, or identical pair whose base has a dangling/cyclic re-export; distinct by (base, edit script).")
    catch = L.catches_cyclic()
    run.extra["catch_cyclic_extracted"] = catch
    rnd = random.Random(SEED)

    if replay:
        with open(replay) as fh:
            rec = json.load(fh)
        case = rec["case"]
        print(rec["what"])
        n = max(1, len(case["log"]))
        r = tlc.must(run_tlc("DiffTree_gen.cfg", n, "all", catch, workers=8))
        run.add_tlc(r)
        hits = [c for c in r.cases if c["mpriv"] == case["mpriv"] and c["old"] == case["old"] and c["log"] == case["log"]]
        if not hits:
            die("C11: the replayed case is not in TLC's enumeration")
        real_of = replay_cases(run, griffe, hits, 1)
        print("real:", real_of[case_key(hits[0])], " model:", hits[0]["out"], hits[0]["aborted"])
        if case.get("cli"):
            cli_sample(run, hits, real_of, 4, rnd)
        run.finish()

    if tier == "quick":
        plan = {"all": ("DiffTree_check.cfg", 1, "all", 6), "small": ("DiffTree_check.cfg", 2, "small", 6)}
        procs, n_cli = 6, 8
    else:
        plan = {"all": ("DiffTree_check.cfg", 2, "all", 10), "small": ("DiffTree_check.cfg", 3, "small", 6)}
        procs, n_cli = 12, 40
    jobs = {k: (lambda a=a: run_tlc(a[0], a[1], a[2], catch, workers=a[3])) for k, a in plan.items()}
    jobs["defect_abort"] = lambda: run_tlc("DiffTree_defect_abort.cfg", 1, "small", catch, emit=False, workers=1, dump_trace=True)
    jobs["defect_path"] = lambda: run_tlc("DiffTree_defect_path.cfg", 1, "small", catch, emit=False, workers=1, dump_trace=True)
    with ThreadPoolExecutor(max_workers=4) as ex:
        futs = {k: ex.submit(f) for k, f in jobs.items()}
        res = {k: f.result() for k, f in futs.items()}
    run.extra["timing"] = {"tlc_wall_s": {k: round(r.wall_s, 1) for k, r in res.items()}}
    for k, a in plan.items():
        if res[k].violated:
            run.note(f"TLC: the model violates {res[k].violated} ({k}); replaying the enumeration on the real code decides")
            run.add_tlc(res[k])
            res[k] = run_tlc("DiffTree_gen.cfg", a[1], a[2], catch, workers=8)
        tlc.must(res[k])
        run.add_tlc(res[k])
    for k in ("defect_abort", "defect_path"):
        tlc.must(res[k], allow_violations=True)
        run.add_tlc(res[k])
    confirm_defect(run, griffe, res["defect_abort"], "I_NoAbort", "abort")
    confirm_defect(run, griffe, res["defect_path"], "I_ReportedAtPublicPath", "public path")

    cases = {}
    for k in plan:
        for c in res[k].cases:
            cases.setdefault(case_key(c), c)
    cases = list(cases.values())
    # vacuity: every edit of the catalogue, every clause antecedent and both alias failure modes are reached
    ops = {e["op"] for c in cases for e in c["log"]}
    if ops != {"Remove", "ChangeKind", "ChangeValue", "RemoveBase", "AddBase", "AddPublic", "AddOptKw"}:
        die(f"C11: vacuous enumeration, edits reached: {sorted(ops)}")
    n_oblig = sum(1 for c in cases for ob in c["oblig"] if ob["public"] and not ob["masked"])
    n_compat = sum(1 for c in cases if c["allcompat"] and c["log"])
    n_private = sum(1 for c in cases for ob in c["oblig"] if ob["op"] in ("Remove", "ChangeKind", "ChangeValue", "RemoveBase") and not ob["public"])
    n_cyc = sum(1 for c in cases if c["old"]["cyc"] and c["old"]["hasRall"])
    n_ext = sum(1 for c in cases if c["old"]["ext"] and c["old"]["hasRall"])
    if not (n_oblig and n_compat and n_private and n_cyc and n_ext):
        die(f"C11: vacuous enumeration: obligations={n_oblig} compatible={n_compat} private-edits={n_private} cyclic={n_cyc} dangling={n_ext}")
    run.extra["antecedents"] = {"public_incompatible_edits": n_oblig, "all_compatible_scripts": n_compat, "private_incompatible_edits": n_private, "cyclic_exported_states": n_cyc, "dangling_exported_states": n_ext}

    import time  # noqa: PLC0415

    t_py = time.time()
    real_of = replay_cases(run, griffe, cases, procs)
    run.extra["timing"]["real_replay_s"] = round(time.time() - t_py, 1)
    for c in cases:
        if c["log"] or ((c["old"]["ext"] or c["old"]["cyc"]) and c["old"]["hasRall"]):
            run.nontrivial_case(case_key(c))
    for c in cases[:: max(1, len(cases) // 4)]:
        real, aborted = real_of[case_key(c)]
        run.sample({"package": L.describe(c), "model_report": [[k, ".".join(p)] for k, p in c["out"]], "model_aborted": c["aborted"], "real_report": [[k, ".".join(p)] for k, p in real], "real_aborted": aborted,
                    "obligations": [{"op": o["op"], "id": o["id"], "public": o["public"], "masked": o["masked"], "paths": [".".join(p) for p in o["paths"]]} for o in c["oblig"]]}, limit=6)
    t_py = time.time()
    cli_sample(run, cases, real_of, n_cli, rnd)
    run.extra["timing"]["cli_sample_s"] = round(time.time() - t_py, 1)
    run.exhaustive = True
    run.finish()
