"""C11 - API diff: silent on compatible change, reports every public removal / re-kinding (spec/DiffTree.tla).

TLC decides the clauses (i)-(v) on the model for every (base package, edit script) state:
  * quick:    every base package x <= 1 edit, and the "small" family of base packages x <= 2 edits;
  * thorough: every base package x <= 2 edits, and the "small" family x <= 3 edits.
Binding, per state: both versions are rendered to disk, loaded with griffe.load(resolve_aliases=True), diffed
with the real find_breaking_changes; every Breakage.explain(style) is called;
   real vs Ref (allcompat / obligations / okpaths / no abort, all from TLC) -> the property on the code (VIOLATION)
   real vs Impl (Report)                                                    -> conformance of the model (drift note)
and, for a seeded sample, a git repository is generated (old = tag v1, new = work tree) and
`python -m griffe check` / `griffe.check` are run in a child process: exit code vs the in-process result.
CatchCyclic (does the finder skip cyclic re-exports?) is probed through the public API on a tiny package.
"""
from __future__ import annotations

import json
import multiprocessing
import os
import random
from concurrent.futures import ThreadPoolExecutor

from gverif import tlc
from gverif.common import SEED, die, ensure_repo, scratch
from gverif.harness import Run
from gverif.props import c11_lib as L


BASE_RULE = ["missing"]     # probed in main()


def run_tlc(cfg: str, max_edits: int, family: str, catch: bool, emit=True, workers=4, dump_trace=False, timeout=2400, store=None):
    consts = {"BASERULE": BASE_RULE[0], "MAXEDITS": max_edits, "FAMILY": family, "CATCHCYCLIC": "TRUE" if catch else "FALSE", "EMIT": "TRUE" if emit else "FALSE"}
    return tlc.run("DiffTree", cfg, workers=workers, constants=consts, dump_trace=dump_trace, timeout=timeout, heap="3g", on_line=store.add if store is not None else None)


class Store:
    """Compact store of TLC's CASE records, grouped by base package (mpriv, old): the full records of a
    thorough run do not fit comfortably in memory as dicts, so each state is kept as a JSON string without
    the fields shared by its group (old, okpaths) and the parsed dict is emptied."""

    def __init__(self):
        self.groups: dict = {}   # group key -> {"mpriv", "old", "okpaths", "cases": {log key: json string}}

    def add(self, rec: dict):
        rec["old"]["site"] = rec["new"]["site"] = rec["site"]      # constant of the behaviour, kept with the versions
        gk = json.dumps([rec["mpriv"], rec["old"]], sort_keys=True)
        g = self.groups.get(gk)
        if g is None:
            g = self.groups[gk] = {"mpriv": rec["mpriv"], "old": rec["old"], "okpaths": rec["okpaths"], "cases": {}}
        lk = json.dumps(rec["log"])
        if lk not in g["cases"]:
            g["cases"][lk] = json.dumps({k: rec[k] for k in ("new", "log", "aborted", "out", "exit", "oblig", "allcompat")})
        rec.clear()

    def merge(self, other: "Store"):
        for gk, g in other.groups.items():
            mine = self.groups.setdefault(gk, g)
            if mine is not g:
                for lk, raw in g["cases"].items():
                    mine["cases"].setdefault(lk, raw)

    def __len__(self):
        return sum(len(g["cases"]) for g in self.groups.values())


def expand(g: dict, raw: str) -> dict:
    c = json.loads(raw)
    c.update(mpriv=g["mpriv"], old=g["old"], okpaths=g["okpaths"])
    return c


_G: dict = {}
STRATA = ("reported-one", "reported", "silent", "dangling", "aborted")


def stratum(c: dict, real, aborted: str):
    if aborted != "no":
        return "aborted"
    if c["old"]["ext"] and c["old"]["hasRall"] and c["log"]:
        return "dangling"
    if len(real) == 1:
        return "reported-one"
    if real:
        return "reported"
    if c["log"]:
        return "silent"
    return None


CHUNK = 1200


def _judge_group(item):
    """Worker: a chunk of the states of one base package (mpriv, old). Returns aggregated verdicts."""
    gi, lo = item
    griffe = _G["griffe"]
    g = _G["groups"][gi]
    styles = list(griffe.ExplanationStyle)
    agg: dict = {}
    stats = {"cases": 0, "drift": 0, "drift_ex": None, "breakages": 0, "explains": 0, "aborted": 0, "nontrivial": 0, "ops": {}}
    cli_cand: dict = {k: [] for k in STRATA}
    samples = []
    mpriv = g["mpriv"]
    with scratch("c11-") as d:
        old_pkg = L.load_version(griffe, os.path.join(d, "old"), g["old"], mpriv)
        cache: dict = {}
        for raw in _G["raws"][gi][lo : lo + CHUNK]:     # sorted by `new`: equal versions are adjacent
            c = expand(g, raw)
            vkey = json.dumps(c["new"], sort_keys=True)
            if vkey not in cache:
                if len(cache) >= 256:     # bound the number of loaded packages kept alive
                    cache.clear()
                cache[vkey] = L.load_version(griffe, os.path.join(d, f"n{stats['cases']}"), c["new"], mpriv)
            real, aborted, bad = L.real_report(griffe, old_pkg, cache[vkey], mpriv, styles)
            stats["cases"] += 1
            stats["breakages"] += len(real)
            stats["explains"] += len(real) * len(styles)
            stats["aborted"] += aborted != "no"
            for e in c["log"]:
                stats["ops"][e["op"]] = stats["ops"].get(e["op"], 0) + 1
            if c["log"] or ((c["old"]["ext"] or c["old"]["cyc"]) and c["old"]["hasRall"]):
                stats["nontrivial"] += 1
            viols, drift = L.judge(c, real, aborted, bad)
            if drift:
                stats["drift"] += 1
                stats["drift_ex"] = stats["drift_ex"] or f"{L.describe(c)}: real {sorted((k, '.'.join(p)) for k, p in real)} aborted={aborted}; model {sorted((k, '.'.join(p)) for k, p in c['out'])} aborted={c['aborted']}"
            st = stratum(c, real, aborted)
            slim = {"mpriv": mpriv, "old": c["old"], "new": c["new"], "log": c["log"], "out": c["out"], "aborted": c["aborted"], "oblig": c["oblig"]}
            if st and len(cli_cand[st]) < 2:
                cli_cand[st].append((slim, sorted((k, list(p)) for k, p in real), aborted))
            if len(samples) < 1 and c["log"] and real:
                samples.append((slim, sorted((k, list(p)) for k, p in real), aborted))
            for sig, what in viols:
                kk = json.dumps(sig, sort_keys=True)
                if kk not in agg:
                    agg[kk] = [0, sig, what, {"mpriv": mpriv, "old": c["old"], "new": c["new"], "log": c["log"], "files_old": L.render(c["old"], mpriv), "files_new": L.render(c["new"], mpriv),
                                              "real": sorted((k, ".".join(p)) for k, p in real), "aborted": aborted}]
                agg[kk][0] += 1
    return agg, stats, cli_cand, samples


def replay_cases(run: Run, griffe, store: Store, procs: int):
    """Real loader + finder on every state of the store; returns (CLI candidates per stratum, samples)."""
    groups = sorted(store.groups.values(), key=lambda g: -len(g["cases"]))
    raws = [sorted(g["cases"].values()) for g in groups]
    _G.update(griffe=griffe, groups=groups, raws=raws)
    items = [(gi, lo) for gi, r in enumerate(raws) for lo in range(0, len(r), CHUNK)]
    if procs > 1:
        with multiprocessing.get_context("fork").Pool(procs) as pool:
            results = pool.map(_judge_group, items, chunksize=1)
    else:
        results = [_judge_group(it) for it in items]
    tot = {"cases": 0, "drift": 0, "breakages": 0, "explains": 0, "aborted": 0, "nontrivial": 0}
    ops: dict = {}
    drift_ex = None
    cli_cand: dict = {k: [] for k in STRATA}
    samples = []
    for agg, stats, cand, smp in results:
        for k in tot:
            tot[k] += stats[k]
        for k, v in stats["ops"].items():
            ops[k] = ops.get(k, 0) + v
        drift_ex = drift_ex or stats["drift_ex"]
        for k in STRATA:
            cli_cand[k] += cand[k]
        samples += smp
        for _kk, (count, sig, what, case) in sorted(agg.items()):
            run.violation(sig, what, case)
            for _ in range(count - 1):
                run.violation(sig, what, None)
    run.replayed(tot["cases"])
    run.evaluated(tot["cases"] + tot["explains"])
    base = len(run.nontrivial)
    for i in range(tot["nontrivial"]):      # states are distinct by (base package, edit script) by construction of the store
        run.nontrivial_case(base + i)
    for k in ("breakages", "explains", "aborted"):
        run.extra[k] = run.extra.get(k, 0) + tot[k]
    run.extra["edits_replayed"] = ops
    if tot["drift"]:
        run.note(f"{tot['drift']} state(s) where the real finder differs from the model's transcription Report (model drift; the verdict comes from the reference clauses only), e.g. {drift_ex}")
    return cli_cand, samples


def cli_sample(run: Run, cli_cand: dict, count: int, rnd: random.Random):
    """Clause (v): exit code of the command-line check on generated git repositories."""
    picked = []
    for name in STRATA:
        pool = sorted(cli_cand[name], key=lambda t: json.dumps([t[0]["mpriv"], t[0]["old"], t[0]["log"]], sort_keys=True))
        rnd.shuffle(pool)
        picked += [(name, t) for t in pool[: max(2, count // 5)]]       # >= 2: one through the CLI, one through griffe.check
    for i, (name, (c, real, aborted)) in enumerate(picked):
        mode = "cli" if i % 2 == 0 else "api"
        with scratch("c11-git-") as repo:
            res = L.cli_check(repo, c, mode)
        run.replayed()
        run.evaluated()
        desc = L.describe(c)
        if aborted != "no":
            # in-process the comparison aborted: the command must crash the same way (reported under clause iv)
            if res["crashed"]:
                run.violation({"clause": "iv-no-abort", "exception": res["exception"], "reexport": L.reexport_class(c["old"])}, f"`griffe check` ({mode}) crashed with {res['exception']} on {desc}", {"cli": True, "mode": mode, "mpriv": c["mpriv"], "old": c["old"], "new": c["new"], "log": c["log"]})
            else:
                run.note(f"cli: in-process comparison aborted ({aborted}) but `griffe check` ({mode}) exited {res['rc']} on {desc}")
            continue
        want = 1 if real else 0
        if res["crashed"] or res["rc"] != want or res["lines"] < len(real) or (not real and res["lines"]):
            run.violation({"clause": "v-exit-code", "mode": mode, "expected": want, "rc": "crash" if res["crashed"] else res["rc"]},
                          f"`griffe check` ({mode}) exited {res['rc']} printing {res['lines']} line(s) while find_breaking_changes yields {len(real)} breakage(s) on {desc}\n{res['stderr']}",
                          {"cli": True, "mode": mode, "mpriv": c["mpriv"], "old": c["old"], "new": c["new"], "log": c["log"]})
        run.sample({"cli": mode, "package": desc, "rc": res["rc"], "breakages_in_process": len(real)}, limit=10)


def confirm_defect(run: Run, griffe, res, inv: str, what: str):
    """DiffTree_defect_*.cfg: the model of the unchanged code must violate the unrestricted clause; the
    counterexample is replayed on the real code."""
    if inv not in res.violated:
        run.note(f"DiffTree ({what}): the model does not violate {inv} any more (the implementation changed: CatchCyclic extracted as TRUE?)")
        return
    if not res.trace:
        die(f"C11: {inv} violated without counterexample dump")
    st = res.trace[-1]
    st["old"]["site"] = st["new"]["site"] = st["site"]
    case = {"mpriv": st["mpriv"], "old": st["old"], "new": st["new"], "log": st["log"], "out": st["report"]["out"], "aborted": st["report"]["aborted"]}
    with scratch("c11-") as d:
        old_pkg = L.load_version(griffe, os.path.join(d, "o"), case["old"], case["mpriv"])
        new_pkg = L.load_version(griffe, os.path.join(d, "n"), case["new"], case["mpriv"])
        real, aborted, _ = L.real_report(griffe, old_pkg, new_pkg, case["mpriv"], [])
    run.replayed()
    same = aborted == case["aborted"] and (aborted != "no" or real == {(k, tuple(p)) for k, p in case["out"]})
    run.note(f"DiffTree ({what}): TLC counterexample to {inv}: {L.describe(case)} -> model {'aborted ' + case['aborted'] if case['aborted'] != 'no' else sorted((k, '.'.join(p)) for k, p in case['out'])}; "
             + ("confirmed on the real code" if same else f"the real code gives {sorted((k, '.'.join(p)) for k, p in real)} aborted={aborted} (model of the implementation is stale)"))


def main(tier: str, replay: str | None = None):
    import time  # noqa: PLC0415

    griffe = ensure_repo()
    run = Run("C11", tier)
    run.rule = ("DiffTree.tla: one state per (base package, edit script): base = defining module mod/_mod x __all__ none/full/part x re-exports in pkg/__init__ x root __all__ x dangling x cyclic re-export x K(B); "
                "edits from the catalogue Remove/ChangeKind/ChangeValue/RemoveBase (incompatible) and AddPublic/AddOptKw/AddReturn/AddBase/Vendor (compatible) at public and private locations. "
                "Non-trivial = state with >= 1 edit, or identical pair whose base has a public dangling/cyclic re-export; distinct by (base, edit script).")
    catch = L.catches_cyclic()
    run.extra["catch_cyclic_probed"] = catch
    BASE_RULE[0] = L.base_rule()
    run.extra["base_rule_probed"] = BASE_RULE[0]
    for text in L.CATCH_NOTES:
        run.note(text)
    rnd = random.Random(SEED)

    if replay:
        with open(replay) as fh:
            rec = json.load(fh)
        case = rec["case"]
        print(rec["what"])
        n = max(1, len(case["log"]))
        store = Store()
        r = tlc.must(run_tlc("DiffTree_gen.cfg", n, "all", catch, workers=8, store=store))
        run.add_tlc(r)
        gk = json.dumps([case["mpriv"], case["old"]], sort_keys=True)
        lk = json.dumps(case["log"])
        if gk not in store.groups or lk not in store.groups[gk]["cases"]:
            die("C11: the replayed case is not in TLC's enumeration")
        one = Store()
        g = store.groups[gk]
        one.groups[gk] = dict(g, cases={lk: g["cases"][lk]})
        cand, _ = replay_cases(run, griffe, one, 1)
        for name in STRATA:
            for c, real, aborted in cand[name]:
                print("real:", real, aborted, " model:", c["out"], c["aborted"])
        if case.get("cli"):
            cli_sample(run, cand, 2, rnd)
        run.finish()

    if tier == "quick":
        plan = {"all": ("DiffTree_check.cfg", 1, "all", 6), "small": ("DiffTree_check.cfg", 2, "small", 6), "swap": ("DiffTree_check.cfg", 2, "swap", 1)}
        procs, n_cli = 8, 10
    else:
        plan = {"all": ("DiffTree_check.cfg", 2, "all", 10), "small": ("DiffTree_check.cfg", 3, "small", 6), "swap": ("DiffTree_check.cfg", 2, "swap", 1)}
        procs, n_cli = 10, 40
    stores = {k: Store() for k in plan}
    jobs = {k: (lambda a=a, k=k: run_tlc(a[0], a[1], a[2], catch, workers=a[3], store=stores[k])) for k, a in plan.items()}
    if not catch:   # with CatchCyclic extracted as TRUE, I_NoAbort_Clean of the check cfg already is I_NoAbort everywhere
        jobs["defect_abort"] = lambda: run_tlc("DiffTree_defect_abort.cfg", 1, "all", catch, emit=False, workers=1, dump_trace=True)
    jobs["defect_baseswap"] = lambda: tlc.run("DiffTree", "DiffTree_defect_baseswap.cfg", workers=1, timeout=600, heap="2g")
    jobs["defect_path"] = lambda: run_tlc("DiffTree_defect_path.cfg", 1, "small", catch, emit=False, workers=1, dump_trace=True)
    with ThreadPoolExecutor(max_workers=5) as ex:
        futs = {k: ex.submit(f) for k, f in jobs.items()}
        res = {k: f.result() for k, f in futs.items()}
    run.extra["timing"] = {"tlc_wall_s": {k: round(r.wall_s, 1) for k, r in res.items()}, "tlc_and_parse_s": round(time.time() - run.t0, 1)}
    for k, a in plan.items():
        if res[k].violated:
            run.note(f"TLC: the model violates {res[k].violated} ({k}); replaying the enumeration on the real code decides")
            run.add_tlc(res[k])
            stores[k] = Store()
            res[k] = run_tlc("DiffTree_gen.cfg", a[1], a[2], catch, workers=8, store=stores[k])
        tlc.must(res[k])
        run.add_tlc(res[k])
        if len(stores[k]) != res[k].distinct:
            die(f"C11: TLC found {res[k].distinct} distinct states ({k}) but {len(stores[k])} distinct (base, script) cases were emitted")
    for k in ("defect_abort", "defect_path"):
        if k in res:
            tlc.must(res[k], allow_violations=True)
            run.add_tlc(res[k])
    if "defect_abort" in res:
        confirm_defect(run, griffe, res["defect_abort"], "I_NoAbort", "abort")
    confirm_defect(run, griffe, res["defect_path"], "I_ReportedAtPublicPath", "public path")

    run.extra["timing"]["defects_confirmed_at_s"] = round(time.time() - run.t0, 1)
    tlc.must(res["defect_baseswap"], allow_violations=True)
    run.add_tlc(res["defect_baseswap"])
    if "I_ReportedSomewhere" not in res["defect_baseswap"].violated:
        die("C11: with the former base-class test (BaseRule = shorter) TLC no longer violates clause (ii) on a base swap: the regression domain of the spec is broken")
    store = stores["all"]
    store.merge(stores["small"])
    store.merge(stores["swap"])
    del stores, res
    # vacuity: every edit of the catalogue, every clause antecedent and both alias failure modes are reached
    ops: set = set()
    n_oblig = n_compat = n_private = n_cyc = n_ext = 0
    for g in store.groups.values():
        exported = g["old"]["hasRall"]
        for raw in g["cases"].values():
            c = json.loads(raw)
            ops |= {e["op"] for e in c["log"]}
            n_oblig += sum(1 for ob in c["oblig"] if ob["public"] and not ob["masked"])
            n_compat += bool(c["allcompat"] and c["log"])
            n_private += sum(1 for ob in c["oblig"] if ob["op"] in ("Remove", "ChangeKind", "ChangeValue", "RemoveBase", "RemoveExtBase") and not ob["public"])
            n_cyc += bool(g["old"]["cyc"] and exported)
            n_ext += bool(g["old"]["ext"] and exported)
    if ops != {"Remove", "ChangeKind", "ChangeValue", "RemoveBase", "AddBase", "AddPublic", "AddOptKw", "AddReturn", "Vendor", "RemoveExtBase"}:
        die(f"C11: vacuous enumeration, edits reached: {sorted(ops)}")
    if not (n_oblig and n_compat and n_private and n_cyc and n_ext):
        die(f"C11: vacuous enumeration: obligations={n_oblig} compatible={n_compat} private-edits={n_private} cyclic={n_cyc} dangling={n_ext}")
    run.extra["antecedents"] = {"base_packages": len(store.groups), "states": len(store), "public_incompatible_edits": n_oblig, "all_compatible_scripts": n_compat,
                                "private_incompatible_edits": n_private, "cyclic_exported_states": n_cyc, "dangling_exported_states": n_ext}

    run.extra["timing"]["vacuity_done_at_s"] = round(time.time() - run.t0, 1)
    t_py = time.time()
    cli_cand, samples = replay_cases(run, griffe, store, procs)
    run.extra["timing"]["real_replay_s"] = round(time.time() - t_py, 1)
    for c, real, aborted in samples[:: max(1, len(samples) // 5)]:
        run.sample({"package": L.describe(c), "model_report": [[k, ".".join(p)] for k, p in c["out"]], "model_aborted": c["aborted"], "real_report": [[k, ".".join(p)] for k, p in real], "real_aborted": aborted,
                    "obligations": [{"op": o["op"], "id": o["id"], "public": o["public"], "masked": o["masked"], "paths": [".".join(p) for p in o["paths"]]} for o in c["oblig"]]}, limit=6)
    t_py = time.time()
    cli_sample(run, cli_cand, n_cli, rnd)
    run.extra["timing"]["cli_sample_s"] = round(time.time() - t_py, 1)
    run.exhaustive = True
    run.finish()
