"""X06 - the concrete world behind the abstract vocabulary of spec/Cli.tla and spec/CliCheck.tla.

`build_dump_world(root)` lays out, below a fresh directory `root` (the cwd of every CLI run):

    src/   pa (plain, sub-module pa.sub, google docstrings)   pb (plain target)   pd ("from src")
           pe (exported alias -> pb.thing)    pi (non-exported alias -> pb.thing)
           ps (exported alias -> _ps.hidden)  _ps                pm (exported alias -> nx.gone, nx does not exist)
           pt (exported alias -> pe.thing: side-loading is transitive)
           bad (raise RuntimeError at import time: only -x notices)   syn (SyntaxError in __init__.py)
           pa-stubs (stubs-only package of pa: merged with -B only)
    alt/   pc (only here)   pd ("from alt")
    sp/    px (only here; `sp` is put on sys.path, never passed with -s)   pd ("from sp")
    here/  a package in the cwd itself (found as a relative path whatever the search paths are)
    ext.py an extension (class Tag, option `tag`) adding the label "x06-<tag>" to every function

`build_check_world(root)` creates a git repository (src layout, package pk) with tags v1 < v2 and a modified
working tree; the API of pk shrinks from version to version so that every pair has a known number of breakages.
"""
from __future__ import annotations

import os
import subprocess

FILES = {
    "src/pa/__init__.py": '"""Package pa.\n\nArgs:\n    x: Documented like a function.\n"""\nfrom pa.sub import f\n\nVALUE = 1 + 1\n__all__ = ["f", "VALUE"]\n',
    "src/pa/sub.py": 'def f(x, y=2):\n    """Summary of f.\n\n    Args:\n        x: The x.\n        y: The y.\n\n    Returns:\n        res: Something.\n    """\n    return x\n\n\nclass K:\n    """A class.\n\n    Parameters\n    ----------\n    a : int\n        Numpy style.\n    """\n\n    def m(self, a):\n        """:param a: sphinx style."""\n',
    "src/pa-stubs/__init__.pyi": "VALUE: int\n",
    "src/pa-stubs/sub.pyi": "def f(x: int, y: int = ...) -> int: ...\n",
    "src/pb/__init__.py": '"""Package pb."""\n\n\ndef thing(a):\n    """A thing."""\n',
    "src/pd/__init__.py": '"""pd from src."""\n',
    "alt/pd/__init__.py": '"""pd from alt."""\n',
    "sp/pd/__init__.py": '"""pd from sp."""\n',
    "src/pe/__init__.py": '"""Package pe."""\nfrom pb import thing\n\n__all__ = ["thing"]\n',
    "src/pi/__init__.py": '"""Package pi."""\nfrom pb import thing\n\n__all__ = []\n',
    "src/ps/__init__.py": '"""Package ps."""\nfrom _ps import hidden\n\n__all__ = ["hidden"]\n',
    "src/_ps/__init__.py": '"""Private sibling of ps."""\n\n\ndef hidden():\n    """Hidden."""\n',
    "src/pm/__init__.py": '"""Package pm."""\nfrom nx import gone\n\n__all__ = ["gone"]\n',
    "src/pt/__init__.py": '"""Package pt."""\nfrom pe import thing\n\n__all__ = ["thing"]\n',
    "src/bad/__init__.py": '"""Package bad: cannot be imported."""\nraise RuntimeError("x06: bad cannot be imported")\n',
    "src/syn/__init__.py": '"""Package syn: does not compile."""\ndef f(:\n',
    "alt/pc/__init__.py": '"""Package pc (alt only)."""\n\n\ndef c():\n    """C."""\n',
    "sp/px/__init__.py": '"""Package px (sys.path only)."""\n\n\ndef x():\n    """X."""\n',
    "here/__init__.py": '"""Package here (in the cwd)."""\n\n\ndef h():\n    """H."""\n',
    "ext.py": 'import griffe\n\n\nclass Tag(griffe.Extension):\n    def __init__(self, tag="t0"):\n        self.tag = tag\n\n    def on_function_instance(self, *, func, **kwargs):\n        func.labels.add("x06-" + self.tag)\n',
}

# token of the spec -> the PACKAGE argument on the command line
TOKEN_ARG = {"empty": "", "pa.sub": "pa.sub", "bi": "itertools"}
# token -> key under which the package appears in the modules collection / output
TOKEN_TOP = {"pa.sub": "pa", "bi": "itertools"}


def arg_of(tok: str) -> str:
    return TOKEN_ARG.get(tok, tok)


def top_of(tok: str) -> str:
    return TOKEN_TOP.get(tok, tok)


def build_dump_world(root: str) -> None:
    for rel, text in FILES.items():
        path = os.path.join(root, rel)
        os.makedirs(os.path.dirname(path), exist_ok=True)
        with open(path, "w") as fh:
            fh.write(text)


# ---- check world ---------------------------------------------------------------------------------------------
PK = {
    # version -> source of src/pk/__init__.py ; public API shrinks: v1 {f(a,b), g, h} > v2 {f(a), g, h} > WT {f(a), h}
    "v1": "def f(a, b):\n    ...\n\n\ndef g():\n    ...\n\n\ndef h():\n    ...\n",
    "v2": "def f(a):\n    ...\n\n\ndef g():\n    ...\n\n\ndef h():\n    ...\n",
    "WT": "def f(a):\n    ...\n\n\ndef h():\n    ...\n",
}


def _git(root: str, *args: str, date: str | None = None) -> None:
    env = dict(os.environ, GIT_CONFIG_GLOBAL="/dev/null", GIT_CONFIG_SYSTEM="/dev/null", GIT_AUTHOR_NAME="x06", GIT_AUTHOR_EMAIL="x06@example.org",
               GIT_COMMITTER_NAME="x06", GIT_COMMITTER_EMAIL="x06@example.org")
    if date:
        env["GIT_AUTHOR_DATE"] = env["GIT_COMMITTER_DATE"] = date
    subprocess.run(["git", *args], cwd=root, env=env, check=True, stdout=subprocess.DEVNULL, stderr=subprocess.DEVNULL)


def build_check_world(root: str, *, tags: bool = True, git: bool = True) -> None:
    """`tags=False`: same history without any tag; `git=False`: plain directory (no repository)."""
    os.makedirs(os.path.join(root, "src", "pk"), exist_ok=True)
    init = os.path.join(root, "src", "pk", "__init__.py")
    with open(os.path.join(root, "ext.py"), "w") as fh:
        fh.write(FILES["ext.py"])
    if git:
        _git(root, "init", "-q", "-b", "main", ".")
    for i, ver in enumerate(("v1", "v2")):
        with open(init, "w") as fh:
            fh.write(PK[ver])
        if git:
            _git(root, "add", "-A")
            _git(root, "commit", "-q", "-m", ver, date=f"2020-01-0{i + 1}T00:00:00+0000")
            if tags:
                _git(root, "tag", ver)
            else:
                _git(root, "branch", "b" + ver)
    with open(init, "w") as fh:
        fh.write(PK["WT"])
